#!/bin/bash
# thorough tier for all 20, 4 at a time
run(){ s=$(date +%s); ./check $1 --tier thorough > thorough_$1.log 2>&1; rc=$?; echo "$1 rc=$rc $(( $(date +%s)-s ))s $(grep -E '^C[0-9]+:' thorough_$1.log | tail -1)"; }
for g in "C01 C02 C03 C04" "C05 C06 C07 C08" "C09 C10 C11 C12" "C13 C14 C15 C16" "C17 C18 C19 C20"; do for P in $g; do run $P & done; wait; done
