"""Native realisations for counter-models of unit wrappers (call-log / stack / message obligations)."""
import json, sys, argparse, re
ap = argparse.ArgumentParser(); ap.add_argument("--repo"); a = ap.parse_args()
payload = json.load(sys.stdin)
clause = payload.get("obligation", "")
import numpy as np, typeguard
import jaxtyping
from jaxtyping import Float, jaxtyped
import jaxtyping._storage as ST
from typing import Union
A = np.ndarray
out = {"reproduced": None, "model_concrete": False}  # canned scenarios: not derived from the counter-model
def depth():
    return len(getattr(ST._shape_storage, "memo_stack", []))
try:
    if "C13:shape_str-receives-the-current-top-frame" in clause:
        # a rolled-back check precedes the failure: the message must list exactly the bindings in force
        @jaxtyped(typechecker=typeguard.typechecked)
        def h(x: Float[A, "a b"], y: Float[A, "c a"]): pass
        @jaxtyped(typechecker=typeguard.typechecked)
        def h2(x: Union[Float[A, "a a"], Float[A, "a b"]], y: Float[A, "b"]): pass
        msgs = {}
        for name, f, args in (("h", h, (np.zeros((3, 4), np.float32), np.zeros((5, 7), np.float32))), ("h2", h2, (np.zeros((3, 4), np.float32), np.zeros((5,), np.float32)))):
            try: f(*args); msgs[name] = None
            except jaxtyping.TypeCheckError as e: msgs[name] = str(e)
        b1 = dict(re.findall(r"^(\w+)=(\S+)$", msgs["h"] or "", re.M)); b2 = dict(re.findall(r"^(\w+)=(\S+)$", msgs["h2"] or "", re.M))
        exp1, exp2 = {"a": "3", "b": "4"}, {"a": "3", "b": "4"}
        out.update(reproduced=(b1 != exp1 or b2 != exp2), input={"h": "h(x:'a b', y:'c a') on (3,4),(5,7)", "h2": "h2(x: Union['a a','a b'], y:'b') on (3,4),(5,)"},
                   native={"h_bindings": b1, "h2_bindings": b2}, expected={"h_bindings": exp1, "h2_bindings": exp2})
    elif "C05:" in clause:
        res = {}
        class KI(BaseException): pass
        @jaxtyped(typechecker=typeguard.typechecked)
        def ok(x: Float[A, "a"]): return x
        @jaxtyped(typechecker=typeguard.typechecked)
        def boom(x: Float[A, "a"]): raise KI()
        @jaxtyped(typechecker=typeguard.typechecked)
        def bad_ret(x: Float[A, "a"]) -> Float[A, "a a"]: return x
        d0 = depth(); ok(np.zeros(3, np.float32)); res["return"] = depth() - d0
        for nm, f in (("BaseException", boom), ("TypeCheckError", bad_ret)):
            d0 = depth()
            try: f(np.zeros(3, np.float32))
            except BaseException: pass
            res[nm] = depth() - d0
        d0 = depth()
        try: ok(np.zeros((3, 3), np.float32))
        except BaseException: pass
        res["param-failure"] = depth() - d0
        d0 = depth()
        try:
            with jaxtyped("context"): raise KI()
        except BaseException: pass
        res["context-block"] = depth() - d0
        out.update(reproduced=any(v != 0 for v in res.values()), native={"stack_depth_delta": res}, expected={"stack_depth_delta": {k: 0 for k in res}})
    elif "C07:" in clause or "C19:" in clause or "C02:" in clause:
        calls = []
        def body(x): calls.append(id(x)); return x
        f = jaxtyped(typechecker=typeguard.typechecked)(body)
        body.__annotations__ = {}
        def g(x: Float[A, "a"]) -> Float[A, "a"]: calls.append(id(x)); return x
        gw = jaxtyped(typechecker=typeguard.typechecked)(g)
        x = np.zeros(3, np.float32); calls.clear(); r = gw(x)
        well = {"runs": len(calls), "same_arg": calls[:1] == [id(x)], "same_result": r is x}
        calls.clear()
        try: gw(np.zeros((2, 2), np.float32)); ill = "no error"
        except jaxtyping.TypeCheckError: ill = "TypeCheckError"
        ill_runs = len(calls)
        jaxtyping.config.update("jaxtyping_disable", True)
        try:
            calls.clear(); r2 = gw(np.zeros((2, 2), np.float32)); dis = {"runs": len(calls), "raised": None}
        except BaseException as e: dis = {"runs": len(calls), "raised": type(e).__name__}
        finally: jaxtyping.config.update("jaxtyping_disable", False)
        native = {"well_typed": well, "ill_typed": {"outcome": ill, "body_runs": ill_runs}, "disabled_ill_typed": dis}
        expected = {"well_typed": {"runs": 1, "same_arg": True, "same_result": True}, "ill_typed": {"outcome": "TypeCheckError", "body_runs": 0}, "disabled_ill_typed": {"runs": 1, "raised": None}}
        out.update(reproduced=(native != expected), native=native, expected=expected)
    elif "C13:" in clause:
        @jaxtyped(typechecker=typeguard.typechecked)
        def p(x: Float[A, "a"]): pass
        @jaxtyped(typechecker=typeguard.typechecked)
        def r(x: Float[A, "a"]) -> Float[A, "a a"]: return x
        @jaxtyped(typechecker=typeguard.typechecked)
        def m(x: Float[A, "b+1"]): pass
        res = {}
        for nm, f, arg in (("param", p, np.zeros((2, 2), np.float32)), ("return", r, np.zeros(2, np.float32)), ("misuse", m, np.zeros(2, np.float32))):
            try: f(arg); res[nm] = "no error"
            except BaseException as e: res[nm] = [type(e).__name__, "parameters of" in str(e), "return value" in str(e), e.__cause__ is not None]
        exp = {"param": ["TypeCheckError", True, False, True], "return": ["TypeCheckError", False, True, True], "misuse": ["AnnotationError", False, False, res.get("misuse", [0, 0, 0, None])[3] if isinstance(res.get("misuse"), list) else None]}
        out.update(reproduced=(res != exp), native=res, expected=exp)
    else:
        out.update(model_concrete=False, error="no native realisation for this clause")
except BaseException as e:
    out.update(reproduced=True, native={"harness saw": repr(e)[:300]})
print(json.dumps(out, default=str))
