#!/bin/bash
# re-evaluates every seeded change under /tmp/wt-out with the current checks (properties in parallel, changes of one property in sequence)
run_prop(){ P=$1; for M in $(ls ${SEED_ROOT:-/tmp/wt-out}/$P 2>/dev/null | grep "^m"); do extra=""; [ "$P" = C11 ] && extra="C18"; /verif/tools_eval_seed.sh $P $M $extra > /tmp/ev_$P$M.log 2>&1; done; }
for P in "$@"; do run_prop $P & done; wait
