#!/bin/bash
# runs every bounded stand-in once (tier $1, default quick) and prints a one-line summary per harness
T=${1:-quick}
for f in /verif/bounded/b*.py; do
 (
  out=$(PYTHONPATH=/repo:/verif JAX_PLATFORMS=cpu timeout 900 /venv/bin/python $f --tier $T --repo /repo 2>/dev/null | tail -1)
  python3 - "$f" <<PY
import sys,json,collections
name=sys.argv[1].split('/')[-1]
try:
    d=json.loads('''$(echo "$out" | sed "s/'''/ /g" | sed 's/\\/\\\\/g')''')
    c=collections.Counter(':'.join(str(x.get('case','')).split(':')[:2]) for x in d.get('failures',[]))
    print(name, d.get('status'), 'evals', d.get('evaluations'), 'fails', len(d.get('failures',[])), dict(c))
except Exception as e: print(name,'BAD',repr(e)[:200])
PY
 ) &
done
wait
