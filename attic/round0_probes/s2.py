import time
from z3 import *
exec(open('s1.py').read().split("def prove")[0].split("wf = ")[0])
def prove(name, hyps, goal, timeout=20000):
    s = Solver(); s.set('timeout', timeout)
    s.add(*hyps); s.add(Not(goal))
    t=time.time(); r = s.check(); print(f"{name}: {'PROVED' if r==unsat else r} {time.time()-t:.2f}s")
    if r == sat: print(s.model())
wf0 = And(0 <= iv, iv < Length(dims), isvar(dims[iv]))
def wf_at(t): return Implies(And(0<=t, t<Length(dims), t != iv), Not(isvar(dims[t])))
n = Length(dims); m = Length(shape)
guard = Not(m < n - 1)
i = iv; j = -(n - i - 1)
pre_d = pyslice(dims, IntVal(0), i); pre_s = pyslice(shape, IntVal(0), i)
kk = Int('kk')
prove("prefix no variadic (manual inst)", [wf0, wf_at(kk), guard, 0<=kk, kk<Length(pre_d)], Not(isvar(pre_d[kk])))
suf_d = If(j==0, Empty(DS), pyslice(dims, j, n)); suf_s = If(j==0, Empty(IS), pyslice(shape, j, m))
prove("suffix no variadic (manual inst)", [wf0, wf_at(kk+i+1), guard, 0<=kk, kk<Length(suf_d)], Not(isvar(suf_d[kk])))
mid = If(j==0, pyslice(shape, i, m), pyslice(shape, i, j))
prove("decomposition", [wf0, guard], shape == Concat(pre_s, Concat(mid, suf_s)))
prove("mid length", [wf0, guard], Length(mid) == m - (n-1))
# path-split version: slices become plain Extracts under path conditions
pc1 = [wf0, guard, j == 0]
pre = Extract(shape, 0, i)
prove("decomp path j==0", pc1, shape == Concat(pre, Extract(shape, i, m-i)))
pc2 = [wf0, guard, j != 0]
prove("decomp path j<0", pc2, shape == Concat(pre, Concat(Extract(shape, i, (m+j)-i), Extract(shape, m+j, -j))))
# and check that the path split normalisation itself is exact: pyslice == Extract under pc
prove("norm suffix", pc2, pyslice(shape, j, m) == Extract(shape, m+j, -j))
prove("norm mid", pc2, pyslice(shape, i, j) == Extract(shape, i, (m+j)-i))
