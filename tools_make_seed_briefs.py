"""writes the briefs handed to the seeded-change authors: tools_make_seed_briefs.py <outdir for briefs> <outdir for results> [props...]
A brief contains the property text only (nothing from /verif), the scratch worktree to use, and the titles of the changes already kept."""
import glob, json, os, sys
brief_dir, out_root = sys.argv[1], sys.argv[2]
only = set(sys.argv[3:])
os.makedirs(brief_dir, exist_ok=True)
props = [json.loads(l) for l in open("/verif/properties.jsonl")]
T = '''You are a careful adversarial software engineer. The Python library jaxtyping (runtime shape/dtype annotations for arrays and PyTrees) is checked out in your own
scratch git worktree at /tmp/wt/{P} (a worktree of the repository; work ONLY there; never touch /repo, and do not read or write anything under /verif — it is off limits).

Interpreter: /venv/bin/python (3.12; numpy 1.26, jax 0.6.2, tensorflow, typeguard 2.13.3, beartype 0.22.9, cloudpickle, IPython installed; no network). To run code against your worktree
use  `cd /tmp/wt/{P} && PYTHONPATH=/tmp/wt/{P} /venv/bin/python ...`  (PYTHONPATH makes your copy win over the installed one — verify with `python -c "import jaxtyping; print(jaxtyping.__file__)"`).
The existing test suite: `cd /tmp/wt/{P} && PYTHONPATH=/tmp/wt/{P} /venv/bin/python -m pytest -q -p no:cacheprovider --timeout=900 -q --deselect test/test_decorator.py::test_mlx`
(about 50 s; on the unchanged tree everything passes except test_mlx[*] and two beartype generator tests `test_generators_simple[False-beartype]`, `test_generators_return_no_annotations[False-beartype]`, which always fail in this sandbox — ignore those). Do not run pytest with -n.

## The property (a semantic guarantee users rely on)
{P}: {title}
Statement: {statement}
Quantifier: {quant}
Why the existing tests cannot settle it: {why}
Where it lives: {anchors}

## Your task
Produce up to TWO different, realistic changes to the library source (under /tmp/wt/{P}/jaxtyping/ only; not the tests) — the kind of edit a well-meaning contributor could make
(a refactoring slip, an "optimisation", a wrong boundary, a dropped restore, a reordered statement, two cooperating edits that each look fine alone) — such that with the change:
  1. the library still imports and the EXISTING test suite still passes exactly as before (same tests pass, same known failures);
  2. the property above is violated — but only under something SPECIFIC: a particular input shape / unusual argument, a particular sequence of operations, an exception or fault at a
     particular point, a particular interleaving, a particular history of runs. NOT something ordinary use would expose at once, and not something the existing tests exercise;
  3. you have a small self-contained demonstration (`demo.py`, plain script, exit code 0 = property holds, non-zero = property violated, prints what it observed) that FAILS with your
     change and PASSES on the unchanged tree (check both, e.g. `git diff > my.patch; git checkout -- .; run demo; git apply my.patch; run demo`. NEVER use `git stash`: the stash is shared between worktrees and other agents would pop your entry).
The two changes should use different mechanisms (different functions or different kinds of mistake). Quality over quantity: one solid change is better than two doubtful ones.
Changes that make the code fail loudly in ordinary use, syntax errors, or changes to tests/docs do not count. Keep each change small (a few lines).

## Already tried by others (do NOT repeat these ideas or close variants; pick different mechanisms, preferably in functions or code paths not listed here)
{tried}

Hints for finding fresh ideas: the obvious slips in the main functions are taken. Think about what ELSE this guarantee silently depends on: other modules of the package (`__init__.py` lazy attributes, `_errors.py`, `_config.py`, `_typeguard/` (the vendored checker), `_indirection.py`, `_ipython_extension.py`, `_pytest_plugin.py`), module-level constants and sentinels, class attributes / metaclass behaviour (`__eq__`, `__hash__`, `__instancecheck__`, `__subclasscheck__`), default arguments, what is captured in closures and when, evaluation order, the second call / the second thread / the re-entrant call, exceptions raised by user code in the middle, falsy-but-valid values (0, "", (), empty dict), identity vs equality, aliasing vs copies.
{emphasis}

## Deliver (write these files, nothing else outside your worktree)
For change k in {{1,2}}:  {out}/{P}/m{{k}}/patch.diff  (output of `git -C /tmp/wt/{P} diff` with ONLY that change applied),  {out}/{P}/m{{k}}/demo.py ,
{out}/{P}/m{{k}}/notes.md  (what the change is, why it breaks the property, exactly what is needed for it to manifest, the commands you ran and their results: test suite result with the
change, demo result with and without the change).
When done, leave the worktree clean (`git -C /tmp/wt/{P} checkout -- .`). Your final message: a 5-10 line summary per change.
'''
EMPH = os.environ.get("SEED_EMPHASIS", "")
for p in props:
    P = p["id"]
    if only and P not in only:
        continue
    tried = []
    for d in sorted(glob.glob(f"/verif/seeded/{P}-m*")):
        t = ""
        if os.path.exists(d + "/notes.md"):
            t = open(d + "/notes.md").read().strip().splitlines()[0].lstrip("# ").strip()
        tried.append(f"- {os.path.basename(d)}: {t[:170]}")
    open(os.path.join(brief_dir, P + ".md"), "w").write(T.format(P=P, title=p["title"], statement=p["statement"], quant=p["quantifier"]["text"], why=p["why_tests_cant"],
                                                              anchors=json.dumps(p["anchors"]), tried="\n".join(tried), emphasis=EMPH, out=out_root))
print("briefs written to", brief_dir)
