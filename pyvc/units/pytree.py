"""Unit: jaxtyping/_pytree_type.py -- _MetaPyTree.__instancecheck__ and _MetaPyTree._check.

__instancecheck__ (C04/C08/C12): no leaftype => True; obj is None => True, nothing touched; otherwise snapshot the four
memos, run _check (BY CONTRACT: any bool or any exception class; T4 frame on the context), and on False / any
exception restore the snapshot (View' == old(View)), on True keep.

_check (C08/C09/C12/C16), callees by contract: the flag/label setters (unit storage); jax.tree_util over an abstract
algebra (T5: Unflat, Subst, StructOf, PrefixOK); the vendored typechecked(accepts_leaftype) = "Matches(L, x)" with the
isinstance side effects (T4/T5).
  C12  flatten-mode flag is True exactly during tree_flatten and False on EVERY exit; '?' label None on every exit
  C16  while leaf i is checked the label is Lbl(i, structure) iff the annotation has a structure name; None between leaves
  C08  leaf loop: returns False at the first leaf that does not match, True after the last; Any => everything accepted
  C09  identifier: bind-or-compare on pi; composite: pieces sliced per leading/trailing "...", AnnotationError iff a piece
       is unbound, named tree = fold of Subst over the pieces in order, then equality / PrefixOK / suffix test
"""
from __future__ import annotations

import ast

import z3

from ..engine import Engine, Raised, is_raised, mkbool
from ..calls import call_value
from ..source import Module
from ..values import ANY_EXC, BOOL, INT, NONE, NORMAL, STR, U, Cls, DictObj, Exc, Fn, ListObj, NoneV, Obj, Opaque, Outcome, Ref, State, Tup, Unsupported, Z, exc_representatives
from .storage import Lbl

NAME = "pytree"
REL = "jaxtyping/_pytree_type.py"

Unflat = z3.Function("jtu_unflatten_zeros", U, U)  # a tree of the given structure
Subst = z3.Function("jtu_subst_leaves", U, U, U)  # tree_map(lambda _: t, s)
StructOf = z3.Function("jtu_tree_structure", U, U)
PrefixOK = z3.Function("jtu_is_prefix", U, U, BOOL)  # tree_map(f, a, b) does not raise ValueError
SuffixBad = z3.Function("suffix_some_leaf_lacks_structure", U, U, BOOL)
Leaf0 = z3.Const("int_zero_leaf", U)
NumLeaves = z3.Function("num_leaves", U, INT)


def split_model(e, s, recv, args, kwargs, node):
    """cls.structure.split(): the (whitespace-separated) pieces of the structure string -- one symbolic sequence."""
    if isinstance(recv, Z) and recv.kind == "str" and not args and str(recv.t) == "structure_name":
        return [(s, Z("seq:str", z3.Const("structure_pieces", z3.SeqSort(STR))))]
    return None


def treedef(t):
    return Z("u", t, tag="treedef")


def tree(t):
    return Opaque("tree", t)


def frame_refs(st, tagp=""):
    return [st.alloc(DictObj(STR, INT, tag=tagp + "sigma")), st.alloc(DictObj(STR, U, tag=tagp + "nu")), st.alloc(DictObj(STR, U, tag=tagp + "pi")), st.alloc(DictObj(STR, U, tag=tagp + "A"))]


def user_havoc(eng, st):
    """T4: user code (leaf checks, is_leaf callbacks, custom flatteners) may change the contents of the current frame's dicts
    and -- when one of its own checks fails and rolls back -- REPLACE them; flags, label, depth are preserved."""
    if st.ghost.get("top") is None:
        return [st]
    a = st.clone()
    for r in a.ghost["top"]:
        o = a.get(r)
        a.put(r, DictObj(o.ksort, o.vsort, tag=o.tag))
    a.path.append("user:mutates-frame")
    if st.ghost.get("replaced"):
        return [a]
    b = st.clone()
    b.ghost["top"] = frame_refs(b, "replaced_")
    b.ghost["replaced"] = True
    b.path.append("user:rolled-back-inner-check-replaced-frame-dicts")
    return [a, b]


def storage_models(eng):
    # helpers that live in _storage.py (e.g. a context manager around the flatten flag) are executed from their source;
    # their raw writes to the two thread-local flag objects are mapped onto the ghost flag / label
    try:
        eng.extra_modules = [Module("jaxtyping/_storage.py", eng.module.repo)]
    except Exception:
        eng.extra_modules = []
    eng.globals["_treeflatten_storage"] = Opaque("tls:_treeflatten_storage")
    eng.globals["_treepath_storage"] = Opaque("tls:_treepath_storage")

    def setattr_hook(e, s, recv, attr, v, node):
        if isinstance(recv, Opaque) and recv.tag == "tls:_treeflatten_storage" and attr == "value":
            if isinstance(v, Z) and v.kind == "bool" and (z3.is_true(z3.simplify(v.t)) or z3.is_false(z3.simplify(v.t))):
                s1 = s.clone()
                s1.ghost["flatten"] = z3.is_true(z3.simplify(v.t))
                return [(s1, NORMAL)]
            raise Unsupported("flatten flag set to a non-constant")
        if isinstance(recv, Opaque) and recv.tag == "tls:_treepath_storage" and attr == "value":
            s1 = s.clone()
            s1.ghost["label"] = None if isinstance(v, NoneV) else (v.t if isinstance(v, Z) and v.kind == "str" else z3.FreshConst(STR, "label"))
            return [(s1, NORMAL)]
        return None

    eng.method_models["__setattr__"] = setattr_hook
    _storage_models_core(eng)


def _storage_models_core(eng):
    def set_flat(e, s, a, k, n):
        s1 = s.clone()
        s1.ghost["flatten"] = True
        return [(s1, NONE)]

    def clear_flat(e, s, a, k, n):
        s1 = s.clone()
        s1.ghost["flatten"] = False
        return [(s1, NONE)]

    def set_label(e, s, a, k, n):
        if s.ghost.get("label") is not None:
            return [(s, Raised(Exc("AnnotationError", origin="set_treepath_memo")))]
        idx, structure = a
        s1 = s.clone()
        if isinstance(idx, Z) and idx.kind == "int" and isinstance(structure, Z) and structure.kind == "str":
            s1.ghost["label"] = Lbl(idx.t, structure.t)
        else:
            s1.ghost["label"] = z3.FreshConst(STR, "label")
            e.oblige(s, "C16:set_treepath_memo-gets-(leaf-index, structure-name)", z3.BoolVal(False))
        return [(s1, NONE)]

    def clear_label(e, s, a, k, n):
        s1 = s.clone()
        s1.ghost["label"] = None
        return [(s1, NONE)]

    def get_memo(e, s, a, k, n):
        if s.ghost.get("top") is not None:
            return [(s, Tup(list(s.ghost["top"])))]
        s1 = s.clone()
        fresh = [s1.alloc(DictObj.empty(STR, INT, "fresh_sigma"))] + [s1.alloc(DictObj.empty(STR, U, f"fresh{i}")) for i in range(3)]
        return [(s1, Tup(fresh))]

    def set_memo(e, s, a, k, n):
        s1 = s.clone()
        if s1.ghost.get("top") is None:
            return [(s1, NONE)]
        # contract of set_shape_memo (unit storage): (a) the frame now is the four argument dicts, or (b) its own dicts were restored in place
        s2 = s.clone()
        s1.ghost["top"] = list(a)
        s1.path.append("set_shape_memo:frame-replaced")
        ok = len(a) == 4 and all(isinstance(x, Ref) for x in a)
        if not ok:
            return [(s1, NONE)]
        for r, a_ in zip(s2.ghost["top"], a):
            if r.h != a_.h:
                src = s2.get(a_)
                s2.put(r, s2.get(r).with_(src.m, src.d))
        s2.path.append("set_shape_memo:restored-in-place")
        return [(s1, NONE), (s2, NONE)]

    eng.globals.update({
        "set_treeflatten_memo": Fn("set_treeflatten_memo", model=set_flat), "clear_treeflatten_memo": Fn("clear_treeflatten_memo", model=clear_flat),
        "set_treepath_memo": Fn("set_treepath_memo", model=set_label), "clear_treepath_memo": Fn("clear_treepath_memo", model=clear_label),
        "get_shape_memo": Fn("get_shape_memo", model=get_memo), "set_shape_memo": Fn("set_shape_memo", model=set_memo),
    })


def build(repo=None):
    mod = Module(REL, repo)
    obligations, functions = [], []
    paths = 0

    def collect(st_obl, fn_label):
        sn = z3.String("structure_name")
        pa = z3.Const("structure_pieces", z3.SeqSort(STR))
        for ob in st_obl:
            ob = dict(ob)
            xs = [z3.String(f"piece{i}") for i in range(3)]
            ob["hints"] = [[pa == (z3.Unit(xs[0]) if L == 1 else z3.Concat(*[z3.Unit(x) for x in xs[:L]]))] for L in (1, 2, 3)]
            ob.setdefault("kind", "vc")
            ob["function"] = fn_label
            c = ob["clause"]
            if c[:3] in ("C04", "C08", "C09", "C12", "C16"):
                ob["serves"] = [c[:3]] + (["C12", "C13", "C17", "C09"] if c[:3] == "C04" else [])  # (C09: a structure name bound by a check that then fails or raises must be gone)
                if c.startswith("C12:no-label") or c.startswith("C16:"):
                    ob["serves"] = ["C12", "C16", "C09"]  # the '?' label protocol: a restore obligation, the C16 mechanism, and what later structured checks (C09) need -- a label left behind makes them raise
                if c.startswith("C12:flatten-mode-is-off"):
                    # while the flag is set every array annotation accepts on the array type alone: left behind, later shape / dtype verdicts (C01, C02) and
                    # the errors they should raise (C13) are wrong until the next successful flatten
                    ob["serves"] = ["C12", "C01", "C02", "C13", "C08"]
                if c.startswith("C08:the-leaf-loop-enumerates"):
                    ob["serves"] = ["C08", "C16", "C09"]  # leaf POSITIONS are what '?' axes (C16) are keyed by
                if c.startswith("C12:flatten"):
                    # 'the type-only mode is on exactly while a tree is flattened' is the invariant the array checks rely on (C01/C02/C03)
                    ob["serves"] = ["C12", "C08", "C01", "C02", "C03", "C17", "C13"]
            obligations.append(ob)

    # ================================================================== __instancecheck__
    ic = mod.func("_MetaPyTree.__instancecheck__")
    functions.append({"qualname": "jaxtyping._pytree_type._MetaPyTree.__instancecheck__", "sha256_16": mod.sha(ic), "lines": [ic.lineno, ic.end_lineno]})
    for has_leaftype in (True, False):
        for has_stack in (True, False):
            eng = Engine(mod)
            storage_models(eng)
            eng.user_raises = exc_representatives(ic)
            st = State()
            top = frame_refs(st)
            view0 = [(st.get(r).m, st.get(r).d) for r in top]
            st.ghost.update(top=list(top) if has_stack else None, flatten=False, label=None, replaced=False)
            CheckOut = z3.Bool("check_result")

            def m_check(e, s, args, kwargs, node):
                outs = []
                for s1 in user_havoc(e, s):
                    # _check also writes the structure memo it was handed
                    if len(args) >= 2 and isinstance(args[1], Ref):
                        o = s1.get(args[1])
                        s1.put(args[1], DictObj(o.ksort, o.vsort, tag=o.tag))
                    ok = s1.clone()
                    ok.log.append("_check")
                    # what the check left behind: the frame's handles and their contents at this moment
                    ok.ghost["after_check"] = ([r.h for r in ok.ghost["top"]], [ok.get(r) for r in ok.ghost["top"]]) if ok.ghost.get("top") is not None else None
                    outs.append((ok, Z("bool", CheckOut)))
                    s2 = s1.clone()
                    s2.log.append("_check")
                    outs.append((s2, Raised(Exc(frozenset(e.user_raises), origin="_check"))))
                return outs

            attrs = {"_check": Fn("_check", model=m_check)}
            if has_leaftype:
                attrs["leaftype"] = Opaque("leaftype")
            cls = st.alloc(Obj("PyTree-annotation", attrs, tag="cls"))
            for obj_none in (True, False):
                s0 = st.clone()
                s0.obl = st.obl
                p = [a.arg for a in ic.args.args]
                the_obj = Opaque("obj")
                s0.env = {p[0]: cls, p[1]: NONE if obj_none else the_obj}
                if not obj_none:
                    s0.pc = s0.pc + [the_obj.t != z3.Const("PyNone", U)]
                s0.path = [f"leaftype={'yes' if has_leaftype else 'no'}", f"stack={'yes' if has_stack else 'no'}", f"obj={'None' if obj_none else 'value'}"]
                for s1, o in eng.run(ic.body, s0):
                    paths += 1
                    view1 = [(s1.get(r).m, s1.get(r).d) for r in s1.ghost["top"]] if has_stack else None
                    unchanged = z3.And(*[z3.And(a[0] == b[0], a[1] == b[1]) for a, b in zip(view1, view0)]) if has_stack else z3.BoolVal(True)
                    called = "_check" in s1.log
                    if not has_leaftype or obj_none:
                        ok = o.kind == "return" and isinstance(o.val, Z) and o.val.kind == "bool"
                        eng.oblige(s1, "C08:bare-PyTree-and-top-level-None-are-accepted-without-touching-state", z3.And(o.val.t, unchanged, z3.BoolVal(not called)) if ok else z3.BoolVal(False))
                        continue
                    if o.kind == "return":
                        if not (isinstance(o.val, Z) and o.val.kind == "bool"):
                            eng.oblige(s1, "C08:instancecheck-returns-a-bool", z3.BoolVal(False))
                            continue
                        eng.oblige(s1, "C08:verdict-is-the-result-of-the-leaf-and-structure-check", z3.And(z3.BoolVal(called), o.val.t == CheckOut))
                        eng.oblige(s1, "C04:rejected-tree-implies-view-unchanged", z3.Implies(z3.Not(o.val.t), unchanged))
                        ac = s1.ghost.get("after_check")
                        if ac is not None and has_stack:
                            # nothing is written to the context after an ACCEPTING _check: same frame dicts, same contents (re-installing dicts fetched
                            # BEFORE the check would bring back what a rolled-back Union member left in them and drop what was bound since)
                            untouched = s1.ghost["top"] is not None and [r.h for r in s1.ghost["top"]] == ac[0] and all(s1.get(r) is o0 for r, o0 in zip(s1.ghost["top"], ac[1]))
                            eng.oblige(s1, "C04:accepted-tree-leaves-the-context-exactly-as-the-accepting-check-left-it(no-write-after-_check)", z3.Implies(o.val.t, z3.BoolVal(bool(untouched))))
                    elif o.kind == "raise":
                        eng.oblige(s1, f"C04:raise-implies-view-unchanged[{'Exception' if 'NonExceptionBase' not in s1.ghost.get('exc_classes', {}).get(o.val.id, o.val.classes()) else 'incl. non-Exception BaseException'}]", unchanged)
                        eng.oblige(s1, "C04:only-the-check-raises", z3.BoolVal(o.val.origin == "_check"))
                    else:
                        eng.oblige(s1, "C08:instancecheck-returns-a-bool", z3.BoolVal(False))
            collect(st.obl, "_MetaPyTree.__instancecheck__")

    # ================================================================== _check
    ck = mod.func("_MetaPyTree._check")
    functions.append({"qualname": "jaxtyping._pytree_type._MetaPyTree._check", "sha256_16": mod.sha(ck), "lines": [ck.lineno, ck.end_lineno]})
    # _check together with the private helpers it hands its work to (methods of the metaclass, module-level functions of this file)
    helpers, work = [], [ck]
    mcls = mod.cls("_MetaPyTree")
    by_name = {b.name: b for b in mcls.body if isinstance(b, ast.FunctionDef)}
    by_name.update({b.name: b for b in mod.tree.body if isinstance(b, ast.FunctionDef)})
    while work:
        cur = work.pop()
        for c in ast.walk(cur):
            if isinstance(c, ast.Call):
                nm = c.func.attr if isinstance(c.func, ast.Attribute) and isinstance(c.func.value, ast.Name) and c.func.value.id in ("cls", "self") else c.func.id if isinstance(c.func, ast.Name) else None
                h = by_name.get(nm)
                if h is not None and h is not ck and h not in helpers and h.name not in ("__instancecheck__", "__getitem__", "__call__"):
                    helpers.append(h)
                    work.append(h)
    fors = [x for f_ in [ck] + helpers for x in ast.walk(f_) if isinstance(x, ast.For)]
    leaf_loops = [x for x in fors if "enumerate" in ast.unparse(x.iter)]
    piece_loops = [x for x in fors if x not in leaf_loops]
    if len(leaf_loops) != 1 or len(piece_loops) != 1:
        raise Unsupported(f"_check: expected one leaf loop and one pieces loop, found {len(leaf_loops)}/{len(piece_loops)}")
    leaf_loop, piece_loop = leaf_loops[0], piece_loops[0]

    for structure_kind in ("none", "str"):
        for leaf_any in (True, False):
            eng = Engine(mod)
            storage_models(eng)
            eng.user_raises = exc_representatives(ck)
            AnyT = Opaque("sentinel:Any", z3.Const("typing_Any", U))
            eng.globals["Any"] = AnyT
            eng.globals["AnnotationError"] = Cls("AnnotationError")
            struct_name = z3.String("structure_name")
            the_structure = z3.Const("flattened_structure", U)
            nleaves = z3.Int("n_leaves")
            k = z3.Int("k")
            Acc = z3.Function("LeafMatches", INT, BOOL)  # leaf i matches L in the context at that time (Matches(L, leaf_i))
            AllAcc = z3.Function("AllLeavesBeforeMatch", INT, BOOL)
            pieces_all = z3.Const("structure_pieces", z3.SeqSort(STR))
            Comp = z3.Function("ComposeFold", INT, U)
            AllIn = z3.Function("AllPiecesBound", INT, BOOL)

            st = State()
            top = frame_refs(st)
            pi0 = st.get(top[2])
            st.ghost.update(top=list(top), flatten=False, label=None, replaced=False, flat_calls=0)
            the_leaves = Opaque("leaves", z3.Const("the_leaves", U))
            # a comprehension / dict.fromkeys / filter over the leaves yields SOME OTHER list (possibly shorter, positions shifted)
            eng.method_models["__listcomp__"] = lambda e, s, node: [(s, Opaque("some-list-built-by-a-comprehension"))]

            # ---- the vendored type checker and the leaf check
            def m_leafcheck(e, s, args, kwargs, node):
                outs = []
                for s1 in user_havoc(e, s):
                    entry = {"callee": "accepts_leaftype", "flatten": s1.ghost["flatten"], "label": s1.ghost["label"], "arg": args[0] if args else None}
                    ok = s1.clone()
                    ok.log.append(dict(entry, result="ok"))
                    outs.append((ok, NONE))
                    s2 = s1.clone()
                    ex = Exc(frozenset(e.user_raises), origin="accepts_leaftype")
                    s2.log.append(dict(entry, result=ex))
                    outs.append((s2, Raised(ex)))
                return outs

            def m_typechecked(e, s, args, kwargs, node):
                f = args[0]
                if not (isinstance(f, Fn) and isinstance(f.node, ast.FunctionDef) and len(f.node.args.args) == 1 and f.node.args.args[0].annotation is not None
                        and ast.unparse(f.node.args.args[0].annotation).endswith(".leaftype")):
                    e.oblige(s, "C08:the-leaf-checker-is-typechecked(def(x: cls.leaftype))", z3.BoolVal(False))
                return [(s, Fn("accepts_leaftype", model=m_leafcheck))]

            eng.globals["typechecked"] = Fn("typechecked", model=m_typechecked)

            # ---- jax.tree_util
            def m_tree_flatten(e, s, args, kwargs, node):
                is_leaf = kwargs.get("is_leaf")
                e.oblige(s, "C12:flatten-mode-is-on-while-the-tree-is-flattened", z3.BoolVal(s.ghost["flatten"] is True))
                e.oblige(s, "C16:no-label-is-set-while-the-tree-is-flattened", z3.BoolVal(s.ghost["label"] is None))
                e.oblige(s, "C08:tree_flatten-gets-the-value-and-the-leaf-predicate", z3.BoolVal(len(args) == 1 and isinstance(args[0], Opaque) and args[0].tag == "obj" and is_leaf is not None))
                outs = []
                # the is_leaf callback runs on (an arbitrary) sub-tree: its exceptions propagate through tree_flatten
                cb = call_value(e, s, is_leaf, [Opaque("subtree")], {}, node) if is_leaf is not None else [(s, mkbool(False))]
                for s1, r in cb:
                    if is_raised(r):
                        outs.append((s1, r))
                        continue
                    s2 = s1.clone()
                    s2.ghost["flat_calls"] = s2.ghost.get("flat_calls", 0) + 1
                    s2.pc.append(nleaves >= 0)
                    outs.append((s2, Tup([the_leaves, treedef(the_structure)])))
                # custom flatteners are user code too
                for s3 in user_havoc(e, s):
                    outs.append((s3, Raised(Exc(frozenset(e.user_raises), origin="tree_flatten"))))
                return outs

            def m_tree_unflatten(e, s, args, kwargs, node):
                sd = args[0]
                return [(s.fork(StructOf(Unflat(e.as_u(s, sd))) == e.as_u(s, sd)), tree(Unflat(e.as_u(s, sd))))]

            def m_tree_structure(e, s, args, kwargs, node):
                return [(s, treedef(StructOf(e.as_u(s, args[0]))))]

            def m_tree_map(e, s, args, kwargs, node):
                if len(args) == 2:
                    f, t = args
                    outs = []
                    for s1, r in call_value(e, s, f, [Opaque("leaf")], {}, node):
                        if is_raised(r):
                            outs.append((s1, r))
                        else:
                            outs.append((s1, tree(Subst(e.as_u(s1, t), e.as_u(s1, r)))))
                    return outs
                if len(args) == 3:
                    f, a, b = args
                    ok = PrefixOK(StructOf(e.as_u(s, a)), StructOf(e.as_u(s, b)))
                    return [(s.fork(ok, "tree_map:ok"), Opaque("mapped")), (s.fork(z3.Not(ok), "tree_map:ValueError"), Raised(Exc("ValueError", origin="tree_map")))]
                raise Unsupported("tree_map arity")

            def m_tree_leaves(e, s, args, kwargs, node):
                return [(s, Opaque("dummy_leaves", z3.Function("jtu_tree_leaves", U, U, U)(e.as_u(s, args[0]), e.as_u(s, kwargs.get("is_leaf", NONE)))))]

            eng.globals["jtu"] = Opaque("global:jtu", z3.Const("global_jtu", U))
            eng.globals.update({"jtu.tree_flatten": Fn("tree_flatten", model=m_tree_flatten), "jtu.tree_unflatten": Fn("tree_unflatten", model=m_tree_unflatten),
                                "jtu.tree_structure": Fn("tree_structure", model=m_tree_structure), "jtu.tree_map": Fn("tree_map", model=m_tree_map), "jtu.tree_leaves": Fn("tree_leaves", model=m_tree_leaves)})
            eng.method_models["any()"] = lambda e, s, g, node: [(s, Z("bool", SuffixBad(z3.Const("named_structure_at_suffix", U), the_structure)))]
            eng.method_models["all()"] = lambda e, s, g, node: [(s, Z("bool", z3.Not(SuffixBad(z3.Const("named_structure_at_suffix", U), the_structure))))]
            eng.attr_models["num_leaves"] = lambda e, s, recv, node: [(s, Z("int", NumLeaves(e.as_u(s, recv))))]

            def b_len(e, s, args, kwargs, node):
                if args and isinstance(args[0], Opaque) and args[0].tag == "leaves":
                    return [(s, Z("int", nleaves))]
                from ..builtins_model import b_len as real_len

                return real_len(e, s, args, kwargs, node)

            eng.globals["len"] = Fn("len", model=b_len)

            def eq_hook(e, s, a, b):
                if isinstance(a, Z) and isinstance(b, Z) and a.kind == b.kind == "u" and "treedef" in (a.tag, b.tag):
                    return a.t == b.t
                return None

            eng.method_models["__eq__"] = eq_hook

            # ---- the leaf loop, cut by its invariant
            def leaf_loop_handler(e, node, s0):
                outs = []
                if s0.ghost["label"] is not None:
                    e.oblige(s0, "C16:label-is-None-before-the-first-leaf", z3.BoolVal(False))
                e.oblige(s0, "C12:flatten-mode-is-off-when-leaves-are-checked", z3.BoolVal(s0.ghost["flatten"] is False))
                if not (isinstance(node.target, ast.Tuple) and len(node.target.elts) == 2):
                    raise Unsupported("leaf loop target")
                iv, lv = node.target.elts[0].id, node.target.elts[1].id
                # the loop runs over enumerate(<the list tree_flatten returned>): every leaf, in flatten order, under its own position
                over = None
                if isinstance(node.iter, ast.Call) and getattr(node.iter.func, "id", "") == "enumerate" and len(node.iter.args) == 1 and not node.iter.keywords:
                    rs = e.ev(node.iter.args[0], s0)
                    over = rs[0][1] if len(rs) == 1 else None
                e.oblige(s0, "C08:the-leaf-loop-enumerates-exactly-the-list-of-leaves-that-tree_flatten-returned(every-leaf,-flatten-order,-positions-0..n-1)", z3.BoolVal(over is the_leaves))
                s1 = s0.clone()
                s1.pc += [0 <= k, k < nleaves, AllAcc(k), AllAcc(k + 1) == z3.And(AllAcc(k), Acc(k)), AllAcc(0)]
                if leaf_any:
                    s1.pc.append(Acc(k))  # spec: Any matches every leaf
                s1.env[iv] = Z("int", k)
                s1.env[lv] = Opaque("leaf_k")
                s1.path.append("leaf-loop:iter")
                s1.ghost["in_leaf_loop"] = True
                n_before = len(s1.log)
                for s2, o2 in e.run(node.body, s1):
                    calls = [x for x in s2.log[n_before:] if isinstance(x, dict) and x.get("callee") == "accepts_leaftype"]
                    if leaf_any:
                        e.oblige(s2, "C08:Any-leaftype-accepts-every-leaf-without-calling-a-checker", z3.BoolVal(not calls and o2.kind in ("normal", "continue")))
                    else:
                        e.oblige(s2, "C08:each-leaf-is-checked-exactly-once-with-the-full-check", z3.BoolVal(len(calls) == 1 and calls[0]["flatten"] is False and isinstance(calls[0]["arg"], Opaque) and calls[0]["arg"].tag == "leaf_k"))
                        if calls:
                            lab = calls[0]["label"]
                            if structure_kind == "str":
                                e.oblige(s2, "C16:while-leaf-i-is-checked-the-label-is-Lbl(i,structure)", (lab == Lbl(k, struct_name)) if lab is not None else z3.BoolVal(False))
                            else:
                                e.oblige(s2, "C16:no-label-without-a-structure-name", z3.BoolVal(lab is None))
                            # tie the checker's outcome to the spec predicate Acc(k)
                            r = calls[0]["result"]
                            known = s2.ghost.get("exc_classes", {})
                            if r == "ok":
                                s2 = s2.fork(Acc(k))
                            elif isinstance(r, Exc) and known.get(r.id, r.classes()) <= {"OtherTypeError", "TypeCheckError", "TypeError"}:
                                s2 = s2.fork(z3.Not(Acc(k)))
                    if o2.kind in ("normal", "continue"):
                        e.oblige(s2, "C16:label-is-cleared-after-each-leaf", z3.BoolVal(s2.ghost["label"] is None))
                        e.oblige(s2, "C08:leaf-loop-continues-only-after-a-match", AllAcc(k + 1))
                    elif o2.kind == "return":
                        # leaves the function from inside the loop: only with False, at the first non-matching leaf
                        ok = isinstance(o2.val, Z) and o2.val.kind == "bool"
                        e.oblige(s2, "C08:leaf-loop-returns-False-exactly-at-the-first-non-matching-leaf", z3.And(z3.Not(o2.val.t), z3.Not(AllAcc(k + 1))) if ok else z3.BoolVal(False))
                        s3 = s2.fork(z3.Not(AllAcc(nleaves)), "leaf-loop:reject")
                        outs.append((s3, o2))
                    elif o2.kind == "break":
                        # leaves the loop early (skipping any `else`): only at the first non-matching leaf; what is returned afterwards is judged at the exit
                        e.oblige(s2, "C08:leaf-loop-returns-False-exactly-at-the-first-non-matching-leaf", z3.Not(AllAcc(k + 1)))
                        s3 = s2.fork(z3.Not(AllAcc(nleaves)), "leaf-loop:reject")
                        outs.append((s3, NORMAL))
                    else:
                        outs.append((s2, o2))
                s4 = s0.clone()
                s4.pc += [AllAcc(nleaves)]
                s4.path.append("leaf-loop:all-matched")
                if node.orelse:
                    outs.extend(e.run(node.orelse, s4))
                else:
                    outs.append((s4, NORMAL))
                return outs

            # ---- the pieces loop (composite structures)
            def piece_loop_handler(e, node, s0):
                outs = []
                for s1, it in e.ev(node.iter, s0):
                    if is_raised(it):
                        outs.append((s1, Outcome("raise", it.exc)))
                        continue
                    if not (isinstance(it, Z) and it.kind == "seq:str"):
                        raise Unsupported("pieces loop does not iterate over a list of names")
                    pcs = it.t
                    n = z3.Length(pcs)
                    s1.ghost["pieces"] = pcs
                    acc_var = [v.id for v in ast.walk(node) if isinstance(v, ast.Name) and isinstance(v.ctx, ast.Store) and v.id != node.target.id]
                    acc = s1.env.get("named_pytree")
                    if acc is None:
                        raise Unsupported("pieces loop: accumulator named_pytree not initialised")
                    e.oblige(s1, "C09:composition-starts-from-a-single-leaf", z3.BoolVal(isinstance(acc, Z) and acc.kind == "int" and z3.is_int_value(z3.simplify(acc.t)) and z3.simplify(acc.t).as_long() == 0))
                    cur = s1.get(top[2]) if s1.env.get("pytree_memo") is top[2] else s1.get(s1.env["pytree_memo"])
                    unfold = [Comp(k + 1) == Subst(Comp(k), Unflat(cur.m[pcs[k]])), AllIn(k + 1) == z3.And(AllIn(k), cur.d[pcs[k]]), Comp(0) == e.as_u(s1, acc), AllIn(0)]
                    s2 = s1.clone()
                    s2.pc += [0 <= k, k < n, AllIn(k)] + unfold
                    s2.env[node.target.id] = Z("str", pcs[k])
                    s2.env["named_pytree"] = tree(Comp(k))
                    s2.path.append("pieces-loop:iter")
                    for s3, o3 in e.run(node.body, s2):
                        if o3.kind in ("normal", "continue"):
                            v = s3.env.get("named_pytree")
                            e.oblige(s3, "C09:named-tree-is-the-in-order-composition-of-the-bound-pieces", z3.And(cur.d[pcs[k]], e.as_u(s3, v) == Comp(k + 1)))
                        elif o3.kind == "raise":
                            e.oblige(s3, "C09:AnnotationError-exactly-when-a-piece-is-unbound", z3.And(z3.BoolVal(o3.val.classes() == {"AnnotationError"}), z3.Not(cur.d[pcs[k]])))
                            outs.append((s3, o3))
                        else:
                            e.oblige(s3, f"C09:pieces-loop-has-no-other-exit[{o3.kind}]", z3.BoolVal(False))
                    s4 = s1.clone()
                    s4.pc += [AllIn(n)] + unfold[2:]
                    s4.env["named_pytree"] = tree(Comp(n))
                    s4.ghost["comp_n"] = Comp(n)
                    s4.path.append("pieces-loop:done")
                    outs.append((s4, NORMAL))
                return outs

            eng.loop_specs[id(leaf_loop)] = leaf_loop_handler
            eng.loop_specs[id(piece_loop)] = piece_loop_handler
            eng.method_models["split"] = split_model

            def on_store(e, s, ref, key, val):
                # a binding is written: it must land in the structure memo of the CURRENT context
                cur = s.ghost["top"][2] if s.ghost.get("top") else None
                e.oblige(s, "C09:structure-is-bound-in-the-current-context" + ("-even-after-a-rolled-back-inner-check" if s.ghost.get("replaced") else ""),
                         z3.BoolVal(cur is not None and ref.h == cur.h))

            eng.method_models["__on_dict_store__"] = on_store

            the_leaftype = Opaque("leaftype")
            cls_attrs = {"leaftype": AnyT if leaf_any else the_leaftype, "structure": NONE if structure_kind == "none" else Z("str", struct_name)}
            cls = st.alloc(Obj("PyTree-annotation", cls_attrs, tag="cls"))
            p = [a.arg for a in ck.args.args]
            if len(p) != 3:
                raise Unsupported("_check signature")
            st.env = {p[0]: cls, p[1]: Opaque("obj"), p[2]: top[2]}
            # class invariant from __getitem__: the structure string has at least one piece
            st.pc = [z3.Length(pieces_all) >= 1] if structure_kind == "str" else []
            if not leaf_any:
                st.pc.append(the_leaftype.t != AnyT.t)
            st.path = [f"structure={structure_kind}", f"leaftype={'Any' if leaf_any else 'L'}"]
            isid = z3.Function("py_str_isidentifier", STR, BOOL)(struct_name)
            for s1, o in eng.run(ck.body, st):
                paths += 1
                # ---- C12 / C16: flags on every exit
                eng.oblige(s1, "C12:flatten-mode-is-off-on-every-exit", z3.BoolVal(s1.ghost["flatten"] is False), exit=z3.StringVal(o.kind))
                eng.oblige(s1, "C12:no-label-is-left-behind-on-any-exit", z3.BoolVal(s1.ghost["label"] is None), exit=z3.StringVal(o.kind))
                pi_written = s1.get(top[2]) is not pi0 and not s1.ghost.get("pi_havocked")
                if o.kind == "return":
                    ok = isinstance(o.val, Z) and o.val.kind == "bool"
                    if not ok:
                        eng.oblige(s1, "C08:_check-returns-a-bool", z3.BoolVal(False))
                        continue
                    eng.oblige(s1, "C08:tree-is-flattened-exactly-once", z3.BoolVal(s1.ghost.get("flat_calls", 0) == 1))
                    eng.oblige(s1, "C08:accepted-implies-every-leaf-matches", z3.Implies(o.val.t, AllAcc(nleaves)))
                    if structure_kind == "none":
                        eng.oblige(s1, "C08:without-a-structure-name-the-verdict-is-all-leaves-match", o.val.t == AllAcc(nleaves))
                elif o.kind == "raise":
                    ex = o.val
                    src_ok = ex.origin in ("accepts_leaftype", "tree_flatten", "set_treepath_memo") or (ex.origin == "explicit" and ex.classes() == {"AnnotationError"})
                    eng.oblige(s1, f"C08:_check-raises-only-what-user-code-raised-or-AnnotationError[{'/'.join(sorted(ex.classes()))} from {ex.origin}]", z3.BoolVal(src_ok))
                else:
                    eng.oblige(s1, "C08:_check-returns-a-bool", z3.BoolVal(False))
            collect(st.obl, "_MetaPyTree._check")

    # ---- C09: the structure section, as a region (statements between the flatten and the leaf loop), identifier and composite forms
    ck_struct = [s for s in ck.body if isinstance(s, ast.If) and ast.unparse(s.test).replace(" ", "") in ("cls.structureisnotNone", "notcls.structureisNone")]
    if len(ck_struct) != 1:
        raise Unsupported("_check: structure section not found")
    region = ck_struct[0]
    for form in ("identifier", "composite"):
        eng = Engine(mod)
        storage_models(eng)
        eng.globals["AnnotationError"] = Cls("AnnotationError")
        struct_name = z3.String("structure_name")
        the_structure = z3.Const("flattened_structure", U)
        k = z3.Int("k")
        Comp = z3.Function("ComposeFold", INT, U)
        AllIn = z3.Function("AllPiecesBound", INT, BOOL)
        st = State()
        top = frame_refs(st)
        pi0 = st.get(top[2])
        st.ghost.update(top=list(top), flatten=False, label=None, replaced=False)
        pieces_all = z3.Const("structure_pieces", z3.SeqSort(STR))
        isid = z3.Function("py_str_isidentifier", STR, BOOL)(struct_name)

        def m_tree_unflatten(e, s, args, kwargs, node):
            sd = args[0]
            return [(s.fork(StructOf(Unflat(e.as_u(s, sd))) == e.as_u(s, sd)), tree(Unflat(e.as_u(s, sd))))]

        def m_tree_map(e, s, args, kwargs, node):
            if len(args) == 2:
                f, t = args
                return [(s1, r if is_raised(r) else tree(Subst(e.as_u(s1, t), e.as_u(s1, r)))) for s1, r in call_value(e, s, f, [Opaque("leaf")], {}, node)]
            f, a, b = args
            ok = PrefixOK(StructOf(e.as_u(s, a)), StructOf(e.as_u(s, b)))
            s_ok, s_bad = s.fork(ok, "tree_map:ok"), s.fork(z3.Not(ok), "tree_map:ValueError")
            s_ok.ghost["prefix_args"] = s_bad.ghost["prefix_args"] = (StructOf(e.as_u(s, a)), StructOf(e.as_u(s, b)))
            return [(s_ok, Opaque("mapped")), (s_bad, Raised(Exc("ValueError", origin="tree_map")))]

        def m_all(e, s, g, node):
            return m_any(e, s, g, node, quantifier="all")

        def m_any(e, s, g, node, quantifier="any"):
            # any(not has_structure(x) for x in <leaves of the tree handed to tree_leaves(.., is_leaf=has_structure)>): the test is about
            # the structure of THAT tree -- it must be the dummy tree rebuilt from the structure this check flattened to
            ns = s.env.get("named_structure")
            s1 = s.clone()
            st_tree = s.ghost.get("suffix_tree")
            it_ok = False
            gn = getattr(g, "node", None)
            if isinstance(gn, ast.GeneratorExp) and len(gn.generators) == 1 and isinstance(gn.generators[0].iter, ast.Name):
                itv = (g.closure or {}).get(gn.generators[0].iter.id, s.env.get(gn.generators[0].iter.id))
                it_ok = isinstance(itv, Opaque) and itv.tag == "dummy_leaves"
            over = StructOf(st_tree) if (st_tree is not None and it_ok) else z3.FreshConst(U, "structure_of_whatever_is_iterated")
            s1.ghost["suffix_args"] = (e.as_u(s, ns), over) if ns is not None else None
            bad = SuffixBad(e.as_u(s, ns) if ns is not None else Leaf0, over)  # "some leaf of that tree lacks the named structure"
            negated_elt = isinstance(gn, ast.GeneratorExp) and isinstance(gn.elt, ast.UnaryOp) and isinstance(gn.elt.op, ast.Not)
            if quantifier == "any" and negated_elt:
                val = bad  # any(not has_structure(x) ...)
            elif quantifier == "all" and not negated_elt:
                val = z3.Not(bad)  # all(has_structure(x) ...)
            else:
                val = z3.FreshConst(BOOL, "some_other_question_about_the_leaves")
            return [(s1, Z("bool", val))]

        def m_tree_leaves2(e, s, a, kw, n):
            s1 = s.clone()
            s1.ghost["suffix_tree"] = e.as_u(s, a[0]) if a else None
            return [(s1, Opaque("dummy_leaves"))]

        eng.globals["jtu"] = Opaque("global:jtu", z3.Const("global_jtu", U))
        eng.globals.update({"jtu.tree_unflatten": Fn("tree_unflatten", model=m_tree_unflatten), "jtu.tree_map": Fn("tree_map", model=m_tree_map),
                            "jtu.tree_structure": Fn("tree_structure", model=lambda e, s, a, kw, n: [(s, treedef(StructOf(e.as_u(s, a[0]))))]),
                            "jtu.tree_leaves": Fn("tree_leaves", model=m_tree_leaves2)})
        eng.method_models["any()"] = m_any
        eng.method_models["all()"] = m_all
        eng.attr_models["num_leaves"] = lambda e, s, recv, node: [(s, Z("int", NumLeaves(e.as_u(s, recv))))]
        eng.globals["len"] = Fn("len", model=lambda e, s, a, kw, n: [(s, Z("int", z3.Int("n_leaves")))] if a and isinstance(a[0], Opaque) else __import__("pyvc.builtins_model", fromlist=["b_len"]).b_len(e, s, a, kw, n))
        eng.method_models["__eq__"] = lambda e, s, a, b: (a.t == b.t) if isinstance(a, Z) and isinstance(b, Z) and a.kind == b.kind == "u" and "treedef" in (a.tag, b.tag) else None

        piece_loops2 = [x for x in ast.walk(region) if isinstance(x, ast.For)]

        def piece_loop_handler2(e, node, s0):
            outs = []
            for s1, it in e.ev(node.iter, s0):
                pcs = it.t
                n = z3.Length(pcs)
                s1.ghost["pieces"] = pcs
                acc = s1.env.get("named_pytree")
                cur = s1.get(s1.env["pytree_memo"])
                unfold = [Comp(k + 1) == Subst(Comp(k), Unflat(cur.m[pcs[k]])), AllIn(k + 1) == z3.And(AllIn(k), cur.d[pcs[k]]), Comp(0) == e.as_u(s1, acc), AllIn(0)]
                s2 = s1.clone()
                s2.pc += [0 <= k, k < n, AllIn(k)] + unfold
                s2.env[node.target.id] = Z("str", pcs[k])
                s2.env["named_pytree"] = tree(Comp(k))
                for s3, o3 in e.run(node.body, s2):
                    if o3.kind == "raise":
                        outs.append((s3, o3))
                s4 = s1.clone()
                s4.pc += [AllIn(n)] + unfold[2:]
                s4.env["named_pytree"] = tree(Comp(n))
                s4.ghost["comp_n"] = Comp(n)
                outs.append((s4, NORMAL))
            return outs

        for lp in piece_loops2:
            eng.loop_specs[id(lp)] = piece_loop_handler2
        eng.method_models["split"] = split_model
        cls = st.alloc(Obj("PyTree-annotation", {"structure": Z("str", struct_name)}, tag="cls"))
        st.env = {"cls": cls, "pytree_memo": top[2], "structure": treedef(the_structure), "leaves": Opaque("leaves")}
        # class invariant (validated at __getitem__): non-empty; an identifier has exactly itself as pieces
        st.pc = [z3.Length(pieces_all) >= 1, isid if form == "identifier" else z3.Not(isid)]
        first, last = pieces_all[0], pieces_all[z3.Length(pieces_all) - 1]
        dots = z3.StringVal("...")
        for s1, o in eng.run([region], st):
            paths += 1
            pi1 = s1.get(top[2])
            if form == "identifier":
                bound = pi0.d[struct_name]
                if o.kind == "return":
                    eng.oblige(s1, "C09:identifier:rejects-exactly-a-structure-different-from-the-bound-one", z3.And(bound, pi0.m[struct_name] != the_structure, z3.Not(o.val.t) if isinstance(o.val, Z) else z3.BoolVal(False)))
                    eng.oblige(s1, "C09:identifier:a-rejecting-check-does-not-rebind", z3.And(pi1.m == pi0.m, pi1.d == pi0.d))
                elif o.kind == "normal":
                    eng.oblige(s1, "C09:identifier:first-use-binds-later-uses-compare", z3.If(bound, z3.And(pi0.m[struct_name] == the_structure, pi1.m == pi0.m, pi1.d == pi0.d),
                                                                                              z3.And(pi1.m == z3.Store(pi0.m, struct_name, the_structure), pi1.d == z3.Store(pi0.d, struct_name, True))))
                else:
                    eng.oblige(s1, f"C09:identifier:no-exception[{o.kind}]", z3.BoolVal(False))
            else:
                pcs = s1.ghost.get("pieces")
                is_suffix = first == dots
                is_prefix = z3.And(z3.Not(is_suffix), last == dots)
                eng.oblige(s1, "C09:composite:never-binds", z3.And(pi1.m == pi0.m, pi1.d == pi0.d))
                if pcs is not None:
                    want = z3.If(is_suffix, z3.Extract(pieces_all, 1, z3.Length(pieces_all) - 1), z3.If(is_prefix, z3.Extract(pieces_all, 0, z3.Length(pieces_all) - 1), pieces_all))
                    eng.oblige(s1, "C09:composite:pieces-are-the-names-without-the-leading-or-trailing-ellipsis", pcs == want)
                if o.kind == "raise":
                    eng.oblige(s1, "C09:composite:only-AnnotationError-is-raised", z3.BoolVal(o.val.classes() == {"AnnotationError"}))
                    continue
                comp = s1.ghost.get("comp_n")
                if comp is None:
                    eng.oblige(s1, "C09:composite:named-structure-is-built", z3.BoolVal(False))
                    continue
                named = StructOf(comp)
                pa, sa = s1.ghost.get("prefix_args"), s1.ghost.get("suffix_args")
                rejected = o.kind == "return"
                if rejected:
                    eng.oblige(s1, "C09:composite:region-returns-only-False", z3.Not(o.val.t) if isinstance(o.val, Z) and o.val.kind == "bool" else z3.BoolVal(False))
                verdict_rej = z3.BoolVal(rejected)
                spec_rej = z3.If(is_prefix, z3.Not(PrefixOK(named, the_structure)), z3.If(is_suffix, SuffixBad(named, the_structure), the_structure != named))
                eng.oblige(s1, "C09:composite:rejects-exactly-when-equality/prefix/suffix-relation-fails", verdict_rej == spec_rej)
        collect(st.obl, "_MetaPyTree._check (structure section)")

    obligations.append({"clause": "canary:pytree-paths-exist", "kind": "canary", "pc": [], "goal": z3.BoolVal(paths == 0), "path": [], "meta": {}})
    return {"unit": NAME, "functions": functions, "obligations": obligations, "paths": paths, "stats": {},
            "assumptions": [
                "jax.tree_util over an abstract tree algebra (T5): tree_unflatten(s, zeros) has structure s; tree_map(const t, s) = Subst; tree_map(f, a, b) raises ValueError iff a is not a prefix of b; PyTreeDef == is structural; is_leaf exceptions propagate; tree_flatten may call user flatteners (bounded validators b08/b09)",
                "the vendored typeguard `typechecked(def(x: L))(leaf)` raises TypeError iff leaf does not match L, with the isinstance side effects of L's annotations (T4/T5)",
                "user code run during a check preserves the flatten flag and the '?' label (T4) -- violated by nested structure-less PyTree annotations, see the C16 known finding",
                "the suffix test is kept abstract (SuffixBad); its meaning is validated only by b09",
                "the is_leaf callback is modelled by one representative invocation (all invocations happen in the same flag/label state)",
            ]}
