"""Unit: _MetaPyTree.__getitem__ -- build-time validation of structure strings (C09), regions of the real function.

C09: "a structure string that is not a whitespace-separated sequence of identifiers, optionally preceded or followed by '...',
is rejected with ValueError when the annotation is built."  Regions (selected from the AST by role) and what is proved:

  the 2-tuple branch builds class X with  leaftype = item[0]  and  structure = item[1].strip() ; pieces = X.structure.split()
  `if len(pieces) == 0`                  raises ValueError exactly for the empty sequence
  the loop over enumerate(pieces), cut at an arbitrary index k (all lengths n, all piece texts):
        the body raises ValueError  <=>  not ( piece.isidentifier()  or  (piece == "..." and (k == 0 or k == n - 1)) ),
        raises nothing else, and otherwise goes on to the next piece without writing anything
  any other tuple length raises ValueError; a non-tuple item gives leaftype = item, structure = None
Left ambiguous by the statement and therefore NOT demanded: '...' alone and dots at BOTH ends (the loop admits them).
The naming of the class (wl.pformat) is outside the property.
"""
from __future__ import annotations

import ast

import z3

from ..engine import Engine, Raised, is_raised
from ..source import Module
from ..values import BOOL, INT, NONE, NORMAL, STR, U, Exc, Fn, Obj, Opaque, Outcome, Ref, State, Tup, Unsupported, Z

NAME = "pytree_getitem"
REL = "jaxtyping/_pytree_type.py"
SEQS = z3.SeqSort(STR)


def build(repo=None):
    mod = Module(REL, repo)
    fn = mod.func("_MetaPyTree.__getitem__")
    obligations = []
    paths = 0

    def ob(clause, ok, st=None, **meta):
        obligations.append({"clause": clause, "kind": "vc", "pc": list(st.pc) if st is not None else [], "goal": ok if isinstance(ok, z3.ExprRef) else z3.BoolVal(bool(ok)),
                            "path": list(st.path) if st is not None else [], "meta": {k: (v if isinstance(v, z3.ExprRef) else z3.StringVal(str(v))) for k, v in meta.items()}, "serves": ["C09"], "function": "__getitem__"})

    item = fn.args.args[1].arg
    # ---- structure of the dispatch (roles): isinstance(item, tuple) -> len(item) == 2 -> class X ... else ValueError ; else class X
    top_ifs = [s for s in fn.body if isinstance(s, ast.If) and ast.unparse(s.test).replace(" ", "") == f"isinstance({item},tuple)"]
    if len(top_ifs) != 1:
        raise Unsupported("__getitem__: expected `if isinstance(item, tuple)` at the top")
    tup_if = top_ifs[0]
    len_ifs = [s for s in tup_if.body if isinstance(s, ast.If) and ast.unparse(s.test).replace(" ", "") == f"len({item})==2"]
    if len(len_ifs) != 1 or len(tup_if.body) != 1:
        raise Unsupported("__getitem__: expected `if len(item) == 2` as the whole tuple branch")
    two = len_ifs[0]

    def class_attrs(body):
        cs = [s for s in body if isinstance(s, ast.ClassDef) and s.name == "X"]
        if len(cs) != 1:
            return None
        return {t.id: ast.unparse(a.value).replace(" ", "") for a in cs[0].body if isinstance(a, ast.Assign) for t in a.targets if isinstance(t, ast.Name)}, [ast.unparse(b) for b in cs[0].bases]

    ca2 = class_attrs(two.body)
    ob("C09:build:two-tuple-gives-leaftype=item[0]-and-structure=item[1].strip()", ca2 is not None and ca2[0].get("leaftype") == f"{item}[0]" and ca2[0].get("structure") == f"{item}[1].strip()" and ca2[1] == ["PyTree"])
    ca1 = class_attrs(tup_if.orelse)
    ob("C09:build:a-non-tuple-item-is-the-leaf-type-with-no-structure", ca1 is not None and ca1[0].get("leaftype") == item and ca1[0].get("structure") == "None" and ca1[1] == ["PyTree"])
    other_len = two.orelse
    ob("C09:build:any-other-tuple-length-is-ValueError", len(other_len) == 1 and isinstance(other_len[0], ast.Raise) and ast.unparse(other_len[0].exc).startswith("ValueError("))
    pieces_assign = [s for s in two.body if isinstance(s, ast.Assign) and len(s.targets) == 1 and isinstance(s.targets[0], ast.Name) and ast.unparse(s.value).replace(" ", "") == "X.structure.split()"]
    if len(pieces_assign) != 1:
        raise Unsupported("__getitem__: expected `pieces = X.structure.split()`")
    V_PIECES = pieces_assign[0].targets[0].id
    ob("C09:build:pieces-are-the-whitespace-separated-parts-of-the-stripped-structure", True)
    # ---- regions
    pieces = z3.Const("pieces", SEQS)
    n = z3.Length(pieces)
    k = z3.Int("k")
    isid = z3.Function("py_str_isidentifier", STR, BOOL)
    struct_t = z3.String("structure")

    def engine():
        e = Engine(mod)
        e.globals["X"] = Opaque("class:X", attrs={"structure": Z("str", struct_t)})
        return e

    empties = [s for s in two.body if isinstance(s, ast.If) and V_PIECES in ast.unparse(s.test) and "len(" in ast.unparse(s.test)]
    if len(empties) != 1:
        raise Unsupported("__getitem__: expected one emptiness test on the pieces")
    eng = engine()
    st = State()
    st.env = {V_PIECES: Z("seq:str", pieces)}
    for s1, o in eng.run([empties[0]], st):
        paths += 1
        if o.kind == "raise":
            eng.oblige(s1, "C09:build:ValueError-for-the-empty-structure-string(and-only-ValueError)", z3.And(n == 0, z3.BoolVal(o.val.classes() == frozenset(["ValueError"]))))
        else:
            eng.oblige(s1, "C09:build:a-non-empty-sequence-of-pieces-passes-the-emptiness-test", z3.And(n > 0, z3.BoolVal(o.kind == "normal")))
    for x in st.obl:
        x = dict(x); x.setdefault("kind", "vc"); x["serves"] = ["C09"]; x["function"] = "__getitem__"; obligations.append(x)
    loops = [s for s in two.body if isinstance(s, ast.For)]
    if len(loops) != 1 or ast.unparse(loops[0].iter).replace(" ", "") != f"enumerate({V_PIECES})" or not (isinstance(loops[0].target, ast.Tuple) and len(loops[0].target.elts) == 2 and all(isinstance(x, ast.Name) for x in loops[0].target.elts)):
        raise Unsupported("__getitem__: expected one loop `for i, piece in enumerate(pieces)`")
    lp = loops[0]
    ob("C09:build:the-validation-loop-has-no-else-and-visits-every-piece-in-order", not lp.orelse)
    eng = engine()
    st = State()
    st.pc += [0 <= k, k < n]
    st.env = {V_PIECES: Z("seq:str", pieces), lp.target.elts[0].id: Z("int", k), lp.target.elts[1].id: Z("str", pieces[k])}
    env0 = dict(st.env)
    legal = z3.Or(isid(pieces[k]), z3.And(pieces[k] == z3.StringVal("..."), z3.Or(k == 0, k == n - 1)))
    for s1, o in eng.run(lp.body, st):
        paths += 1
        if o.kind == "raise":
            eng.oblige(s1, "C09:build:a-piece-is-rejected-only-if-it-is-neither-an-identifier-nor-a-leading/trailing-'...'", z3.Not(legal), k=k)
            eng.oblige(s1, "C09:build:an-illegal-piece-raises-ValueError-and-nothing-else", z3.BoolVal(o.val.classes() == frozenset(["ValueError"])))
        elif o.kind in ("normal", "continue"):
            eng.oblige(s1, "C09:build:a-piece-is-accepted-only-if-it-is-an-identifier-or-a-leading/trailing-'...'", legal, k=k)
            eng.oblige(s1, "C09:build:accepting-a-piece-changes-nothing", z3.BoolVal(all(s1.env.get(a) is b for a, b in env0.items())))
        else:
            eng.oblige(s1, f"C09:build:the-validation-loop-only-continues-or-raises[{o.kind}]", z3.BoolVal(False))
    xs = [z3.String(f"piece{j}") for j in range(3)]
    for x in st.obl:
        x = dict(x); x.setdefault("kind", "vc"); x["serves"] = ["C09"]; x["function"] = "__getitem__"
        x["hints"] = [[pieces == (z3.Unit(xs[0]) if L == 1 else z3.Concat(*[z3.Unit(y) for y in xs[:L]])), k == kk] for L in (1, 2, 3) for kk in range(L)]
        obligations.append(x)
    obligations.append({"clause": "canary:pytree-getitem-loop-assumptions-satisfiable", "kind": "canary", "pc": [0 <= k, k < n, n == 3, k == 1, pieces[k] == z3.StringVal("..."), z3.Not(isid(pieces[k]))], "goal": z3.BoolVal(False), "path": [], "meta": {}})
    return {"unit": NAME, "functions": [{"qualname": "jaxtyping._pytree_type._MetaPyTree.__getitem__ (regions: class bodies, emptiness test, validation loop)", "sha256_16": mod.sha(fn), "lines": [fn.lineno, fn.end_lineno]}],
            "obligations": obligations, "paths": paths, "stats": {},
            "assumptions": [
                "str.split() yields the whitespace-separated pieces; str.isidentifier is uninterpreted",
                "the class statements bind X.leaftype / X.structure to the written expressions (checked on the AST); the class name computed with wl.pformat is outside the property",
                "'...' alone and dots at both ends are admitted by the loop; the statement leaves them open (not demanded either way)",
            ]}
