"""Bounded stand-in for the assumed contract "the vendored jaxtyping._typeguard.typechecked(def(x: L))(v) raises TypeError iff v does not
match L" (used by PyTree leaf checks, C08): differential against the installed typeguard 2.13.3, the version the vendored copy derives from,
over an enumerated corpus of (type, value) pairs incl. NamedTuple classes with annotated fields, nested generics and array annotations."""
import collections, typing, itertools
from typing import Any, Callable, Dict, List, NamedTuple, Optional, Sequence, Tuple, Union
import numpy as np
from _common import setup, Tally, emit
a = setup(__doc__)
import typeguard
from jaxtyping import Float, Int, jaxtyped
from jaxtyping._typeguard import typechecked as vendored
T = Tally()
A = np.ndarray
class Rec(NamedTuple):
    a: int
    b: str
class Pair(NamedTuple):
    x: Float[A, "n"]
    y: Float[A, "n"]
class Plain: pass
class Sub(Plain): pass
f32 = lambda *s: np.zeros(s, np.float32)
TYPES = {
    "int": int, "str": str, "float": float, "bool": bool, "Any": Any, "None": type(None), "Plain": Plain, "Rec": Rec, "Pair": Pair,
    "tuple[int,int]": tuple[int, int], "Tuple[int,...]": Tuple[int, ...], "List[int]": List[int], "Dict[str,int]": Dict[str, int], "Sequence[str]": Sequence[str],
    "Optional[int]": Optional[int], "Union[int,str]": Union[int, str], "Union[Rec,int]": Union[Rec, int], "List[Rec]": List[Rec], "Tuple[Rec,Plain]": Tuple[Rec, Plain],
    "Float[A,'n']": Float[A, "n"], "Int[A,'n m']": Int[A, "n m"], "Union[Float[A,'n'],int]": Union[Float[A, "n"], int], "tuple[Float[A,'n'],Float[A,'n']]": tuple[Float[A, "n"], Float[A, "n"]],
    "Callable": Callable, "type": type,
}
VALUES = {
    "1": 1, "True": True, "'s'": "s", "1.5": 1.5, "None": None, "Plain()": Plain(), "Sub()": Sub(), "Rec(1,'x')": Rec(1, "x"), "Rec('oops',3)": Rec("oops", 3), "Rec(1,2)": Rec(1, 2),
    "Pair(f3,f3)": Pair(f32(3), f32(3)), "Pair(f3,f4)": Pair(f32(3), f32(4)), "Pair(f3,'s')": Pair(f32(3), "s"), "(1,2)": (1, 2), "(1,'a')": (1, "a"), "(1,2,3)": (1, 2, 3), "[1,2]": [1, 2], "[1,'a']": [1, "a"],
    "{'a':1}": {"a": 1}, "{'a':'b'}": {"a": "b"}, "{1:1}": {1: 1}, "['a','b']": ["a", "b"], "f32(3)": f32(3), "f32(2,2)": f32(2, 2), "i32(2,2)": np.zeros((2, 2), np.int32), "(f3,f3)": (f32(3), f32(3)), "(f3,f4)": (f32(3), f32(4)),
    "[Rec(1,'x')]": [Rec(1, "x")], "[Rec(1,2)]": [Rec(1, 2)], "(Rec(1,'x'),Plain())": (Rec(1, "x"), Plain()), "(Rec(1,2),Plain())": (Rec(1, 2), Plain()), "len": len, "int-class": int,
}
def verdict(deco, ann, v):
    ns = {"ann": ann}
    exec("def f(x: ann): pass", ns)
    g = deco(ns["f"])
    try:
        with jaxtyped("context"):
            g(v)
        return "ok"
    except TypeError:
        return "TypeError"
    except BaseException as e:
        return "raises " + type(e).__name__
for tn, t in TYPES.items():
    for vn, v in VALUES.items():
        want = verdict(typeguard.typechecked, t, v)
        got = verdict(vendored, t, v)
        T.case((tn, vn), nontrivial=True, sample={"type": tn, "value": vn, "verdict": got} if (tn, vn) in (("Rec", "Rec('oops',3)"), ("Pair", "Pair(f3,f4)")) else None)
        if got != want:
            T.fail(f"vendored-typeguard:{tn}:{vn}", "vendored-typechecked-agrees-with-typeguard-2.13.3", expected=want, actual=got,
                   snippet=f"from jaxtyping._typeguard import typechecked  # annotation {tn}, value {vn}: installed typeguard says {want}, vendored says {got}")
emit(T, bound=f"{len(TYPES)} annotations x {len(VALUES)} values, each checked in a fresh jaxtyped context; oracle = installed typeguard 2.13.3 (the upstream of the vendored copy)",
     rule="one case per (annotation, value) pair", exhaustive=True)
