SPEC = {
    "units": ["check_dims"],
    "lemmas": [],
    "bounded": [],
    "replayers": {"check_dims": "check_dims.py"},
    "level": "proof",
    "explanation": "",
}

MANIFEST_ENTRY = {
    "category": "proof",
    "text": "Every obligation generated from the current source of _check_dims / _check_shape / __instancecheck_str__ (loop invariant against the indexed fold of the axis-step spec written from the statement, slice arithmetic, variadic cases, type-safety of every attribute access) is discharged by z3 for all ranks, sizes and prior memo states; dependency behaviour (eval, numpy.broadcast_shapes, dtype naming) enters as assumed contracts validated by bounded stand-ins that are not counted as proved.",
    "level_note": "Trusted: PyVC's encoding of the Python subset (T1), z3/cvc5 (T2), CPython semantics (T3), eval() determinism, numpy.broadcast_shapes contract (bounded validator), induction meta-step (T6). See evidence.assumptions.",
    "technique": "contract-based deductive verification: VCs generated from the real source AST (sidecar contracts, loop invariants, callee-by-contract), discharged by z3 (cvc5 / z3-4.8 for unknowns); native replay of counter-models",
}
