"""C02 lemma layer (no code involved): the greedy left-to-right check (spec.c01.axis_step, the function the real
_check_dims is proved equal to) accepts exactly when ONE assignment alpha of sizes to axis names satisfies every axis
seen so far -- for single-axis specifiers (anonymous, fixed, named incl. '#' and '?', symbolic under the property's own
side condition) and, second block, for multi-axis ('*name' / '*#name') specifiers over the assumed order contract of
numpy.broadcast_shapes (validated exhaustively within a bound by b22).

Declarative side:   AxisSat(d, s, alpha):  '_' true | fixed n: s == n or (# and s == 1) | named x: s == alpha(key(x)) or (# and s == 1)
                    | symbolic e: s == EvalA(e, alpha) or (# and s == 1)
State meaning:      alpha extends memo  :=  forall k. memo has k  ==>  memo[k] == alpha(k)
Obligations (quantifier-free after Skolemising alpha as an uninterpreted function and the universally quantified key):
  soundness     step accepts with memo'  /\\  alpha extends memo'   ==>  AxisSat(d, s, alpha)  /\\  alpha extends memo
  completeness  alpha extends memo  /\\  AxisSat(d, s, alpha)       ==>  step accepts  /\\  alpha extends memo'
  monotone      step accepts ==> memo subset memo'          base: every alpha extends the empty memo
Order independence then needs no commutation proof: 'exists alpha satisfying a SET of axis events' does not mention an order;
by induction over the events (meta-step T6) greedy acceptance of any order  <=>  Sat of the set.
"""
from __future__ import annotations

import z3

from ..spec import c01
from ..units import arrays_common as AC
from ..source import Module
from ..values import BOOL, INT, STR


def build(repo=None):
    mod = Module("jaxtyping/_array_types.py", repo)
    dt = AC.dim_datatype(mod)
    ops = AC.Z3Ops(dt)
    d = z3.Const("d", dt.sort)
    s = z3.Int("s")
    m, dm = z3.Const("memo_m", AC.MEMO_M), z3.Const("memo_d", AC.MEMO_D)
    alpha = z3.Function("alpha", STR, INT)
    EvalA = z3.Function("EvalUnderAssignment", STR, INT)  # value of a symbolic expression under the total assignment alpha
    verdict, (m2, d2) = c01.axis_step(ops, d, s, (m, dm))
    key = c01.axis_key(ops, d)
    k = z3.String("k")  # Skolem key
    ext = lambda mm, dd, kk: z3.Implies(dd[kk], mm[kk] == alpha(kk))
    is_named, is_fixed, is_sym, is_anon = dt.is_cls(d, "_NamedDim"), dt.is_cls(d, "_FixedDim"), dt.is_cls(d, "_SymbolicDim"), dt.is_cls(d, "_anonymous_dim")
    bc = z3.If(is_named, dt.field(d, "_NamedDim", "broadcastable"), z3.If(is_fixed, dt.field(d, "_FixedDim", "broadcastable"), dt.field(d, "_SymbolicDim", "broadcastable")))
    # the symbolic axis under the property's side condition: its expression evaluates (tags 0) and mentions only bound names, so
    # its value over the memo equals its value under every alpha extending the memo
    t1, src = ops.eval_fstring(dt.field(d, "_SymbolicDim", "elem"))
    t2, val = ops.eval_expr(src, (m, dm))
    sym_side = z3.Implies(is_sym, z3.And(t1 == 0, t2 == 0, val == EvalA(src)))
    label_ok = z3.Implies(z3.And(is_named, dt.field(d, "_NamedDim", "treepath")), AC.HasLabel)  # '?' axes are used inside a structured PyTree (C16)
    single = z3.Or(is_named, is_fixed, is_sym, is_anon)
    sat = z3.Or(is_anon, z3.And(bc, s == 1),
                z3.And(is_fixed, dt.field(d, "_FixedDim", "size") == s),
                z3.And(is_named, alpha(key) == s),
                z3.And(is_sym, EvalA(src) == s))
    pre = [single, sym_side, label_ok]
    obl = []

    def ob(clause, pc, goal):
        obl.append({"clause": clause, "kind": "vc", "pc": pre + pc, "goal": goal, "path": [], "meta": {"d": d, "s": s}, "serves": ["C02"]})

    # soundness: hypotheses instantiated at the Skolem key k and at the axis key
    ob("C02:lemma:greedy-step-sound(accept => every assignment extending the new memo satisfies the axis and extends the old memo)",
       [verdict == 0, ext(m2, d2, k), ext(m2, d2, key)], z3.And(sat, ext(m, dm, k)))
    # completeness
    ob("C02:lemma:greedy-step-complete(an assignment extending the memo that satisfies the axis => accept, and it extends the new memo)",
       [ext(m, dm, k), ext(m, dm, key), sat], z3.And(verdict == 0, ext(m2, d2, k)))
    ob("C02:lemma:accepting-step-only-adds-bindings(monotone)", [verdict == 0, dm[k]], z3.And(d2[k], m2[k] == m[k]))
    v3, (m3, d3) = c01.axis_step(ops, d, s, (m2, d2))
    obl.append({"clause": "C04:lemma:accepting-step-is-idempotent(repeating a passed check passes again and changes no binding)", "kind": "vc", "pc": pre + [verdict == 0],
                "goal": z3.And(v3 == 0, m3 == m2, d3 == d2), "path": [], "meta": {"d": d, "s": s}, "serves": ["C02", "C04"]})
    ob("C02:lemma:every-assignment-extends-the-empty-memo(base)", [dm == z3.K(STR, z3.BoolVal(False))], ext(m, dm, k))
    # a non-accepting verdict under the side conditions is a plain reject (no AnnotationError / propagated exception)
    ob("C02:lemma:under-the-side-conditions-the-step-either-accepts-or-rejects", [], z3.Or(verdict == 0, verdict == 1))
    obl.append({"clause": "canary:c02-lemma-preconditions-satisfiable", "kind": "canary", "pc": pre + [verdict == 0, is_named], "goal": z3.BoolVal(False), "path": [], "meta": {}})
    obl.extend(_variadic_block())
    return {"obligations": obl, "assumptions": [
        "lemma layer, multi-axis block: 'A broadcasts to S' := BcOk(A,S) and BcVal(A,S) == S is a partial order on shapes and BcVal(M,P) is the least upper bound of M and P "
        "whenever one exists (BcOk(M,P) fails otherwise) -- the order contract of numpy.broadcast_shapes, assumed (T5), instantiated on the terms {M, P, BcVal(M,P), alpha}; "
        "validated exhaustively for all shapes of rank <= 3 over sizes 0..3 by the bounded stand-in b22 (bounded, not proved)",
        "lemma layer: the value of a symbolic axis expression depends only on the names it mentions (EvalVal over the memo == value under any assignment extending it), the property's own side condition",
        "the induction over the sequence of axis events that lifts the step lemmas to whole calls is the meta-step T6; how a '*name' splits the shape between the single axes around it is "
        "proved in the check_shape unit (slice arithmetic), not here",
    ]}


def _variadic_block():
    """'*name' / '*#name' occurrences: spec.c01.variadic_step (the function the four variadic cases of the real _check_shape are proved
    equal to) against the declarative reading of the statement ("one assignment ... of shapes to '*names'"):
        VSat(b, M, A)      :=  M == A            if the occurrence is not '#'-marked
                               M broadcasts to A  if it is
        A extends (pb, P)  :=  P == A            if the stored entry is exact (pb false)
                               P broadcasts to A  if it is a lower bound collected from '#'-marked occurrences only (pb true)
    Only the entry at the occurrence's own key can change (frame proved in check_shape), so alpha is one Skolem shape A."""
    from ..units.check_shape import BcOk, BcVal, SEQI
    b, pb, has_prev = z3.Bools("v_b v_pb v_has_prev")
    M, P, A = z3.Const("v_M", SEQI), z3.Const("v_P", SEQI), z3.Const("v_alpha", SEQI)
    ops = _SeqOps()
    V = BcVal(M, P)
    accept, store, nb, nshape = c01.variadic_step(ops, b, M, has_prev, pb, P, BcOk(M, P), V)
    bt = lambda x, s: z3.And(BcOk(x, s), BcVal(x, s) == s)
    terms = [M, P, V, A]
    ax = []
    for x in terms:
        ax.append(bt(x, x))  # reflexive
    for x in terms:
        for y in terms:
            if x is y:
                continue
            ax.append(z3.And(BcOk(x, y) == BcOk(y, x), BcVal(x, y) == BcVal(y, x)))  # symmetric (as in the check_shape unit)
            ax.append(z3.Implies(z3.And(bt(x, y), bt(y, x)), x == y))  # antisymmetric
            for w in terms:
                ax.append(z3.Implies(z3.And(bt(x, y), bt(y, w)), bt(x, w)))  # transitive
    ax.append(z3.Implies(BcOk(M, P), z3.And(bt(M, V), bt(P, V))))  # the broadcast is an upper bound
    for u in (A, M, P):
        ax.append(z3.Implies(z3.And(bt(M, u), bt(P, u)), z3.And(BcOk(M, P), bt(V, u))))  # ... and the least one, when one exists
    sat = z3.If(b, bt(M, A), M == A)
    ext_old = z3.Implies(has_prev, z3.If(pb, bt(P, A), P == A))
    # the entry after an accepting step: replaced when `store`, otherwise the old one (which exists: store is true when there is none)
    new_pb, new_P = z3.If(store, nb, pb), z3.If(store, nshape, P)
    ext_new = z3.If(new_pb, bt(new_P, A), new_P == A)
    out = []

    def ob(clause, pc, goal, serves=("C02",)):
        out.append({"clause": clause, "kind": "vc", "pc": ax + pc, "goal": goal, "path": [], "meta": {"M": M, "P": P, "alpha": A, "b": b, "pb": pb, "has_prev": has_prev}, "serves": list(serves)})

    ob("C02:lemma:variadic-step-sound(accept => every shape assignment extending the new entry satisfies the occurrence and extends the old entry)",
       [accept, ext_new], z3.And(sat, ext_old))
    ob("C02:lemma:variadic-step-complete(a shape assignment extending the entry that satisfies the occurrence => accept, and it extends the new entry)",
       [ext_old, sat], z3.And(accept, ext_new))
    ob("C02:lemma:variadic-step-without-previous-entry-accepts-and-stores-the-occurrence", [z3.Not(has_prev)], z3.And(accept, store, nb == b, nshape == M))
    ob("C02:lemma:variadic-entry-only-grows(an exact entry is never replaced by a different shape; a lower bound only moves up)",
       [accept, has_prev], z3.If(pb, bt(P, new_P), z3.And(z3.Not(new_pb), new_P == P)))
    # idempotence: the same occurrence against the entry it left behind is accepted and leaves the same entry
    V2 = BcVal(M, new_P)
    ax2 = [bt(new_P, new_P), z3.And(BcOk(M, new_P) == BcOk(new_P, M), V2 == BcVal(new_P, M)),
           z3.Implies(z3.And(bt(M, new_P), bt(new_P, new_P)), z3.And(BcOk(M, new_P), bt(V2, new_P))),
           z3.Implies(BcOk(M, new_P), z3.And(bt(M, V2), bt(new_P, V2))),
           z3.Implies(z3.And(bt(V2, new_P), bt(new_P, V2)), V2 == new_P),
           z3.Implies(z3.And(bt(M, new_P), bt(new_P, M)), M == new_P)]
    a3, st3, nb3, ns3 = c01.variadic_step(ops, b, M, z3.BoolVal(True), new_pb, new_P, BcOk(M, new_P), V2)
    out.append({"clause": "C04:lemma:accepting-variadic-step-is-idempotent(repeating a passed '*name' check passes again and leaves the same entry)", "kind": "vc",
                "pc": ax + ax2 + [accept], "goal": z3.And(a3, z3.If(st3, nb3, new_pb) == new_pb, z3.If(st3, ns3, new_P) == new_P), "path": [],
                "meta": {"M": M, "P": P, "b": b, "pb": pb, "has_prev": has_prev}, "serves": ["C02", "C04"]})
    out.append({"clause": "canary:c02-variadic-lemma-axioms-satisfiable(both-flagged occurrence accepted against a different stored shape)", "kind": "canary",
                "pc": ax + [accept, has_prev, pb, b, M != P, V != M], "goal": z3.BoolVal(False), "path": [], "meta": {}})
    return out


class _SeqOps:
    """the boolean / sequence operations variadic_step needs, over z3 terms"""

    def and_(self, *xs):
        return z3.And(*xs)

    def or_(self, *xs):
        return z3.Or(*xs)

    def not_(self, x):
        return z3.Not(x)

    def ite(self, c, x, y):
        return z3.If(c, x, y)

    ite_seq = ite

    def seq_eq(self, x, y):
        return x == y
