"""Unit: jaxtyping._decorator._get_problem_arg -- which parameter a TypeCheckError blames (C13).

Statement (C13): the error "names a parameter that really does violate its annotation given the others".
Contract proved here, for every number of parameters n and every position k (both loops cut by invariants):

  outer loop, iteration k (keep_name = Name(k)); invariant: every earlier single-parameter check passed
    inner loop, iteration j (invariant: new_parameters[0..j) == Spec_k[0..j);  keep_annotation is the sentinel iff j <= k)
      exactly one Parameter is appended, with p.name / p.kind / p.default of parameter j, and with the annotation of
      parameter j iff j == k (names are the keys of a dict: pairwise distinct), otherwise WITHOUT annotation
    the checked function is _apply_typechecker(typechecker, _make_fn_with_signature(.., module, Signature(Spec_k), output=False))
    it is called exactly once with the call's own *args / **kwargs, in the caller's context (no jaxtyped frame)
    Exception e   => TypeCheckError naming exactly Name(k) (and its value arguments[Name(k)], its annotation), `from e`
    other BaseException => propagates untouched;   passes => next k  (invariant re-established)
  exhausted => TypeCheckError("") ;  the function never returns normally

so the blamed parameter is the FIRST one (declaration order) whose annotation alone, all other parameters unannotated,
rejects the call's arguments in the current context -- "really violates, given the others".
What the generated function / the type checker do with Spec_k is the assumed contract of make_fn (unit make_fn, b07) and of the
type checkers (b13).
"""
from __future__ import annotations

import ast

import z3

from ..calls import StarArgs
from ..engine import Engine, Raised, is_raised
from ..source import Module
from ..values import ANY_EXC, BOOL, INT, NONE, NORMAL, STR, U, Cls, Exc, Fn, ListObj, NoneV, Obj, Opaque, Outcome, Ref, State, Tup, Unsupported, Z, exc_isinstance, exc_representatives

NAME = "problem_arg"
REL = "jaxtyping/_decorator.py"


def build(repo=None):
    mod = Module(REL, repo)
    fn = mod.func("_get_problem_arg")
    obligations = []
    paths = 0
    n = z3.Int("n_params")
    k, j, i0 = z3.Int("k"), z3.Int("j"), z3.Int("i0")
    NameF = z3.Function("ParamName", INT, STR)
    KindF, DefaultF, AnnF = (z3.Function(f"Param{x}", INT, U) for x in ("Kind", "Default", "Annotation"))
    RemoveTyping = z3.Function("remove_typing", U, STR)
    PFormat = z3.Function("pformat", U, STR)
    ArgOf = z3.Function("arguments_getitem", STR, U)
    Fails = z3.Function("SingleCheckFails", INT, BOOL)  # ghost: the single-parameter check of position i rejects this call (defined by the check's outcome)

    loops = [x for x in ast.walk(fn) if isinstance(x, ast.For)]
    if len(loops) != 2 or loops[1] not in list(ast.walk(loops[0])):
        raise Unsupported("_get_problem_arg: expected one loop over the kept name with one nested loop over the parameters")
    outer, inner = loops
    # local names by role (not by spelling): the list rebuilt per kept name, the fresh sentinel, and the variable holding the kept annotation
    list_names = [t.id for b in outer.body if isinstance(b, ast.Assign) and isinstance(b.value, ast.List) and not b.value.elts for t in b.targets if isinstance(t, ast.Name)]
    obj_assign = [b for b in outer.body if isinstance(b, ast.Assign) and isinstance(b.value, ast.Call) and getattr(b.value.func, "id", "") == "object" and all(isinstance(t, ast.Name) for t in b.targets)]
    inner_stores = {t.id for x in ast.walk(inner) if isinstance(x, ast.Assign) for t in x.targets if isinstance(t, ast.Name)}
    if len(list_names) != 1 or len(obj_assign) != 1 or len(obj_assign[0].targets) != 2:
        raise Unsupported("_get_problem_arg: expected `<list> = []` and `<kept> = <sentinel> = object()` at the head of the outer loop body")
    two = [t.id for t in obj_assign[0].targets]
    kept_names = [x for x in two if x in inner_stores]
    if len(kept_names) != 1:
        raise Unsupported("_get_problem_arg: cannot tell the sentinel from the kept-annotation variable")
    V_LIST, V_KEEP = list_names[0], kept_names[0]
    V_SENT = [x for x in two if x != V_KEEP][0]
    eng = Engine(mod)
    eng.user_raises = exc_representatives(fn)
    st = State()
    st.ghost.update(made=[], applied=[], calls=[], sigs=[])
    params_obj = Opaque("param_signature.parameters")
    sig = st.alloc(Obj("Signature", {"parameters": params_obj}, tag="param_signature"))
    args_v, kwargs_v, arguments_v, module_v, tc_v = Opaque("args"), Opaque("kwargs"), Opaque("arguments"), Opaque("module"), Opaque("typechecker")
    pnames = [a.arg for a in fn.args.args]
    if len(pnames) != 6:
        raise Unsupported("_get_problem_arg: expected 6 parameters")
    st.env = dict(zip(pnames, [sig, args_v, kwargs_v, arguments_v, module_v, tc_v]))
    st.pc += [n >= 0]
    distinct = lambda a, b: z3.Implies(NameF(a) == NameF(b), a == b)  # keys of one dict

    def m_view(kind):
        def m(e, s, recv, args, kw, nd):
            if recv is params_obj and not args:
                return [(s, Opaque(f"{kind}-of-parameters"))]
            return None
        return m

    eng.method_models["keys"] = m_view("keys")
    eng.method_models["items"] = m_view("items")

    def m_parameter(e, s, args, kw, nd):
        s1 = s.clone()
        fields = {"name": args[0] if args else kw.get("name", NONE), "kind": args[1] if len(args) > 1 else kw.get("kind", NONE),
                  "default": kw.get("default", Opaque("Parameter.empty")), "annotation": kw.get("annotation", Opaque("Parameter.empty")), "n_pos": Z("int", z3.IntVal(len(args)))}
        return [(s1, s1.alloc(Obj("Parameter", fields, tag="made-parameter")))]

    def m_signature(e, s, args, kw, nd):
        s1 = s.clone()
        r = s1.alloc(Obj("Signature", {"list": args[0] if args else NONE, "extra": Tup(list(args[1:]) + list(kw.values()))}, tag="new_signature"))
        s1.ghost["sigs"] = s1.ghost["sigs"] + [r]
        return [(s1, r)]

    def m_make_fn(e, s, args, kw, nd):
        s1 = s.clone()
        r = Opaque("made-check-fn")
        s1.ghost["made"] = s1.ghost["made"] + [(tuple(args), dict(kw), r)]
        return [(s1, r)]

    def m_apply(e, s, args, kw, nd):
        s1 = s.clone()
        idx = len(s1.ghost["applied"])

        def m_checkfn(e2, s2, a2, kw2, nd2):
            ok, bad = s2.clone(), s2.clone()
            kk = s2.ghost.get("k_now")
            ok.ghost["calls"] = ok.ghost["calls"] + [(idx, tuple(a2), dict(kw2), "ok")]
            ex = Exc(frozenset(e2.user_raises), origin="check_single_arg")
            bad.ghost["calls"] = bad.ghost["calls"] + [(idx, tuple(a2), dict(kw2), ex)]
            if kk is not None:
                ok.pc.append(z3.Not(Fails(kk)))
                bad.ghost["raised_at"] = kk
            return [(ok, NONE), (bad, Raised(ex))]

        r = Fn(f"checked-fn#{idx}", model=m_checkfn)
        s1.ghost["applied"] = s1.ghost["applied"] + [(tuple(args), dict(kw), r)]
        return [(s1, r)]

    eng.globals.update({
        "inspect": Opaque("global:inspect"), "inspect.Parameter": Fn("inspect.Parameter", model=m_parameter), "inspect.Signature": Fn("inspect.Signature", model=m_signature),
        "_make_fn_with_signature": Fn("_make_fn_with_signature", model=m_make_fn), "_apply_typechecker": Fn("_apply_typechecker", model=m_apply),
        "_remove_typing": Fn("_remove_typing", model=lambda e, s, a, kw, nd: [(s, Z("str", RemoveTyping(e.as_u(s, a[0]))))]),
        "_pformat": Fn("_pformat", model=lambda e, s, a, kw, nd: [(s, Z("str", PFormat(e.as_u(s, a[0]))))]),
        "TypeCheckError": Cls("TypeCheckError"),
    })

    def idx_hook(e, s, v, args, kw, nd):
        return None

    orig_index = eng.index

    def index(st_, v, key, node=None):
        if v is arguments_v and isinstance(key, Z) and key.kind == "str":
            return [(st_, Opaque("arguments[keep_name]", ArgOf(key.t)))]
        return orig_index(st_, v, key, node)

    eng.index = index

    def param_obj(idx):
        return Opaque(f"parameter", attrs={"name": Z("str", NameF(idx)), "kind": Opaque("p.kind", KindF(idx)), "default": Opaque("p.default", DefaultF(idx)), "annotation": Opaque("p.annotation", AnnF(idx))})

    def inner_handler(e, node, s0):
        outs = []
        for s1, it in e.ev(node.iter, s0):
            if not (isinstance(it, Opaque) and it.tag == "items-of-parameters"):
                raise Unsupported("_get_problem_arg: the inner loop does not iterate over param_signature.parameters.items()")
            if not (isinstance(node.target, ast.Tuple) and len(node.target.elts) == 2 and all(isinstance(x, ast.Name) for x in node.target.elts)):
                raise Unsupported("_get_problem_arg: inner loop target")
            kk = s1.ghost["k_now"]
            lst = s1.env.get(V_LIST)
            if not (isinstance(lst, Ref) and isinstance(s1.get(lst), ListObj) and not s1.get(lst).items and s1.get(lst).lower is None):
                raise Unsupported("_get_problem_arg: new_parameters is not a fresh empty list at the inner loop head")
            sentinel, keep0 = s1.env.get(V_SENT), s1.env.get(V_KEEP)
            e.oblige(s1, "C13:blame:inner-invariant-holds-initially(empty-list, keep_annotation-is-the-fresh-sentinel)", z3.BoolVal(sentinel is not None and keep0 is sentinel and isinstance(sentinel, Opaque)))
            # ---- arbitrary iteration j under the invariant
            for before_k in (True, False):
                s2 = s1.clone()
                s2.pc += [0 <= j, j < n, distinct(j, kk), (j <= kk) if before_k else (j > kk)]
                s2.path.append("inner:j<=k" if before_k else "inner:j>k")
                s2.put(lst, ListObj([], lower=("spec-prefix", z3.BoolVal(True), j)))
                pj = param_obj(j)
                s2.env[node.target.elts[0].id] = Z("str", NameF(j))
                s2.env[node.target.elts[1].id] = pj
                if not before_k:
                    s2.env[V_KEEP] = Z("str", RemoveTyping(AnnF(kk)))
                for s3, o3 in e.run(node.body, s2):
                    if o3.kind not in ("normal", "continue"):
                        e.oblige(s3, f"C13:blame:inner-loop-body-completes[{o3.kind}]", z3.BoolVal(False))
                        continue
                    items = s3.get(lst).items
                    good = len(items) == 1 and isinstance(items[0], Ref) and isinstance(s3.get(items[0]), Obj) and s3.get(items[0]).cls == "Parameter"
                    e.oblige(s3, "C13:blame:exactly-one-Parameter-appended-per-parameter", z3.BoolVal(bool(good)))
                    if not good:
                        continue
                    po = s3.get(items[0]).attrs
                    nm, kd, df, an = po["name"], po["kind"], po["default"], po["annotation"]
                    same = z3.And(nm.t == NameF(j) if isinstance(nm, Z) and nm.kind == "str" else z3.BoolVal(False),
                                  e.as_u(s3, kd) == KindF(j) if isinstance(kd, Opaque) and kd.tag == "p.kind" else z3.BoolVal(False),
                                  e.as_u(s3, df) == DefaultF(j) if isinstance(df, Opaque) and df.tag == "p.default" else z3.BoolVal(False))
                    e.oblige(s3, "C13:blame:rebuilt-parameter-keeps-name-kind-default", same, j=j, k=kk)
                    has_ann = isinstance(an, Opaque) and an.tag == "p.annotation"
                    no_ann = isinstance(an, Opaque) and an.tag == "Parameter.empty"
                    e.oblige(s3, "C13:blame:only-the-kept-parameter-keeps-its-annotation(all-others-are-unannotated)",
                             z3.And(j == kk, e.as_u(s3, an) == AnnF(j)) if has_ann else (j != kk) if no_ann else z3.BoolVal(False), j=j, k=kk)
                    ka = s3.env.get(V_KEEP)
                    inv = (z3.BoolVal(ka is sentinel) if isinstance(ka, Opaque) else z3.BoolVal(False)) if False else None
                    # invariant for j+1: sentinel iff j+1 <= k ; otherwise remove_typing(annotation of k)
                    if ka is sentinel:
                        e.oblige(s3, "C13:blame:inner-invariant-preserved(keep_annotation)", j + 1 <= kk, j=j, k=kk)
                    elif isinstance(ka, Z) and ka.kind == "str":
                        e.oblige(s3, "C13:blame:inner-invariant-preserved(keep_annotation)", z3.And(j + 1 > kk, ka.t == RemoveTyping(AnnF(kk))), j=j, k=kk)
                    else:
                        e.oblige(s3, "C13:blame:inner-invariant-preserved(keep_annotation)", z3.BoolVal(False))
                    e.oblige(s3, "C13:blame:inner-loop-writes-only-its-own-locals", z3.BoolVal(not s3.ghost["made"][len(s1.ghost["made"]):] and not s3.ghost["calls"][len(s1.ghost["calls"]):] and s3.env.get(V_SENT) is sentinel))
            # ---- exit: all n parameters seen; k < n so the kept one was met
            s9 = s1.clone()
            s9.put(lst, ListObj([], lower=("spec-list", z3.BoolVal(True), kk)))
            s9.env[V_KEEP] = Z("str", RemoveTyping(AnnF(kk)))
            s9.env[node.target.elts[0].id] = Z("str", z3.FreshConst(STR, "last_p_name"))
            s9.env[node.target.elts[1].id] = Opaque("last-p")
            s9.path.append("inner:exhausted")
            if node.orelse:
                outs.extend(e.run(node.orelse, s9))
            else:
                outs.append((s9, NORMAL))
        return outs

    def outer_handler(e, node, s0):
        outs = []
        for s1, it in e.ev(node.iter, s0):
            if not (isinstance(it, Opaque) and it.tag in ("keys-of-parameters", "items-of-parameters")) and it is not params_obj:
                raise Unsupported("_get_problem_arg: the outer loop does not iterate over the parameter names")
            if not isinstance(node.target, ast.Name):
                raise Unsupported("_get_problem_arg: outer loop target")
            # ---- arbitrary iteration k; invariant: every earlier single check passed (Skolem index i0)
            s2 = s1.clone()
            s2.pc += [0 <= k, k < n, z3.Implies(z3.And(0 <= i0, i0 < k), z3.Not(Fails(i0)))]
            s2.env[node.target.id] = Z("str", NameF(k))
            s2.ghost["k_now"] = k
            s2.path.append("outer:iteration-k")
            for s3, o3 in e.run(node.body, s2):
                if o3.kind in ("normal", "continue"):
                    e.oblige(s3, "C13:blame:outer-invariant-preserved(no-earlier-parameter-fails-alone)", z3.Implies(z3.And(0 <= i0, i0 < k + 1), z3.Not(Fails(i0))), k=k)
                    check_iteration(e, s3, s1, passed=True)
                else:
                    outs.append((s3, o3))
            # ---- exit after n iterations
            s9 = s1.clone()
            s9.pc += [z3.Implies(z3.And(0 <= i0, i0 < n), z3.Not(Fails(i0)))]
            s9.ghost["k_now"] = None
            s9.ghost["exhausted"] = True
            s9.path.append("outer:exhausted")
            if node.orelse:
                outs.extend(e.run(node.orelse, s9))
            else:
                outs.append((s9, NORMAL))
        return outs

    def check_iteration(e, s, s_head, passed):
        """what one iteration did: one signature from the Spec_k list, one generated function, one checker application, one call"""
        made, applied, calls, sigs = (s.ghost[x][len(s_head.ghost[x]):] for x in ("made", "applied", "calls", "sigs"))
        ok_sig = len(sigs) == 1 and isinstance(s.get(sigs[0]).attrs["list"], Ref) and isinstance(s.get(s.get(sigs[0]).attrs["list"]), ListObj) \
            and not s.get(s.get(sigs[0]).attrs["list"]).items and (s.get(s.get(sigs[0]).attrs["list"]).lower or (None,))[0] == "spec-list" and not s.get(sigs[0]).attrs["extra"].items
        spec_k = s.get(s.get(sigs[0]).attrs["list"]).lower[2] if ok_sig else None
        e.oblige(s, "C13:blame:the-checked-signature-is-built-from-exactly-the-rebuilt-parameter-list", (spec_k == k) if ok_sig else z3.BoolVal(False))
        ok_made = len(made) == 1 and len(made[0][0]) >= 4 and made[0][0][2] is module_v and isinstance(made[0][0][3], Ref) and ok_sig and made[0][0][3].h == sigs[0].h
        out_kw = made[0][1].get("output") if len(made) == 1 else None
        if len(made) == 1 and out_kw is None and len(made[0][0]) > 4:
            out_kw = made[0][0][4]
        ok_out = isinstance(out_kw, Z) and out_kw.kind == "bool" and z3.is_false(z3.simplify(out_kw.t))
        e.oblige(s, "C13:blame:check-function-is-generated-in-the-function's-module-from-that-signature-without-return-annotation", z3.BoolVal(bool(ok_made and ok_out)))
        ok_app = len(applied) == 1 and len(applied[0][0]) == 2 and applied[0][0][0] is tc_v and len(made) == 1 and applied[0][0][1] is made[0][2] and not applied[0][1]
        e.oblige(s, "C13:blame:check-function-is-wrapped-by-exactly-the-call's-type-checker(no-jaxtyped-frame:-same-context)", z3.BoolVal(bool(ok_app)))
        ok_call = len(calls) == 1 and len(calls[0][1]) == 1 and isinstance(calls[0][1][0], StarArgs) and calls[0][1][0].v is args_v and set(calls[0][2]) == {"**"} and calls[0][2]["**"].v is kwargs_v \
            and calls[0][0] == len(s_head.ghost["applied"])
        e.oblige(s, "C13:blame:the-check-is-called-exactly-once-with-the-call's-own-args-and-kwargs", z3.BoolVal(bool(ok_call)))
        return calls

    eng.loop_specs[id(outer)] = outer_handler
    eng.loop_specs[id(inner)] = inner_handler
    head = st.clone()
    for s1, o in eng.run(fn.body, st):
        paths += 1
        if o.kind != "raise":
            eng.oblige(s1, f"C13:blame:never-returns-normally[{o.kind}]", z3.BoolVal(False))
            continue
        ex = o.val
        if s1.ghost.get("exhausted"):
            good = ex.origin in ("explicit", "constructed") and ex.classes() == frozenset(["TypeCheckError"]) and len(ex.args) == 1 and isinstance(ex.args[0], Z) and ex.args[0].kind == "str"
            eng.oblige(s1, "C13:blame:no-single-parameter-fails=>TypeCheckError-with-empty-text(no-parameter-is-blamed)", (ex.args[0].t == z3.StringVal("")) if good else z3.BoolVal(False))
            continue
        calls = check_iteration(eng, s1, head, passed=False)
        inner_exc = calls[-1][3] if calls and isinstance(calls[-1][3], Exc) else None
        if ex.origin == "check_single_arg":
            # the check's own exception leaves: only when it is not an Exception
            eng.oblige(s1, "C13:blame:only-non-Exception-BaseExceptions-of-the-check-propagate-untouched", z3.BoolVal(inner_exc is not None and ex.same(inner_exc) and not any(exc_isinstance(c, "Exception") for c in ex.classes())))
            continue
        good = ex.origin in ("explicit", "constructed") and ex.classes() == frozenset(["TypeCheckError"]) and len(ex.args) == 1 and isinstance(ex.args[0], Z) and ex.args[0].kind == "str"
        eng.oblige(s1, "C13:blame:a-failing-single-check-raises-TypeCheckError", z3.BoolVal(bool(good and inner_exc is not None)))
        if not (good and inner_exc is not None):
            continue
        eng.oblige(s1, "C13:blame:the-error-is-chained-from-the-check's-own-exception", z3.BoolVal(isinstance(ex.cause, Exc) and ex.cause.same(inner_exc)))
        eng.oblige(s1, "C13:blame:only-an-Exception-of-the-check-is-turned-into-blame(non-Exception-BaseExceptions-propagate)",
                   z3.BoolVal(isinstance(ex.cause, Exc) and all(exc_isinstance(c, "Exception") for c in ex.cause.classes())))
        msg = ex.args[0].t
        want = z3.Concat(z3.StringVal("parameter '"), NameF(k), z3.StringVal("'"))
        eng.oblige(s1, "C13:blame:the-message-names-exactly-the-kept-parameter", z3.Contains(msg, want), k=k)
        eng.oblige(s1, "C13:blame:the-message-shows-that-parameter's-own-value-and-annotation", z3.And(z3.Contains(msg, PFormat(ArgOf(NameF(k)))), z3.Contains(msg, RemoveTyping(AnnF(k)))), k=k)
        # first-failing: this check failed, every earlier one passed
        s1b = s1.clone()
        s1b.pc.append(Fails(k))  # definition of the ghost predicate at the raising iteration
        eng.oblige(s1b, "C13:blame:the-blamed-parameter-is-the-first-whose-annotation-alone-rejects-the-call", z3.And(Fails(k), z3.Implies(z3.And(0 <= i0, i0 < k), z3.Not(Fails(i0)))), k=k)
        st.obl.extend(x for x in s1b.obl if x not in st.obl)
    out = []
    seen = set()
    for ob in st.obl:
        if id(ob) in seen:
            continue
        seen.add(id(ob))
        ob = dict(ob)
        ob.setdefault("kind", "vc")
        ob["serves"] = ["C13"]
        ob["function"] = "_get_problem_arg"
        nmx = z3.String("name0")
        out.append(ob)
    out.append({"clause": "canary:problem_arg-loop-assumptions-satisfiable", "kind": "canary", "pc": [0 <= k, k < n, 0 <= j, j < n, distinct(j, k), j == k, z3.Implies(z3.And(0 <= i0, i0 < k), z3.Not(Fails(i0))), Fails(k)], "goal": z3.BoolVal(False), "path": [], "meta": {}})
    return {"unit": NAME, "functions": [{"qualname": "jaxtyping._decorator._get_problem_arg", "sha256_16": mod.sha(fn), "lines": [fn.lineno, fn.end_lineno]}],
            "obligations": out, "paths": paths, "stats": {},
            "assumptions": [
                "param_signature.parameters is a mapping name -> inspect.Parameter whose keys are pairwise distinct and equal p.name (inspect.Signature invariant)",
                "inspect.Parameter / inspect.Signature build what they are given; an omitted annotation is Parameter.empty (T5)",
                "what the generated single-parameter function and the type checker do with the rebuilt signature: contract of _make_fn_with_signature (unit make_fn, stand-in b07) and of typeguard/beartype (stand-in b13)",
                "_remove_typing and _pformat are uninterpreted (text only)",
            ]}
