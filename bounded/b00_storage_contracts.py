"""Bounded stand-in: the contracts that the deductive units USE for jaxtyping/_storage.py, checked by running the real
functions on concrete thread-local states (used when a function body leaves the verifier's subset -- then its
obligations are 'undecided' -- and as a native cross-check of the storage unit). Run-time contract checks over an
enumerated space of states: S1 no stack attribute, S2 empty stack, S3 stacks of depth 1..3 with assorted bindings
(incl. overwritten '#' variadic bindings), labels absent/None/set, flatten flag absent/False/True."""
import copy, itertools, threading
from _common import setup, Tally, emit
a = setup(__doc__)
import jaxtyping._storage as ST
from jaxtyping import AnnotationError
T = Tally()

def frames(depth):
    out = []
    for i in range(depth):
        out.append(({"a": i + 1, "n": 3}, {"s": (True, (1, 3)), "t": (False, (2,))}, {"T": "treedef%d" % i}, {"x": object()}))
    return out

def reset(shape, depth=0):
    st = ST._shape_storage
    if hasattr(st, "memo_stack"):
        try:
            del st.memo_stack
        except AttributeError:
            # visible on the object but not stored in this thread's own namespace: a class-level attribute, i.e. ONE list shared by all threads
            T.case(("root", "class-level-stack"))
            T.fail("thread-local:memo_stack", "the-stack-attribute-lives-in-the-calling-thread's-own-namespace(not-on-the-class)", expected="deletable per-thread attribute", actual=f"type(_shape_storage).memo_stack = {getattr(type(st), 'memo_stack', None)!r}")
            try:
                getattr(type(st), "memo_stack").clear()
            except Exception:
                pass
    if shape == "S2":
        st.memo_stack = []
    elif shape == "S3":
        st.memo_stack = frames(depth)

def snap():
    st = ST._shape_storage
    if not hasattr(st, "memo_stack"):
        return None
    return [tuple((id(d), copy.copy(d)) for d in fr) for fr in st.memo_stack]

def _section_frames():
    for shape, depth in [("S1", 0), ("S2", 0), ("S3", 1), ("S3", 2), ("S3", 3)]:
        key = f"{shape}/{depth}"
        # ---- get_shape_memo
        reset(shape, depth); before = snap()
        got = ST.get_shape_memo()
        T.case(("get", key), sample={"op": "get_shape_memo", "state": key})
        if shape == "S3":
            top = ST._shape_storage.memo_stack[-1]
            if not (len(got) == 4 and all(g is t for g, t in zip(got, top))):
                T.fail(f"get_shape_memo:{key}", "returns-the-top-frame-dicts-by-reference", expected="identity with memo_stack[-1]", actual=repr(got)[:200])
        else:
            if not (len(got) == 4 and all(g == {} for g in got) and len({id(g) for g in got}) == 4):
                T.fail(f"get_shape_memo:{key}", "returns-four-fresh-empty-dicts", actual=repr(got)[:200])
            got2 = ST.get_shape_memo()
            if any(x is y for x in got for y in got2):
                T.fail(f"get_shape_memo:{key}", "temporary-dicts-are-not-shared-between-calls", actual="same dict object returned twice")
        if snap() != before:
            T.fail(f"get_shape_memo:{key}", "modifies-nothing")
        # ---- set_shape_memo: top frame REPLACED by exactly the four argument objects; lower frames untouched
        reset(shape, depth); before = snap()
        new = ({"a": 9}, {"s": (True, (1, 3))}, {}, {"y": 1})   # restores an OVERWRITTEN variadic binding and removes keys
        if shape == "S3":
            ST._shape_storage.memo_stack[-1][1]["s"] = (True, (2, 3))   # a widened '#' binding that a rollback must undo
            ST._shape_storage.memo_stack[-1][0]["fresh"] = 5
        ST.set_shape_memo(*new)
        after = ST.get_shape_memo()
        T.case(("set", key), sample={"op": "set_shape_memo", "state": key})
        if shape == "S3":
            view = tuple(dict(d) for d in after)
            if view != tuple(dict(d) for d in new):
                T.fail(f"set_shape_memo:{key}", "top-frame-holds-exactly-the-snapshot-contents(overwritten-values-restored,added-keys-gone)", expected=repr(new), actual=repr(view)[:300],
                       snippet="import jaxtyping._storage as S; S._shape_storage.memo_stack=[({}, {'s':(True,(2,3))}, {}, {})]; S.set_shape_memo({}, {'s':(True,(1,3))}, {}, {}); print(S.get_shape_memo())")
            if snap()[:-1] != before[:-1]:
                T.fail(f"set_shape_memo:{key}", "lower-frames-untouched")
        else:
            if snap() != before:
                T.fail(f"set_shape_memo:{key}", "no-op-without-a-context")
        # ---- set_shape_memo must also undo a pure OVERWRITE (no key added, so all lengths are unchanged)
        if shape == "S3":
            reset(shape, depth)
            top = ST._shape_storage.memo_stack[-1]
            snapshot = tuple(dict(d) for d in top)
            top[1]["s"] = (True, (2, 3)); top[0]["a"] = 99            # same keys, new values
            ST.set_shape_memo(*[dict(d) for d in snapshot])
            T.case(("set-overwrite", key))
            now = tuple(dict(d) for d in ST.get_shape_memo())
            if now != snapshot:
                T.fail(f"set_shape_memo:{key}:overwrite-only", "a-rollback-restores-overwritten-values-even-when-no-key-was-added", expected=repr(snapshot)[:200], actual=repr(now)[:200],
                       snippet="import jaxtyping._storage as S; S._shape_storage.memo_stack=[({'a':1}, {'s':(True,(2,3))}, {}, {})]; S.set_shape_memo({'a':1}, {'s':(True,(1,3))}, {}, {}); print(S.get_shape_memo())")
        # ---- push / pop
        reset(shape, depth); before = snap()
        args = {"p": 1, "q": object()}
        memos = ST.push_shape_memo(args)
        T.case(("push", key))
        st = ST._shape_storage.memo_stack
        ok = len(st) == (len(before) if before else 0) + 1 and st[-1] is memos and memos[0] == {} and memos[1] == {} and memos[2] == {} and memos[3] == args and memos[3] is not args
        if not ok or (before and [tuple(id(d) for d in fr) for fr in st[:-1]] != [tuple(i for i, _ in fr) for fr in before]):
            T.fail(f"push_shape_memo:{key}", "stack-is-old-stack-plus-one-fresh-frame-with-a-copy-of-the-arguments", actual=repr(st)[:200])
        ST.pop_shape_memo()
        T.case(("pop", key))
        now = snap()
        if (now or []) != (before or []):
            T.fail(f"pop_shape_memo:{key}", "pop-after-push-restores-the-stack-exactly", expected=repr(before)[:200], actual=repr(now)[:200])
        if shape != "S3":
            reset(shape, depth)
            try:
                ST.pop_shape_memo(); T.fail(f"pop_shape_memo:{key}", "requires-a-pushed-frame(raises-otherwise)", actual="returned normally")
            except (AttributeError, IndexError):
                pass
def _section_label():
    # ---- label and flatten flag
    for kind in ("absent", "none", "set"):
        tp = ST._treepath_storage
        if hasattr(tp, "value"): del tp.value
        if kind == "none": tp.value = None
        if kind == "set": tp.value = "(Leaf 0 in structure T) "
        T.case(("label", kind))
        try:
            r = ST.get_treepath_memo()
            if kind != "set" or r != "(Leaf 0 in structure T) ": T.fail(f"get_treepath_memo:{kind}", "returns-the-label-or-raises-AnnotationError", actual=repr(r))
        except AnnotationError:
            if kind == "set": T.fail(f"get_treepath_memo:{kind}", "returns-the-label-when-set")
        try:
            ST.set_treepath_memo(3, "T")
            if kind == "set": T.fail(f"set_treepath_memo:{kind}", "raises-AnnotationError-when-a-label-is-already-set")
            elif ST._treepath_storage.value != "(Leaf 3 in structure T) ": T.fail(f"set_treepath_memo:{kind}", "label-is-(Leaf i in structure T)", actual=repr(ST._treepath_storage.value))
        except AnnotationError:
            if kind != "set": T.fail(f"set_treepath_memo:{kind}", "sets-a-label-when-none-is-set")
        ST.clear_treepath_memo()
        if getattr(ST._treepath_storage, "value", "x") is not None: T.fail(f"clear_treepath_memo:{kind}", "label-is-None-afterwards")
def _section_flatten():
    for kind in ("absent", True, False):
        tf = ST._treeflatten_storage
        if hasattr(tf, "value"): del tf.value
        if kind != "absent": tf.value = kind
        T.case(("flatten", str(kind)))
        if ST.get_treeflatten_memo() is not (kind is True): T.fail(f"get_treeflatten_memo:{kind}", "returns-the-flag(False-when-absent)")
        ST.set_treeflatten_memo()
        if ST.get_treeflatten_memo() is not True: T.fail(f"set_treeflatten_memo:{kind}", "flag-True-afterwards")
        ST.clear_treeflatten_memo()
        if ST.get_treeflatten_memo() is not False: T.fail(f"clear_treeflatten_memo:{kind}", "flag-False-afterwards")
def _section_shape_str():
    # ---- shape_str: lists exactly the bindings in force (C13): every non-hidden axis, variadic and structure binding once, nothing else
    import itertools as _it
    names = ["n", "m", "~~delete~~(T) k"]
    for sig_keys in _it.chain.from_iterable(_it.combinations(names, r) for r in range(3)):
        for nu_keys in _it.chain.from_iterable(_it.combinations(["n", "s", "~~delete~~(T) v"], r) for r in range(3)):
            for pi_keys in ((), ("T",), ("T", "S")):
                sig = {k: 3 + i for i, k in enumerate(sig_keys)}
                nu = {k: (bool(i % 2), (4 + i, 5)) for i, k in enumerate(nu_keys)}
                pi = {k: "PyTreeDef(%s)" % k for k in pi_keys}
                T.case(("shape_str", sig_keys, nu_keys, pi_keys))
                try:
                    out = ST.shape_str((sig, nu, pi, {"arg": 1}))
                except BaseException as e:
                    T.fail(f"shape_str:{sig_keys}|{nu_keys}|{pi_keys}", "never-raises", actual=repr(e)); continue
                lines = out.split("\n") if out else []
                want = [f"{k}={v}" for k, v in sig.items() if not k.startswith("~~delete~~")] + [f"{k}={v[1]}" for k, v in nu.items() if not k.startswith("~~delete~~")] + [f"{k}={v}" for k, v in pi.items()]
                got = [l for l in lines if "=" in l and not l.startswith("The current values")]
                if sorted(got) != sorted(want):
                    T.fail(f"shape_str:sigma={list(sig_keys)}|nu={list(nu_keys)}|pi={list(pi_keys)}", "lists-exactly-the-bindings-in-force(each-axis,variadic-and-structure-binding-once;hidden-names-omitted)", expected=want, actual=got,
                           snippet=f"import jaxtyping._storage as S; print(S.shape_str(({sig!r}, {nu!r}, {pi!r}, {{}})))")
def _section_threads():
    global seen
    # ---- per-thread namespaces
    seen = {}
    def worker():
        seen["stack"] = hasattr(ST._shape_storage, "memo_stack") and len(ST._shape_storage.memo_stack)
        seen["label"] = getattr(ST._treepath_storage, "value", None)
        seen["flat"] = ST.get_treeflatten_memo()
        seen["tmp"] = [id(d) for d in ST.get_shape_memo()]
    reset("S3", 2); ST._treepath_storage.value = "L"; ST.set_treeflatten_memo(); mine = [id(d) for d in ST.get_shape_memo()]
    t = threading.Thread(target=worker); t.start(); t.join()
    T.case(("threads", "fresh-thread-sees-nothing"))
    if seen["stack"] or seen["label"] is not None or seen["flat"] or set(seen["tmp"]) & set(mine):
        T.fail("thread-local:fresh-thread", "a-new-thread-sees-no-stack-no-label-no-flag", actual=repr(seen))
SKIPPED = []
for _name, _fn in (("frames", _section_frames), ("label", _section_label), ("flatten", _section_flatten), ("shape_str", _section_shape_str), ("threads", _section_threads)):
    try:
        _fn()
    except AttributeError as _e:
        # a function / storage root this section exercises no longer exists under that name in the tree under test (renamed, merged, turned into
        # a context manager ...): its contract cannot be exercised from here -- the section is skipped and reported, not counted as a failure
        if "module 'jaxtyping._storage' has no attribute" not in str(_e):
            raise
        SKIPPED.append(f"{_name}: {_e}")
try:
    reset("S1"); ST.clear_treepath_memo(); ST.clear_treeflatten_memo()
except AttributeError:
    pass
emit(T, bound="storage states S1, S2, S3(depth 1..3) x {get,set,push,pop}; label {absent,None,set} x {get,set,clear}; flatten flag {absent,True,False} x {get,set,clear}; one fresh-thread probe",
     rule="one case per (operation, state shape); all are non-trivial" + (("; SECTIONS SKIPPED (names not provided by this tree): " + "; ".join(SKIPPED)) if SKIPPED else ""), exhaustive=True)
