"""Replays a counter-model of unit check_dims against the REAL _check_dims (one axis step):
real verdict / post-memo vs the PyOps evaluation of spec.c01.axis_step."""
import json, sys, argparse
ap = argparse.ArgumentParser(); ap.add_argument("--repo"); a = ap.parse_args()
payload = json.load(sys.stdin)
from pyvc.modelparse import meta
from pyvc.spec import c01
import jaxtyping._array_types as AT, jaxtyping._storage as ST
from jaxtyping import AnnotationError
model = payload.get("model") or {}
d = meta(model, "dim_k"); size = meta(model, "size_k"); has_label = meta(model, "has_label", False); label = meta(model, "label", "")
key = meta(model, "key", ""); memo_has = meta(model, "memo_has", False); memo_val = meta(model, "memo_val", 0)
t1 = meta(model, "eval1_tag", 0); t2 = meta(model, "eval2_tag", 0); v2 = meta(model, "eval2_val", 0)
out = {"reproduced": None, "model_concrete": False}
if d is None or size is None:
    out["error"] = "model lacks dim_k/size_k"; print(json.dumps(out)); sys.exit(0)
class Boom(BaseException): pass
EXC = {"AnnotationError": AnnotationError, "TypeCheckError": TypeError, "OtherTypeError": TypeError, "ValueError": ValueError, "KeyError": KeyError,
       "AttributeError": AttributeError, "OtherException": RuntimeError, "NonExceptionBase": KeyboardInterrupt}
OTHER = ["AnnotationError", "TypeCheckError", "OtherTypeError", "ValueError", "KeyError", "AttributeError", "OtherException", "NonExceptionBase"]
def raiser(tag):
    cls = EXC[OTHER[tag - 2]] if 2 <= tag < 2 + len(OTHER) else RuntimeError
    return cls
# realise the dim
name = d[0]
arg_memo = {}
if name == "_SymbolicDim":
    # realise the Eval outcome chosen by the model with a real expression
    if t1 == 1: elem = "{undefined_name_q}"
    elif t1 >= 2: arg_memo["boom"] = raiser(t1); elem = "{(_ for _ in ()).throw(boom)}"
    elif t2 == 1: elem = "undefined_axis_q"
    elif t2 >= 2: arg_memo["boom"] = raiser(t2); elem = "{'(_ for _ in ()).throw(' + boom.__name__ + ')'}"
    else: elem = str(v2)
    real = AT._SymbolicDim(elem, bool(d[2])); pyd = ("_SymbolicDim", elem, bool(d[2]))
elif name == "_NamedDim":
    real = AT._NamedDim(d[1], bool(d[2]), bool(d[3])); pyd = ("_NamedDim", d[1], bool(d[2]), bool(d[3]))
elif name == "_FixedDim":
    real = AT._FixedDim(d[1], bool(d[2])); pyd = ("_FixedDim", d[1], bool(d[2]))
elif name == "_anonymous_dim":
    real = AT._anonymous_dim; pyd = ("_anonymous_dim",)
else:
    out["error"] = f"precondition excludes {name}"; print(json.dumps(out)); sys.exit(0)
memo0 = {key: memo_val} if memo_has else {}
def ev_f(elem):
    try: return 0, eval(f"f'{elem}'", dict(arg_memo))
    except NameError: return 1, ""
    except BaseException as e: return 2 + [EXC[c] for c in OTHER].index(type(e)) if type(e) in [EXC[c] for c in OTHER] else 8, ""
def ev_e(src, memo):
    try: return 0, eval(src, dict(memo))
    except NameError: return 1, 0
    except BaseException as e: return 2 + [EXC[c] for c in OTHER].index(type(e)) if type(e) in [EXC[c] for c in OTHER] else 8, 0
ops = c01.PyOps(label=label if has_label else None, eval_fstring=ev_f, eval_expr=ev_e)
exp_v, exp_memo = c01.axis_step(ops, pyd, size, dict(memo0))
ST._treepath_storage.value = label if has_label else None
memo = dict(memo0)
try:
    r = AT._check_dims([real], (size,), memo, arg_memo)
    got_v = 0 if r == "" else 1
except AnnotationError: got_v = 2; r = "AnnotationError"
except BaseException as e:
    r = type(e).__name__
    got_v = 100 + 2 + [EXC[c] for c in OTHER].index(type(e)) if type(e) in [EXC[c] for c in OTHER] else -1
finally:
    ST._treepath_storage.value = None
memo.pop("__builtins__", None) if False else None
agree = (got_v == exp_v) and (got_v != 0 or memo == exp_memo)
if exp_v >= 100 and got_v >= 100: agree = True if got_v == exp_v else False
if "a-'?'-axis-is-passed-only-under-a-leaf-label" in str(payload.get("obligation", "")):
    # this clause comes from C16's statement, not from the fold that mirrors the code: a '?' axis met while no leaf label is in force must raise AnnotationError
    if name == "_NamedDim" and bool(getattr(real, "treepath", False)) and not has_label:
        exp_v = 2
        agree = got_v == 2
witness_note = None
if agree and name == "_SymbolicDim" and t1 == 0 and t2 == 0:
    # the VC treats the value of a user expression as "a number"; the model's integer is one realisation. Non-integral values of the same
    # expression slot (x.5, x.0 as a float) are tried as well before concluding that the real code agrees.
    for alt in (f"{size}+0.5", f"{size}-0.5", f"({2 * size + 1})/2", f"{size}.0", f"{size}+0.999", f"{size + 1}-0.001"):
        real2 = AT._SymbolicDim(alt, bool(d[2])); pyd2 = ("_SymbolicDim", alt, bool(d[2]))
        e_v, e_memo = c01.axis_step(ops, pyd2, size, dict(memo0))
        m2 = dict(memo0)
        try:
            r2 = AT._check_dims([real2], (size,), m2, arg_memo); g_v = 0 if r2 == "" else 1
        except AnnotationError: g_v = 2; r2 = "AnnotationError"
        except BaseException as e2: g_v = -1; r2 = type(e2).__name__
        if g_v != e_v:
            real, elem, r, got_v, exp_v, memo, exp_memo, agree = real2, alt, r2, g_v, e_v, m2, e_memo, False
            witness_note = f"non-integral value of the symbolic expression: {alt!r} against size {size}"
            break
# a path through an over-approximated inner loop ("loop:some" / "loop:none") has an ABSTRACT counter-model: what that loop left behind is unknown to the VC
abstract = any(str(x).startswith("loop:") for x in (payload.get("path") or []))
out.update(reproduced=not agree, model_concrete=not abstract, note=witness_note,
           input=dict(dims=[repr(real)], shape=[size], single_memo=memo0, label=label if has_label else None, arg_memo=sorted(arg_memo)),
           native=dict(result=r, verdict=got_v, memo=repr(memo)[:400]), expected=dict(verdict=exp_v, memo=exp_memo),
           snippet=f"import jaxtyping._array_types as AT; m={memo0!r}; print(AT._check_dims([{real!r}], ({size},), m, {{}}), m)")
print(json.dumps(out, default=str))
