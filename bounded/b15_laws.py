"""Bounded stand-in for C15: nested, union, TypeVar and scalar annotations obey the documented laws.

Every law is checked twice:
  * law form      - the two sides of the documented equation are both built with the real code and must behave identically
                    (same error / same acceptance vector over the probe set);
  * oracle form   - the left-hand side is compared with an independent model written from docs/api/array.md: an own
                    category algebra (sets of documented dtype names), an own dim-string matcher (existential, brute force)
                    and plain Python isinstance for the array-type part.

Run:  PYTHONPATH=<repo>:/verif JAX_PLATFORMS=cpu /venv/bin/python bounded/b15_laws.py --tier quick --repo <repo>
"""
import itertools
import os
import sys
import time
import types
import typing
from typing import Any, TypeVar, Union, get_args, get_origin

os.environ.setdefault("JAX_PLATFORMS", "cpu")
sys.path.insert(0, os.path.dirname(os.path.abspath(__file__)))
import _common  # noqa: E402

args = _common.setup("C15 nesting / union / TypeVar / scalar laws")

import numpy as np  # noqa: E402
import jax  # noqa: E402
import jax.numpy as jnp  # noqa: E402
import jax.typing  # noqa: E402
import jaxtyping  # noqa: E402
from jaxtyping import jaxtyped  # noqa: E402

THOROUGH = args.tier == "thorough"

# --------------------------------------------------------------------------------------------
# Own category algebra (docs/api/array.md "Dtype"): a category is a set of documented dtype names; Shaped is everything.
# --------------------------------------------------------------------------------------------
K = {
    "bool": ["bool"],
    "uint": ["uint2", "uint4", "uint8", "uint16", "uint32", "uint64"],
    "int": ["int2", "int4", "int8", "int16", "int32", "int64"],
    "float": ["float8_e4m3b11fnuz", "float8_e4m3fn", "float8_e4m3fnuz", "float8_e5m2", "float8_e5m2fnuz", "bfloat16", "float16",
              "float32", "float64"],
    "complex": ["complex64", "complex128"],
    "key": ["key"],
}
KIND_OF = {n: k for k, ns in K.items() for n in ns}
EVERYTHING = None  # Shaped


def _names(*kinds):
    return frozenset(n for k in kinds for n in K[k])


MODEL = {
    "Shaped": EVERYTHING, "Bool": _names("bool"), "Key": _names("key"), "Num": _names("uint", "int", "float", "complex"),
    "Inexact": _names("float", "complex"), "Float": _names("float"), "Complex": _names("complex"), "Integer": _names("uint", "int"),
    "UInt": _names("uint"), "Int": _names("int"), "Real": _names("float", "uint", "int"),
}
for _cls, _n in {"UInt2": "uint2", "UInt4": "uint4", "UInt8": "uint8", "UInt16": "uint16", "UInt32": "uint32", "UInt64": "uint64",
                 "Int2": "int2", "Int4": "int4", "Int8": "int8", "Int16": "int16", "Int32": "int32", "Int64": "int64",
                 "BFloat16": "bfloat16", "Float16": "float16", "Float32": "float32", "Float64": "float64", "Complex64": "complex64",
                 "Complex128": "complex128", "Float8e4m3b11fnuz": "float8_e4m3b11fnuz", "Float8e4m3fn": "float8_e4m3fn",
                 "Float8e4m3fnuz": "float8_e4m3fnuz", "Float8e5m2": "float8_e5m2", "Float8e5m2fnuz": "float8_e5m2fnuz"}.items():
    MODEL[_cls] = frozenset([_n])
ALL_CATS = list(MODEL)
assert len(ALL_CATS) == 34
QUICK_CATS = ["Shaped", "Float", "Int", "Bool", "Float32", "Num", "Key", "UInt8", "Integer", "Inexact", "Complex", "Int32"]
CATS = ALL_CATS if THOROUGH else QUICK_CATS
REAL = {n: getattr(jaxtyping, n) for n in ALL_CATS}


def cat_meet(cats):
    """intersection of several categories -> frozenset or EVERYTHING"""
    out = EVERYTHING
    for c in cats:
        m = MODEL[c]
        if m is EVERYTHING:
            continue
        out = m if out is EVERYTHING else (out & m)
    return out


def dtype_name(x):
    """documented name of the dtype of a probe (probes only use bool/uint8/int32/float32/uint32 and JAX keys)"""
    dt = x.dtype
    if isinstance(dt, str):
        return dt
    try:
        if jax.dtypes.issubdtype(dt, jax.dtypes.prng_key):
            return "key"
    except Exception:
        pass
    return np.dtype(dt).name


def dtype_in(cats, x):
    m = cat_meet(cats)
    return True if m is EVERYTHING else dtype_name(x) in m


def scalar_kind_in(cat, kind):
    m = MODEL[cat]
    return True if m is EVERYTHING else any(KIND_OF[n] == kind for n in m)


# --------------------------------------------------------------------------------------------
# Own dim-string matcher for the vocabulary used here: names, integers, '#', '*name', '...', '_'
# --------------------------------------------------------------------------------------------
def parse_dims(s):
    toks = []
    for w in s.split():
        if w == "...":
            toks.append(("multi", None, False))
            continue
        b = multi = anon = False
        while w and w[0] in "#*_":
            if w[0] == "#":
                b = True
            elif w[0] == "*":
                multi = True
            else:
                anon = True
            w = w[1:]
        if multi:
            toks.append(("multi", None if anon else w, b))
        elif anon:
            toks.append(("anon", None, False))
        elif w.isdigit():
            toks.append(("fixed", int(w), b))
        else:
            toks.append(("name", w, b))
    return toks


def n_multi(s):
    return sum(1 for t in parse_dims(s) if t[0] == "multi")


def admits_rank0(s):
    return all(t[0] == "multi" for t in parse_dims(s))


_shape_cache = {}


def shape_matches(s, shape):
    """does `shape` satisfy dim string `s` in a fresh context?  existential over axis-name values."""
    key = (s, shape)
    if key in _shape_cache:
        return _shape_cache[key]
    toks = parse_dims(s)
    multis = [i for i, t in enumerate(toks) if t[0] == "multi"]
    assert len(multis) <= 1
    if multis:
        i = multis[0]
        n_after = len(toks) - i - 1
        if len(shape) < len(toks) - 1:
            res = False
            _shape_cache[key] = res
            return res
        pairs = list(zip(toks[:i], shape[:i])) + (list(zip(toks[i + 1:], shape[len(shape) - n_after:])) if n_after else [])
    else:
        if len(shape) != len(toks):
            _shape_cache[key] = False
            return False
        pairs = list(zip(toks, shape))
    res = True
    strict, loose = {}, {}
    for (kind, val, b), size in pairs:
        if kind == "fixed":
            if not (size == val or (b and size == 1)):
                res = False
        elif kind == "name":
            (loose if b else strict).setdefault(val, set()).add(size)
    for name in set(strict) | set(loose):
        st = strict.get(name, set())
        lo = loose.get(name, set())
        if len(st) > 1:
            res = False
        elif len(st) == 1:
            (v,) = st
            if any(x != v and x != 1 for x in lo):
                res = False
        else:
            if len(lo - {1}) > 1:
                res = False
    _shape_cache[key] = res
    return res


# --------------------------------------------------------------------------------------------
# Array-type expressions: (real object, model)
#   model := ("cls", C) | ("any",) | ("scalar", T) | ("nested", cat, model, dims) | ("union", [models])
# --------------------------------------------------------------------------------------------
SCALAR_KIND = {bool: "bool", int: "int", float: "float", complex: "complex"}


def members_model(cats, model, dims):
    """Model of  cats[0][...cats[-1][<model>, ...], dims] .  Returns 'error' or a list of member predicates
    ('scalar', T) / ('array', typepred, cats, dims)."""
    tag = model[0]
    if tag == "union":
        out = []
        for m in model[1]:
            r = members_model(cats, m, dims)
            if r == "error":
                if m[0] == "scalar":
                    continue  # a scalar member that does not survive is dropped from the union
                return "error"
            out.extend(r)
        return out if out else "error"
    if tag == "scalar":
        T = model[1]
        ok = admits_rank0(dims) and all(scalar_kind_in(c, SCALAR_KIND[T]) for c in cats)
        return [("scalar", T)] if ok else "error"
    if tag == "nested":
        _, cat, inner, idims = model
        if inner[0] == "scalar":
            raise AssertionError("not enumerated")
        new_cats = cats + [cat]
        if cat_meet(new_cats) is not EVERYTHING and len(cat_meet(new_cats)) == 0:
            return "error"
        if n_multi(dims) and n_multi(idims):
            return "error"
        return members_model(new_cats, inner, (dims + " " + idims).strip())
    if tag == "cls":
        return [("array", model[1], list(cats), dims)]
    if tag == "any":
        return [("array", None, list(cats), dims)]
    raise AssertionError(tag)


def model_accepts(members, x):
    for m in members:
        if m[0] == "scalar":
            if isinstance(x, m[1]):
                return True
        else:
            _, C, cats, dims = m
            if C is None:
                if not (hasattr(x, "shape") and hasattr(x, "dtype")):
                    continue
            elif not isinstance(x, C):
                continue
            if dtype_in(cats, x) and shape_matches(dims, tuple(x.shape)):
                return True
    return False


# --------------------------------------------------------------------------------------------
# Real-code helpers
# --------------------------------------------------------------------------------------------
def build(fn):
    try:
        return ("ok", fn())
    except Exception as e:  # result, not a crash
        return ("err", type(e).__name__, str(e)[:100])


def real_members(obj):
    if get_origin(obj) in (Union, types.UnionType):
        return list(get_args(obj))
    return [obj]


def real_accepts(members, x):
    """never calls isinstance on a typing.Union; each member probed in a fresh jaxtyped context"""
    out = False
    for m in members:
        try:
            with jaxtyped("context"):
                r = bool(isinstance(x, m))
        except Exception as e:
            return "raise:" + type(e).__name__
        out = out or r
    return out


# --------------------------------------------------------------------------------------------
# Probes
# --------------------------------------------------------------------------------------------
def shapes(max_rank, sizes):
    out = []
    for r in range(max_rank + 1):
        out.extend(itertools.product(sizes, repeat=r))
    return out


NP_DTYPES = ["float32", "int32", "bool", "uint8"]
NP_PROBES = [(f"np.zeros({sh}, '{dt}')", np.zeros(sh, dt)) for dt in NP_DTYPES for sh in shapes(3, (1, 2, 3))]


class Duck:
    def __init__(self, dtype, shape):
        self.dtype, self.shape = dtype, shape

    def __repr__(self):
        return f"Duck({self.dtype!r}, {self.shape!r})"


KEY = jax.random.key(0)
JAX_PROBES = [(f"jnp.zeros({sh}, '{dt}')", jnp.zeros(sh, dt)) for dt in ["float32", "int32", "bool", "uint32"] for sh in [(), (1,), (2,), (3,), (2, 2), (2, 3), (1, 2, 3)]]
JAX_PROBES += [("jax.random.key(0)", KEY), ("jax.random.split(jax.random.key(0), 2)", jax.random.split(KEY, 2)),
               ("jax.random.split(jax.random.key(0), 3)", jax.random.split(KEY, 3)), ("jax.random.PRNGKey(0)", jax.random.PRNGKey(0)),
               ("jax.random.split(jax.random.PRNGKey(0), 2)", jax.random.split(jax.random.PRNGKey(0), 2))]
SCALAR_PROBES = [("0", 0), ("3", 3), ("1.5", 1.5), ("True", True), ("1j", 1j), ("'s'", "s"), ("None", None),
                 ("np.float32(1)", np.float32(1)), ("np.int32(1)", np.int32(1)), ("np.bool_(True)", np.bool_(True)),
                 ("np.complex64(1)", np.complex64(1))]
DUCK_PROBES = [("Duck('float32', ())", Duck("float32", ())), ("Duck('float32', (2,))", Duck("float32", (2,))),
               ("Duck('int32', (2, 3))", Duck("int32", (2, 3))), ("Duck('bool', (3,))", Duck("bool", (3,)))]
NP_SMALL = [(f"np.zeros({sh}, '{dt}')", np.zeros(sh, dt)) for dt in NP_DTYPES for sh in shapes(2, (1, 2, 3))]
NP_NARROW = [(f"np.zeros({sh}, '{dt}')", np.zeros(sh, dt)) for dt in ["float16", "int8"] for sh in [(2,), (2, 2), (2, 3), (3, 2)]]
MIXED_PROBES = NP_SMALL + NP_NARROW + JAX_PROBES + SCALAR_PROBES + DUCK_PROBES
NEG_PROBES = [JAX_PROBES[1], JAX_PROBES[8], SCALAR_PROBES[2], DUCK_PROBES[1]]

PRELUDE = ("import numpy as np, jax, jax.numpy as jnp, typing, jaxtyping\nfrom jaxtyping import *\n"
           "class Duck:\n    def __init__(self, dtype, shape): self.dtype, self.shape = dtype, shape\n")

tally = _common.Tally(max_failures=120)
per_clause = {}
CLAUSE_CAP = 15


def fail(case, clause, **kw):
    n = per_clause.get(clause, 0)
    per_clause[clause] = n + 1
    if n < CLAUSE_CAP and not any(f["case"] == case and f["clause"] == clause for f in tally.failures):
        tally.fail(case, clause, **kw)


_scalar_dis = {}
COMPARE_SAMPLES = {"Float[Union[np.ndarray, float], '']", "Int[TypeVar('T', np.ndarray, int), 'a']", "jaxtyping.PRNGKeyArray"}


def scalar_disagrees(d, model, s):
    """does `model` (an array-type expression) contain a Python scalar member whose stand-alone survival under d[., s] already
    differs between the real code and the model?  (reported once by the scalar law as C15:scalar:...; not repeated per union)"""
    if model[0] == "union":
        return any(scalar_disagrees(d, m, s) for m in model[1])
    if model[0] != "scalar":
        return False
    key = (d, model[1], s)
    if key not in _scalar_dis:
        b = build(lambda: REAL[d][model[1], s])
        want_ok = admits_rank0(s) and scalar_kind_in(d, SCALAR_KIND[model[1]])
        _scalar_dis[key] = (b[0] == "ok") != want_ok
    return _scalar_dis[key]


def compare(law, case, lhs_src, lhs_build, expected_members, probes, rhs_members=None, rhs_src=None, rhs_err=None, use_oracle=True):
    """lhs_build: result of build(); expected_members: 'error' or model list; rhs_members: real member list of the other side
    of the law (or None), rhs_err: True if the other side is an error.  use_oracle=False: law form only."""
    snippet_head = PRELUDE + f"ann = {lhs_src}\n"
    tally.case((law, case, "build"), nontrivial=True,
               sample={"law": law, "lhs": lhs_src, "expected": "ValueError" if expected_members == "error" else f"{len(expected_members)} member(s)"} if lhs_src in COMPARE_SAMPLES else None)
    if lhs_build[0] == "err":
        if lhs_build[1] != "ValueError":
            fail(case, law + "-error-type", input=lhs_src, expected="ValueError or an annotation", actual=f"{lhs_build[1]}: {lhs_build[2]}", snippet=snippet_head)
        elif use_oracle and expected_members != "error":
            fail(case, law + "-error-spurious", input=lhs_src, expected=f"builds ({len(expected_members)} member(s))", actual=f"{lhs_build[1]}: {lhs_build[2]}", snippet=snippet_head)
        if rhs_err is False:
            fail(case, law + "-law", input=lhs_src, expected=f"same as {rhs_src} (which builds)", actual=f"{lhs_build[1]}: {lhs_build[2]}", snippet=snippet_head + f"rhs = {rhs_src}\n")
        return
    lhs = lhs_build[1]
    mem = real_members(lhs)
    if rhs_err:
        fail(case, law + "-law", input=lhs_src, expected=f"error like {rhs_src}", actual=repr(lhs), snippet=snippet_head + f"rhs = {rhs_src}\n")
    if use_oracle and expected_members == "error":
        fail(case, law + "-error-missing", input=lhs_src, expected="ValueError", actual=repr(lhs), snippet=snippet_head + "print(ann)  # expected ValueError\n")
        return
    if use_oracle:
        # member structure: surviving scalar types are returned as the types themselves
        exp_scalars = [m[1] for m in expected_members if m[0] == "scalar"]
        got_scalars = [m for m in mem if m in (bool, int, float, complex)]
        if sorted(map(repr, exp_scalars)) != sorted(map(repr, got_scalars)) or len(mem) != len(expected_members):
            fail(case, law + "-members", input=lhs_src, expected=f"{len(expected_members)} members, scalar members {exp_scalars}", actual=repr(mem),
                 snippet=snippet_head + "print(typing.get_args(ann) or ann)\n")
    bad_or = not use_oracle
    bad_law = rhs_members is None
    for pid, x in probes:
        if bad_or and bad_law:
            break
        got = real_accepts(mem, x)
        tally.case((law, case, pid), nontrivial=True)
        if not bad_or:
            want = model_accepts(expected_members, x)
            if got != want:
                bad_or = True
                fail(case, law + "-oracle", input={"annotation": lhs_src, "probe": pid}, expected=want, actual=got,
                     snippet=snippet_head + f"x = {pid}\nms = typing.get_args(ann) if typing.get_origin(ann) is not None else [ann]\n"
                     f"print(any(isinstance(x, m) for m in ms))  # expected {want}\n")
        if not bad_law:
            other = real_accepts(rhs_members, x)
            if other != got:
                bad_law = True
                fail(case, law + "-law", input={"lhs": lhs_src, "rhs": rhs_src, "probe": pid}, expected=other, actual=got,
                     snippet=snippet_head + f"rhs = {rhs_src}\nx = {pid}\n# compare isinstance(x, member) over the members of ann and of rhs\n")


# --------------------------------------------------------------------------------------------
# Law N: nesting.  D2[D1[A, s1], s2]  ==  (D1 & D2)[A, s2 + ' ' + s1]
# The right-hand side is evaluated with the real code as the conjunction
#   D1[A, '...'] and D2[A, '...'] and Shaped[A, s2 + ' ' + s1]      (each in a fresh context)
# --------------------------------------------------------------------------------------------
DIMS = ["", "a", "a b", "*c", "... a", "3", "#a"]
NEST_SAMPLES = {("Shaped", "Float", "a", "*c"), ("Int", "Float", "", "a")}


def run_nesting(cats, A, A_src, A_model, probes, tag):
    flat_dtype = {}  # (cat, probe id) -> real verdict of cat[A, '...']
    for c in cats:
        ann = REAL[c][A, "..."]
        for pid, x in probes:
            flat_dtype[c, pid] = real_accepts([ann], x)
    flat_shape = {}
    for s1 in DIMS:
        for s2 in DIMS:
            cs = (s2 + " " + s1).strip()
            if cs in flat_shape or (n_multi(s1) and n_multi(s2)):
                continue
            ann = jaxtyping.Shaped[A, cs]
            flat_shape[cs] = {pid: real_accepts([ann], x) for pid, x in probes}
    for d1 in cats:
        for s1 in DIMS:
            inner_b = build(lambda: REAL[d1][A, s1])
            assert inner_b[0] == "ok", inner_b
            inner = inner_b[1]
            for d2 in cats:
                for s2 in DIMS:
                    lhs_src = f"{d2}[{d1}[{A_src}, {s1!r}], {s2!r}]"
                    case = f"C15:nest{tag}:{d2}[{d1}[{s1!r}],{s2!r}]"
                    lhs_b = build(lambda: REAL[d2][inner, s2])
                    exp = members_model([d2], ("nested", d1, A_model, s1), s2)
                    cs = (s2 + " " + s1).strip()
                    # law side, by real code
                    m = cat_meet([d1, d2])
                    rhs_err = (m is not EVERYTHING and len(m) == 0) or bool(n_multi(s1) and n_multi(s2))
                    rhs_src = f"conjunction {d1}[{A_src},'...'] & {d2}[{A_src},'...'] & Shaped[{A_src},{cs!r}]"
                    tally.case(("nest" + tag, case, "build"), nontrivial=True,
                               sample={"law": "nest", "lhs": lhs_src, "expected": "ValueError" if exp == "error" else "== " + rhs_src} if (d2, d1, s2, s1) in NEST_SAMPLES else None)
                    if lhs_b[0] == "err":
                        if lhs_b[1] != "ValueError":
                            fail(case, "nest-error-type", input=lhs_src, expected="ValueError" if exp == "error" else "builds", actual=f"{lhs_b[1]}: {lhs_b[2]}", snippet=PRELUDE + f"ann = {lhs_src}\n")
                        elif exp != "error":
                            fail(case, "nest-error-spurious", input=lhs_src, expected="builds", actual=f"{lhs_b[1]}: {lhs_b[2]}", snippet=PRELUDE + f"ann = {lhs_src}\n")
                        continue
                    if exp == "error":
                        fail(case, "nest-error-missing", input=lhs_src, expected="ValueError (empty dtype intersection or two multi-axis specifiers)", actual=repr(lhs_b[1]),
                             snippet=PRELUDE + f"ann = {lhs_src}  # expected ValueError\nprint(ann)\n")
                        continue
                    lhs = lhs_b[1]
                    bad_law = bad_or = False
                    for pid, x in probes:
                        got = real_accepts([lhs], x)
                        tally.case(("nest" + tag, case, pid), nontrivial=True)
                        a, b, c = flat_dtype[d1, pid], flat_dtype[d2, pid], flat_shape[cs][pid]
                        law = (a and b and c) if all(isinstance(v, bool) for v in (a, b, c)) else "raise"
                        want = model_accepts(exp, x)
                        if got != law and not bad_law:
                            bad_law = True
                            fail(case, "nest-law", input={"lhs": lhs_src, "rhs": rhs_src, "probe": pid}, expected=law, actual=got,
                                 snippet=PRELUDE + f"x = {pid}\nprint(isinstance(x, {lhs_src}))  # {got}\n"
                                 f"print(isinstance(x, {d1}[{A_src}, '...']) and isinstance(x, {d2}[{A_src}, '...']) and isinstance(x, Shaped[{A_src}, {cs!r}]))  # {law}\n")
                        if got != want and not bad_or:
                            bad_or = True
                            fail(case, "nest-oracle", input={"lhs": lhs_src, "probe": pid}, expected=want, actual=got,
                                 snippet=PRELUDE + f"x = {pid}\nprint(isinstance(x, {lhs_src}))  # expected {want}\n")
                        if bad_law and bad_or:
                            break


run_nesting(CATS, np.ndarray, "np.ndarray", ("cls", np.ndarray), NP_PROBES + NEG_PROBES, "")
if THOROUGH:
    run_nesting(QUICK_CATS, typing.Any, "typing.Any", ("any",), NP_SMALL + JAX_PROBES[:14] + DUCK_PROBES + SCALAR_PROBES[:3], "-Any")
    run_nesting(QUICK_CATS, jax.Array, "jax.Array", ("cls", jax.Array), JAX_PROBES + NP_SMALL[:6] + SCALAR_PROBES[:3], "-jax")


def run_double_nesting(cats, dims_list, probes):
    """D3[D2[D1[A, s1], s2], s3] : the array type of the outer nesting is itself a nested annotation"""
    A, A_src = np.ndarray, "np.ndarray"
    flat_dtype = {(c, pid): real_accepts([REAL[c][A, "..."]], x) for c in cats for pid, x in probes}
    flat_shape = {}
    for d1 in cats:
        for s1 in dims_list:
            a1 = REAL[d1][A, s1]
            for d2 in cats:
                for s2 in dims_list:
                    b2 = build(lambda: REAL[d2][a1, s2])
                    if b2[0] == "err":
                        continue  # covered by the single nesting law
                    for d3 in cats:
                        for s3 in dims_list:
                            lhs_src = f"{d3}[{d2}[{d1}[{A_src}, {s1!r}], {s2!r}], {s3!r}]"
                            case = f"C15:nest2:{d3}[{d2}[{d1}[{s1!r}],{s2!r}],{s3!r}]"
                            lhs_b = build(lambda: REAL[d3][b2[1], s3])
                            exp = members_model([d3], ("nested", d2, ("nested", d1, ("cls", A), s1), s2), s3)
                            tally.case(("nest2", case, "build"), nontrivial=True,
                                       sample={"law": "nest2", "lhs": lhs_src, "expected": "ValueError" if exp == "error" else "conjunction"} if (d3, d2, d1, s3, s2, s1) == ("Num", "Shaped", "Float", "a", "*c", "3") else None)
                            if lhs_b[0] == "err":
                                if lhs_b[1] != "ValueError":
                                    fail(case, "nest2-error-type", input=lhs_src, expected="ValueError or an annotation", actual=f"{lhs_b[1]}: {lhs_b[2]}", snippet=PRELUDE + f"ann = {lhs_src}\n")
                                elif exp != "error":
                                    fail(case, "nest2-error-spurious", input=lhs_src, expected="builds", actual=f"{lhs_b[1]}: {lhs_b[2]}", snippet=PRELUDE + f"ann = {lhs_src}\n")
                                continue
                            if exp == "error":
                                fail(case, "nest2-error-missing", input=lhs_src, expected="ValueError", actual=repr(lhs_b[1]), snippet=PRELUDE + f"print({lhs_src})  # expected ValueError\n")
                                continue
                            cs = " ".join((s3 + " " + s2 + " " + s1).split())
                            if cs not in flat_shape:
                                ann = jaxtyping.Shaped[A, cs]
                                flat_shape[cs] = {pid: real_accepts([ann], x) for pid, x in probes}
                            bad_law = bad_or = False
                            for pid, x in probes:
                                got = real_accepts([lhs_b[1]], x)
                                tally.case(("nest2", case, pid), nontrivial=True)
                                vs = (flat_dtype[d1, pid], flat_dtype[d2, pid], flat_dtype[d3, pid], flat_shape[cs][pid])
                                law = all(vs) if all(isinstance(v, bool) for v in vs) else "raise"
                                want = model_accepts(exp, x)
                                if got != law and not bad_law:
                                    bad_law = True
                                    fail(case, "nest2-law", input={"lhs": lhs_src, "rhs": f"{d1} & {d2} & {d3} dtypes and Shaped[{A_src}, {cs!r}]", "probe": pid}, expected=law, actual=got,
                                         snippet=PRELUDE + f"x = {pid}\nprint(isinstance(x, {lhs_src}))  # law side says {law}\n")
                                if got != want and not bad_or:
                                    bad_or = True
                                    fail(case, "nest2-oracle", input={"lhs": lhs_src, "probe": pid}, expected=want, actual=got,
                                         snippet=PRELUDE + f"x = {pid}\nprint(isinstance(x, {lhs_src}))  # expected {want}\n")
                                if bad_law and bad_or:
                                    break


N2_CATS = ["Shaped", "Float", "Int", "Num", "Float32", "Key"]
N2_DIMS = ["", "a", "*c", "3", "#a"]
if THOROUGH:
    run_double_nesting(N2_CATS, N2_DIMS, NP_PROBES)
t_nest = time.time() - args.t0

# --------------------------------------------------------------------------------------------
# Law U: unions.  D[Union[A, B], s] == Union[D[A, s], D[B, s]]   (also written A | B)
# --------------------------------------------------------------------------------------------
NESTED = jaxtyping.Float[np.ndarray, "a"]
MEMBERS = [
    ("np.ndarray", np.ndarray, ("cls", np.ndarray)),
    ("jax.Array", jax.Array, ("cls", jax.Array)),
    ("int", int, ("scalar", int)),
    ("float", float, ("scalar", float)),
    ("bool", bool, ("scalar", bool)),
    ("complex", complex, ("scalar", complex)),
    ("Float[np.ndarray, 'a']", NESTED, ("nested", "Float", ("cls", np.ndarray), "a")),
]
U_DIMS = ["", "a", "*c", "...", "3", "#a", "a b", "... a", "#*c", "*_"]  # (the last two: multi-axis forms that do not START with "*" / are anonymous)
# nested members that differ ONLY in their inner category (same outer category, array type and shape string once wrapped):
# a union must keep them apart (typing.Union merges members that compare equal)
N16 = ("Float16[np.ndarray, 'a']", jaxtyping.Float16[np.ndarray, "a"], ("nested", "Float16", ("cls", np.ndarray), "a"))
N32 = ("Float32[np.ndarray, 'a']", jaxtyping.Float32[np.ndarray, "a"], ("nested", "Float32", ("cls", np.ndarray), "a"))
NI8 = ("Int8[np.ndarray, 'a']", jaxtyping.Int8[np.ndarray, "a"], ("nested", "Int8", ("cls", np.ndarray), "a"))


def member_builds(d, objs, s):
    """the other side of the law: each D[X, s] built on its own"""
    out, err = [], False
    for (src, obj, model) in objs:
        b = build(lambda: REAL[d][obj, s])
        if b[0] == "err":
            if model[0] != "scalar":
                err = True  # an array member that cannot be built makes the whole right-hand side an error
            continue  # a scalar member that is an error "does not survive"
        out.extend(real_members(b[1]))
    if not out:
        err = True
    return out, err


def run_unions():
    combos = [c for c in itertools.combinations(MEMBERS, 2)]
    combos += [(MEMBERS[0], MEMBERS[2], MEMBERS[3]), (MEMBERS[1], MEMBERS[6], MEMBERS[4]), (MEMBERS[2], MEMBERS[3], MEMBERS[4], MEMBERS[5])]
    combos += [(N32, N16), (N16, N32), (MEMBERS[6], N16), (N32, NI8), (N16, MEMBERS[1], N32)]
    for d in CATS:
        for combo in combos:
            forms = [("Union[" + ", ".join(c[0] for c in combo) + "]", Union[tuple(c[1] for c in combo)])]
            bar = combo[0][1]
            for c in combo[1:]:
                bar = bar | c[1]
            forms.append((" | ".join(c[0] for c in combo), bar))
            for s in U_DIMS:
                exp = members_model([d], ("union", [c[2] for c in combo]), s)
                rhs, rhs_err = member_builds(d, combo, s)
                rhs_src = "Union[" + ", ".join(f"{d}[{c[0]}, {s!r}]" for c in combo) + "] (non-surviving scalar members dropped)"
                for fsrc, fobj in forms:
                    lhs_src = f"{d}[{fsrc}, {s!r}]"
                    case = f"C15:union:{d}[{fsrc},{s!r}]"
                    compare("union", case, lhs_src, build(lambda: REAL[d][fobj, s]), exp, MIXED_PROBES, rhs_members=None if rhs_err else rhs,
                            rhs_src=rhs_src, rhs_err=rhs_err, use_oracle=not scalar_disagrees(d, ("union", [c[2] for c in combo]), s))


run_unions()
t_union = time.time() - args.t0

# --------------------------------------------------------------------------------------------
# Law T: TypeVars.  bound -> the bound; constraints -> their union; neither -> any object with shape and dtype
# --------------------------------------------------------------------------------------------
ARRAYLIKE_MODEL = ("union", [("cls", jax.Array), ("cls", np.ndarray), ("cls", np.bool_), ("cls", np.number), ("scalar", bool), ("scalar", int),
                             ("scalar", float), ("scalar", complex)])


def run_typevars():
    tvs = [
        ("TypeVar('T')", TypeVar("T"), "typing.Any", typing.Any, ("any",)),
        ("TypeVar('T', bound=np.ndarray)", TypeVar("T", bound=np.ndarray), "np.ndarray", np.ndarray, ("cls", np.ndarray)),
        ("TypeVar('T', bound=jax.Array)", TypeVar("T", bound=jax.Array), "jax.Array", jax.Array, ("cls", jax.Array)),
        ("TypeVar('T', bound=Union[np.ndarray, jax.Array])", TypeVar("T", bound=Union[np.ndarray, jax.Array]), "Union[np.ndarray, jax.Array]",
         Union[np.ndarray, jax.Array], ("union", [("cls", np.ndarray), ("cls", jax.Array)])),
        ("TypeVar('T', bound=Float[np.ndarray, 'a'])", TypeVar("T", bound=NESTED), "Float[np.ndarray, 'a']", NESTED,
         ("nested", "Float", ("cls", np.ndarray), "a")),
        ("TypeVar('T', bound=int)", TypeVar("T", bound=int), "int", int, ("scalar", int)),
        ("TypeVar('T', np.ndarray, jax.Array)", TypeVar("T", np.ndarray, jax.Array), "Union[np.ndarray, jax.Array]", Union[np.ndarray, jax.Array],
         ("union", [("cls", np.ndarray), ("cls", jax.Array)])),
        ("TypeVar('T', int, float)", TypeVar("T", int, float), "Union[int, float]", Union[int, float], ("union", [("scalar", int), ("scalar", float)])),
        ("TypeVar('T', np.ndarray, int)", TypeVar("T", np.ndarray, int), "Union[np.ndarray, int]", Union[np.ndarray, int],
         ("union", [("cls", np.ndarray), ("scalar", int)])),
        ("TypeVar('T', Float[np.ndarray, 'a'], jax.Array)", TypeVar("T", NESTED, jax.Array), "Union[Float[np.ndarray, 'a'], jax.Array]", Union[NESTED, jax.Array],
         ("union", [("nested", "Float", ("cls", np.ndarray), "a"), ("cls", jax.Array)])),
    ]
    for d in CATS:
        for tsrc, tv, esrc, eobj, model in tvs:
            for s in U_DIMS:
                exp = members_model([d], model, s)
                lhs_src = f"{d}[{tsrc}, {s!r}]"
                case = f"C15:typevar:{d}[{tsrc},{s!r}]"
                rb = build(lambda: REAL[d][eobj, s])
                rhs_err = rb[0] == "err"
                compare("typevar", case, lhs_src, build(lambda: REAL[d][tv, s]), exp, MIXED_PROBES,
                        rhs_members=None if rhs_err else real_members(rb[1]), rhs_src=f"{d}[{esrc}, {s!r}]", rhs_err=rhs_err,
                        use_oracle=not scalar_disagrees(d, model, s))


run_typevars()

# --------------------------------------------------------------------------------------------
# Law S: scalars.  D[T, s] is T ONLY IF s admits rank 0 and D contains a dtype of T's kind (necessary condition, as the statement says); otherwise ValueError
# (all 34 categories in both tiers)
# --------------------------------------------------------------------------------------------
S_DIMS = ["", "...", "*c", "#*c", "*_", "a", "3", "#a", "_", "a b", "... a", "*c a", "a *c", "1"]


def run_scalars():
    for d in ALL_CATS:
        for T in (bool, int, float, complex):
            bad = {}  # clause -> [(dim string, actual)]
            for s in S_DIMS:
                src = f"{d}[{T.__name__}, {s!r}]"
                b = build(lambda: REAL[d][T, s])
                want_ok = admits_rank0(s) and scalar_kind_in(d, SCALAR_KIND[T])
                tally.case(("scalar", d, T.__name__, s), nontrivial=True,
                           sample={"law": "scalar", "lhs": src, "expected": T.__name__ if want_ok else "ValueError"} if (d, T, s) == ("Int32", int, "*c") else None)
                if b[0] == "err":
                    if b[1] != "ValueError":
                        bad.setdefault("scalar-error-type", []).append((s, want_ok, f"{b[1]}: {b[2]}"))
                    # (a ValueError where the oracle would allow the scalar is NOT a failure: the statement gives only a
                    #  necessary condition -- "survive only for ..." -- e.g. BFloat16[float, ""] is rejected, Float16[float, ""] is not)
                elif not want_ok:
                    bad.setdefault("scalar-survives", []).append((s, want_ok, repr(b[1])))
                elif b[1] is not T:
                    bad.setdefault("scalar-identity", []).append((s, want_ok, repr(b[1])))
            # one failure per (category, scalar type, clause); the dim strings concerned are listed in `input`
            for clause, items in bad.items():
                s0, want_ok, act = items[0]
                src = f"{d}[{T.__name__}, {s0!r}]"
                fail(f"C15:scalar:{d}[{T.__name__}]", clause, input={"category": d, "scalar": T.__name__, "dim_strings": [i[0] for i in items]},
                     expected=("the type " + T.__name__) if want_ok else "ValueError", actual=act,
                     snippet=PRELUDE + f"print({src})  # expected {'the type ' + T.__name__ if want_ok else 'ValueError'}\n")


run_scalars()

# --------------------------------------------------------------------------------------------
# Law A: aliases Scalar / ScalarLike / PRNGKeyArray equal their documented definitions (and nest as documented)
# --------------------------------------------------------------------------------------------
PRNG_MODEL = ("union", [("nested", "Key", ("cls", jax.Array), ""), ("nested", "UInt32", ("cls", jax.Array), "2")])


def run_aliases():
    defs = [
        ("Scalar", lambda: jaxtyping.Scalar, "Shaped[jax.Array, '']", lambda: jaxtyping.Shaped[jax.Array, ""], ["Shaped"], ("cls", jax.Array), ""),
        ("ScalarLike", lambda: jaxtyping.ScalarLike, "Shaped[jax.typing.ArrayLike, '']", lambda: jaxtyping.Shaped[jax.typing.ArrayLike, ""], ["Shaped"], ARRAYLIKE_MODEL, ""),
        ("PRNGKeyArray", lambda: jaxtyping.PRNGKeyArray, "Union[Key[jax.Array, ''], UInt32[jax.Array, '2']]",
         lambda: Union[jaxtyping.Key[jax.Array, ""], jaxtyping.UInt32[jax.Array, "2"]], ["Shaped"], PRNG_MODEL, ""),
        # docs: "you can annotate the output of jax.random.split with Shaped[PRNGKeyArray, "2"], or e.g. an integer scalar with Int[Scalar, ""]"
        ("Shaped[PRNGKeyArray, '2']", lambda: jaxtyping.Shaped[jaxtyping.PRNGKeyArray, "2"], "Union[Key[jax.Array, '2'], UInt32[jax.Array, '2 2']]",
         lambda: Union[jaxtyping.Key[jax.Array, "2"], jaxtyping.UInt32[jax.Array, "2 2"]], ["Shaped"], PRNG_MODEL, "2"),
        ("Int[Scalar, '']", lambda: jaxtyping.Int[jaxtyping.Scalar, ""], "Int[jax.Array, '']", lambda: jaxtyping.Int[jax.Array, ""], ["Int"],
         ("nested", "Shaped", ("cls", jax.Array), ""), ""),
        ("Key[Scalar, '']", lambda: jaxtyping.Key[jaxtyping.Scalar, ""], "Key[jax.Array, '']", lambda: jaxtyping.Key[jax.Array, ""], ["Key"],
         ("nested", "Shaped", ("cls", jax.Array), ""), ""),
        ("Float[ScalarLike, '']", lambda: jaxtyping.Float[jaxtyping.ScalarLike, ""], "Float[jax.typing.ArrayLike, '']", lambda: jaxtyping.Float[jax.typing.ArrayLike, ""], None, None, ""),
    ]
    probes = MIXED_PROBES
    for name, lhs_fn, rhs_src, rhs_fn, cats, model, dims in defs:
        case = f"C15:alias:{name}"
        lb, rb = build(lhs_fn), build(rhs_fn)
        src = "jaxtyping." + name if "[" not in name else name
        if model is None:
            # law form only (np.bool_/np.number members of ArrayLike under a dtype category are outside the statement)
            tally.case(("alias", case, "build"), nontrivial=True)
            if lb[0] != rb[0]:
                fail(case, "alias-law", input=src, expected=repr(rb)[:100], actual=repr(lb)[:100], snippet=PRELUDE + f"print({src}); print({rhs_src})\n")
                continue
            if lb[0] == "ok":
                for pid, x in probes:
                    tally.case(("alias", case, pid), nontrivial=True)
                    g, o = real_accepts(real_members(lb[1]), x), real_accepts(real_members(rb[1]), x)
                    if g != o:
                        fail(case, "alias-law", input={"lhs": src, "rhs": rhs_src, "probe": pid}, expected=o, actual=g, snippet=PRELUDE + f"x = {pid}\n# members of {src} vs {rhs_src}\n")
                        break
            continue
        exp = members_model(cats, model, dims)
        compare("alias", case, src, lb, exp, probes, rhs_members=None if rb[0] == "err" else real_members(rb[1]), rhs_src=rhs_src, rhs_err=rb[0] == "err")


run_aliases()

n_pairs = len(CATS) ** 2 * len(DIMS) ** 2
bound = (f"nesting: all {len(CATS)}x{len(CATS)} ordered pairs of {'the 34 exported' if THOROUGH else 'a representative 12 (' + ','.join(QUICK_CATS) + ') of the 34 exported'} categories x all "
         f"{len(DIMS)}x{len(DIMS)} ordered pairs of dim strings {DIMS} over np.ndarray = {n_pairs} nested annotations, each probed with {len(NP_PROBES)} numpy arrays "
         f"(dtypes {NP_DTYPES} x all shapes of rank 0..3 with sizes in {{1,2,3}}) + {len(NEG_PROBES)} non-numpy values"
         + (", plus the 12x12 subset over typing.Any and jax.Array with numpy/jax/duck/scalar probes, plus double nesting D3[D2[D1[np.ndarray,s1],s2],s3] over "
            f"{N2_CATS}^3 x {N2_DIMS}^3" if THOROUGH else "") +
         f"; unions: {len(CATS)} categories x all 21 pairs + 3 larger combinations of {{np.ndarray, jax.Array, int, float, bool, complex, Float[np.ndarray,'a']}} "
         f"x 2 spellings (typing.Union, X|Y) x dim strings {U_DIMS}, {len(MIXED_PROBES)} probes (numpy rank 0..2, jax arrays incl. PRNG keys, Python/numpy scalars, duck arrays); "
         f"TypeVars: unbounded, 5 bounds (class, union, nested annotation, int), 4 constraint tuples x same categories and dim strings; "
         f"scalars: all 34 categories x bool/int/float/complex x {len(S_DIMS)} dim strings {S_DIMS}; aliases: Scalar, ScalarLike, PRNGKeyArray and the documented "
         f"nestings Shaped[PRNGKeyArray,'2'], Int[Scalar,''], Key[Scalar,''], Float[ScalarLike,'']. Excluded: regex user categories (statement quantifies over exported "
         f"categories), np.bool_/np.number/np.generic as scalar array types (statement names only bool/int/float/complex), symbolic dims.")
rule = ("cases are generated by full cross product (no sampling); a case is (law, annotation, probe) plus one build case per annotation; every one is distinct. "
        "Left side compared (a) with the other side of the law built by the real code and (b) with an independent model: category = set of documented dtype names, "
        "emptiness / scalar-kind containment computed on those sets, dim strings matched by an own existential matcher, unions probed member-wise in fresh jaxtyped contexts. "
        "A union / TypeVar annotation containing a Python scalar member whose stand-alone survival already disagrees with the model is compared in law form only "
        "(that root cause is reported once, as C15:scalar:<category>[<scalar>]). "
        f"At most {CLAUSE_CAP} failures are listed per clause; per-clause totals are in 'clause_totals'.")
_common.emit(tally, bound=bound, rule=rule, exhaustive=True, tier=args.tier, clause_totals=per_clause, wall=round(time.time() - args.t0, 1),
             timing={"nest": round(t_nest, 1), "union": round(t_union - t_nest, 1)})
