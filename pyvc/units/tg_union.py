"""Unit: jaxtyping/_typeguard/__init__.py -- check_union (the vendored checker's union rule; C08: the leaf type of PyTree[A | B] / PyTree[Union[A, B]]).

Contract, for every number n of union members (loop cut by an invariant at an arbitrary member k):
  each member is checked by exactly one call check_type(argname, value, member_k, memo) -- same value, same memo, in order;
  verdict of that call: V(k) = 0 returns | 1 raises a TypeError (subclass) | 2 raises anything else;
  invariant at k: every earlier member rejected (V(j) == 1 for j < k);
  V(k) == 0 => check_union returns at once (no later member is consulted);  V(k) == 1 => next member;  V(k) == 2 => that exception propagates untouched;
  all n members rejected => TypeError raised by check_union itself.
So: returns  <=>  some member accepts and all members before it reject;  TypeError <=> all reject.
What check_type does with one member is its own contract (assumed here; bounded stand-ins b08/b21)."""
from __future__ import annotations

import ast

import z3

from ..engine import Engine, Raised, is_raised
from ..source import Module
from ..values import BOOL, INT, NONE, NORMAL, STR, U, ANY_EXC, Exc, Fn, Obj, Opaque, Outcome, State, Unsupported, Z

NAME = "tg_union"
REL = "jaxtyping/_typeguard/__init__.py"
TYPEERRORS = ["OtherTypeError", "TypeCheckError"]


def build(repo=None):
    mod = Module(REL, repo)
    fn = mod.func("check_union")
    functions = [{"qualname": "jaxtyping._typeguard.check_union", "sha256_16": mod.sha(fn), "lines": [fn.lineno, fn.end_lineno]}]
    loops = [x for x in ast.walk(fn) if isinstance(x, (ast.For, ast.While))]
    if len(loops) != 1 or not isinstance(loops[0], ast.For) or loops[0] not in fn.body:
        raise Unsupported("check_union: expected exactly one top-level for loop over the union members")
    loop = loops[0]
    params = [a.arg for a in fn.args.args]
    if len(params) != 4 or fn.args.vararg or fn.args.kwarg or fn.args.kwonlyargs:
        raise Unsupported("check_union signature")
    eng = Engine(mod)
    st = State()
    k, n, j0 = z3.Ints("k n j0")
    V = z3.Function("MemberVerdict", INT, INT)
    argname_v, value_v, memo_v = Z("str", z3.String("argname")), Opaque("value"), Opaque("memo")
    members = Opaque("union-members")
    et = Opaque("expected_type", attrs={"__args__": members, "__union_params__": members})
    st.env = dict(zip(params, [argname_v, value_v, et, memo_v]))
    st.ghost["checks"] = []
    st.pc.append(n >= 0)

    def m_check_type(e, s, args, kwargs, node):
        good = len(args) == 4 and not kwargs and args[0] is argname_v and args[1] is value_v and args[3] is memo_v and isinstance(args[2], Opaque) and args[2].tag == "member" and s.ghost.get("k_now") is not None
        outs = []
        for verdict, res in ((0, NONE), (1, Raised(Exc(frozenset(TYPEERRORS), origin="check_type"))), (2, Raised(Exc(frozenset(x for x in ANY_EXC if x not in TYPEERRORS), origin="check_type")))):
            s1 = s.fork((V(k) == verdict) if good else None, f"check_type:{('accepts', 'rejects', 'raises-other')[verdict]}")
            s1.ghost["checks"] = s1.ghost["checks"] + [(good, verdict, res)]
            outs.append((s1, res))
        return outs

    eng.globals["check_type"] = Fn("check_type", model=m_check_type)
    for helper in ("get_type_name", "qualified_name"):
        eng.globals[helper] = Fn(helper, model=lambda e, s, a, kw, nd, _h=helper: [(s, Z("str", z3.FreshConst(STR, _h)))])
    exits = []

    def handler(e, node, s0):
        outs = []
        for s1, it in e.ev(node.iter, s0):
            if it is not members:
                raise Unsupported("check_union: the loop does not iterate over the union's members")
            if not isinstance(node.target, ast.Name):
                raise Unsupported("check_union: loop target")
            s2 = s1.clone()
            s2.pc += [0 <= k, k < n, z3.Implies(z3.And(0 <= j0, j0 < k), V(j0) == 1)]
            s2.env[node.target.id] = Opaque("member", z3.Const("member_k", U))
            s2.ghost["k_now"] = k
            s2.path.append("member-k")
            for s3, o3 in e.run(node.body, s2):
                new = s3.ghost["checks"][len(s1.ghost["checks"]):]
                e.oblige(s3, "C08:union:each-member-is-checked-exactly-once-with-the-same-argname,-value-and-memo", z3.BoolVal(len(new) == 1 and bool(new[0][0])))
                verdict = new[0][1] if len(new) == 1 else None
                if o3.kind in ("normal", "continue"):
                    e.oblige(s3, "C08:union:the-next-member-is-tried-only-after-a-TypeError(invariant-preserved)", z3.Implies(z3.And(0 <= j0, j0 < k + 1), V(j0) == 1))
                elif o3.kind == "return":
                    e.oblige(s3, "C08:union:returns-only-right-after-an-accepting-member(all-earlier-members-rejected)", z3.And(V(k) == 0, z3.Implies(z3.And(0 <= j0, j0 < k), V(j0) == 1)))
                    e.oblige(s3, "C08:union:returns-None", z3.BoolVal(o3.val is None or o3.val is NONE))
                    outs.append((s3, o3))
                elif o3.kind == "raise":
                    own = len(new) == 1 and is_raised(new[0][2]) and isinstance(o3.val, Exc) and o3.val.same(new[0][2].exc)
                    e.oblige(s3, "C08:union:only-a-member's-own-non-TypeError-exception-leaves-the-loop(propagated-untouched)", z3.And(z3.BoolVal(bool(own)), V(k) == 2))
                    outs.append((s3, o3))
                else:
                    e.oblige(s3, f"C08:union:the-loop-is-left-only-by-return-or-exception[{o3.kind}]", z3.BoolVal(False))
            # an accepting member always ends the function: no path continues after V(k) == 0
            s9 = s1.clone()
            s9.pc.append(z3.Implies(z3.And(0 <= j0, j0 < n), V(j0) == 1))
            s9.ghost["k_now"] = None
            s9.ghost["exhausted"] = True
            s9.path.append("members-exhausted")
            if node.orelse:
                outs.extend(e.run(node.orelse, s9))
            else:
                outs.append((s9, NORMAL))
        return outs

    eng.loop_specs[id(loop)] = handler
    paths = 0
    for s1, o in eng.run(fn.body, st):
        paths += 1
        if s1.ghost.get("exhausted"):
            eng.oblige(s1, "C08:union:all-members-rejected=>TypeError-raised-by-check_union-itself",
                       z3.BoolVal(o.kind == "raise" and isinstance(o.val, Exc) and o.val.classes() <= frozenset(["TypeError"]) and o.val.origin == "explicit"))
            eng.oblige(s1, "C08:union:no-member-is-checked-outside-the-loop", z3.BoolVal(len(s1.ghost["checks"]) == 0))
        exits.append(o.kind)
    obligations = []
    for ob in st.obl:
        ob = dict(ob)
        ob.setdefault("kind", "vc")
        ob["serves"] = ["C08"]
        obligations.append(ob)
    # ---- dispatch (syntactic obligations on the current text of check_type and of the dispatch table): both spellings of a union reach check_union
    ct = mod.func("check_type")
    functions.append({"qualname": "jaxtyping._typeguard.check_type (region: the two statements that route unions)", "sha256_16": mod.sha(ct), "lines": [ct.lineno, ct.end_lineno]})
    cparams = [a.arg for a in ct.args.args]
    tops = [b for b in ct.body if not (isinstance(b, ast.Expr) and isinstance(b.value, ast.Constant))]
    idx_origin = next((i for i, b in enumerate(tops) if isinstance(b, ast.Assign) and "__origin__" in ast.unparse(b.value)), None)
    pep604 = None
    for i, b in enumerate(tops):
        if isinstance(b, ast.If) and not b.orelse and ast.unparse(b.test) == f"isinstance({cparams[2]}, _UnionType)" and len([x for x in b.body if not isinstance(x, ast.Expr) or not isinstance(x.value, ast.Constant)]) == 1:
            r = [x for x in b.body if not isinstance(x, ast.Expr) or not isinstance(x.value, ast.Constant)][0]
            if isinstance(r, ast.Return) and r.value is not None and ast.unparse(r.value) == f"check_union({cparams[0]}, {cparams[1]}, {cparams[2]}, {cparams[3]})":
                pep604 = i
    # between the forward-reference resolution and the PEP 604 test nothing may return or raise for a union: the test sits directly before the __origin__ lookup
    before_ok = pep604 is not None and idx_origin is not None and pep604 == idx_origin - 1
    ut = [n for n in mod.tree.body if isinstance(n, ast.Assign) and any(getattr(t, "id", None) == "_UnionType" for t in n.targets)]
    ut_ok = len(ut) == 1 and ast.unparse(ut[0].value) in ("getattr(types, 'UnionType', ())", 'getattr(types, "UnionType", ())', "types.UnionType")
    tbl = [n for n in mod.tree.body if isinstance(n, ast.Assign) and any(getattr(t, "id", None) == "origin_type_checkers" for t in n.targets) and isinstance(n.value, ast.Dict)]
    tbl_ok = len(tbl) == 1 and any(ast.unparse(k_) == "Union" and ast.unparse(v_) == "check_union" for k_, v_ in zip(tbl[0].value.keys, tbl[0].value.values))
    rebinds = [n for n in ast.walk(mod.tree) if isinstance(n, (ast.Assign, ast.AugAssign, ast.Delete)) and "origin_type_checkers[Union]" in ast.unparse(n)]
    obligations.append({"clause": "C08:union:check_type-routes-PEP-604-unions-(X|Y)-to-check_union-before-the-__origin__-dispatch", "kind": "vc", "pc": [], "path": [], "serves": ["C08"],
                        "meta": {"found_at": z3.StringVal(str(pep604)), "origin_at": z3.StringVal(str(idx_origin))}, "goal": z3.BoolVal(bool(before_ok and ut_ok))})
    obligations.append({"clause": "C08:union:the-dispatch-table-routes-typing.Union-to-check_union", "kind": "vc", "pc": [], "path": [], "serves": ["C08"], "meta": {}, "goal": z3.BoolVal(bool(tbl_ok and not rebinds))})
    obligations.append({"clause": "canary:tg_union-loop-assumptions-satisfiable", "kind": "canary", "pc": [n >= 0, 0 <= k, k < n, 0 <= j0, j0 < k, V(j0) == 1, V(k) == 0], "goal": z3.BoolVal(False), "path": [], "meta": {}})
    return {"unit": NAME, "functions": functions, "obligations": obligations, "paths": paths, "stats": {"exits": ",".join(sorted(set(exits)))},
            "assumptions": ["vendored check_type on ONE union member is an opaque callee with verdict accept / TypeError / other exception (its own contract is assumed; bounded stand-ins b08, b21)",
                            "a union's members are the sequence `__args__` (typing.Union and types.UnionType, T5)",
                            "get_type_name / qualified_name (message helpers) return strings and do not raise",
                            "the two routing clauses are syntactic obligations on the current text of check_type / origin_type_checkers (they go refuted on a rewrite of those two statements; b21 covers the same routing semantically)"]}
