"""Bounded stand-in for C07: on well-typed calls a jaxtyped function is indistinguishable from the original.

Every case is a generated piece of source text that is exec'd twice: once with `_DEC` = identity (the ORIGINAL, which is the
oracle the statement names) and once with `_DEC` = jaxtyped(typechecker=typeguard.typechecked | beartype.beartype).
Argument lists are built from the signature by an own binder (so that well-typed / ill-typed / non-binding is known by
construction); ill-typed single-argument lists are additionally required to be rejected by the bare typechecker applied to
the original (otherwise the checker itself is blind to them and the case is excluded).
"""
import asyncio
import functools
import inspect
import itertools
import json
import random
import sys
import time
import warnings

sys.dont_write_bytecode = True  # never write __pycache__ into /verif or the repo

try:
    import _common
except ImportError:  # imported as bounded.b07_transparency
    from bounded import _common

import numpy as np

PO, PK, VA, KO, VK = "po", "pk", "va", "ko", "vk"
COLLIDING = ["T0", "T1", "default0", "ret0", "ret", "args", "kwargs", "bound", "memos", "fn", "<own>"]
ORDINARY = ["a", "b", "c", "x"]
FNAMES = ["f", "g", "T0", "default0", "ret0", "wrapped_fn", "check_single_arg", "fn"]
ANNS = ["none", "int", "F"]


# ----------------------------------------------------------------------------------------------------------------------
# value specs: ("int", n) / ("F", shape) / ("obj", i) / ("str", s) / ("Fi", shape) -- materialised late, printable
# ----------------------------------------------------------------------------------------------------------------------
class Obj:
    def __init__(self, i):
        self.i = i

    def __repr__(self):
        return "Obj(%d)" % self.i


def materialise(spec):
    t = spec[0]
    if t == "int":
        return int(str(spec[1]))  # a fresh int object (large, so not interned)
    if t == "F":
        return np.zeros(tuple(spec[1]), dtype=np.float32)
    if t == "Fi":
        return np.zeros(tuple(spec[1]), dtype=np.int32)
    if t == "obj":
        return Obj(spec[1])
    if t == "str":
        return spec[1]
    raise AssertionError(spec)


def spec_src(spec):
    t = spec[0]
    if t == "int":
        return repr(spec[1])
    if t == "F":
        return "np.zeros(%r, dtype=np.float32)" % (tuple(spec[1]),)
    if t == "Fi":
        return "np.zeros(%r, dtype=np.int32)" % (tuple(spec[1]),)
    if t == "obj":
        return "object()"
    return repr(spec[1])


_counter = itertools.count(10**12 + 1)


def good_spec(ann):
    if ann == "int":
        return ("int", next(_counter))
    if ann == "F":
        return ("F", (3,))
    return ("obj", next(_counter) % 1000)


def bad_specs(ann):
    if ann == "int":
        return [("str", "not-an-int")]
    if ann == "F":
        return [("F", (2, 2)), ("Fi", (3,))]
    return []


# ----------------------------------------------------------------------------------------------------------------------
# signatures
# ----------------------------------------------------------------------------------------------------------------------
class Param:
    def __init__(self, name, kind, ann, default):
        self.name, self.kind, self.ann, self.default = name, kind, ann, default  # default: spec or None

    def key(self):
        return "%s%s" % (self.kind, "=" if self.default is not None else "")


class Sig:
    def __init__(self, fname, params, ret):
        self.fname, self.params, self.ret = fname, params, ret

    def shape(self):
        return ",".join(p.key() for p in self.params) or "-"

    def collisions(self):
        out = sorted({p.name for p in self.params if p.name in COLLIDING or p.name == self.fname})
        if self.fname in ("T0", "default0", "ret0", "wrapped_fn", "check_single_arg", "fn"):
            out.append("fname=" + self.fname)
        return out

    def of(self, kind):
        return [p for p in self.params if p.kind == kind]

    def header(self, first=None):
        """parameter list text; `first` = 'self'/'cls' is prepended as an ordinary leading parameter"""
        pieces = []

        def piece(p, star=""):
            s = star + p.name
            if p.ann != "none":
                s += ": _I" if p.ann == "int" else ": _F"
            if p.default is not None:
                s += (" = " if p.ann != "none" else "=") + "_D_" + p.name
            return s

        po, pk, va, ko, vk = (self.of(k) for k in (PO, PK, VA, KO, VK))
        lead = [first] if first else []
        if po:
            pieces += lead + [piece(p) for p in po] + ["/"]
            lead = []
        pieces += lead + [piece(p) for p in pk]
        if va:
            pieces.append(piece(va[0], "*"))
        elif ko:
            pieces.append("*")
        pieces += [piece(p) for p in ko]
        if vk:
            pieces.append(piece(vk[0], "**"))
        return ", ".join(pieces)

    def ret_src(self):
        return "" if self.ret == "none" else (" -> _I" if self.ret == "int" else " -> _F")

    def names_tuple(self, first=None):
        names = ([first] if first else []) + [p.name for p in self.params]
        return "(" + "".join(n + ", " for n in names) + ")"


def all_shapes(maxn=4):
    """every ordering-valid sequence of parameter kinds with defaults pattern, <= maxn parameters"""
    out = []
    for va in (0, 1):
        for vk in (0, 1):
            for npo in range(maxn + 1):
                for npk in range(maxn + 1):
                    for nko in range(maxn + 1):
                        if npo + npk + nko + va + vk > maxn:
                            continue
                        npos = npo + npk
                        for ndef in range(npos + 1):  # trailing positional defaults
                            for kodef in itertools.product((0, 1), repeat=nko):
                                kinds = [PO] * npo + [PK] * npk
                                defs = [0] * (npos - ndef) + [1] * ndef
                                seq = list(zip(kinds, defs))
                                if va:
                                    seq.append((VA, 0))
                                seq += [(KO, d) for d in kodef]
                                if vk:
                                    seq.append((VK, 0))
                                out.append(seq)
    return out


def make_sig(rng, shape, collide_p=0.5, fname=None, allow_ann=True):
    fname = fname or rng.choice(FNAMES)
    pool_c = [fname if n == "<own>" else n for n in COLLIDING]
    used, params = set(), []
    for kind, has_def in shape:
        for _ in range(50):
            name = rng.choice(pool_c) if rng.random() < collide_p else rng.choice(ORDINARY)
            if name not in used:
                break
        else:
            name = "p%d" % len(used)
        used.add(name)
        ann = rng.choice(ANNS) if allow_ann else "none"
        params.append(Param(name, kind, ann, good_spec(ann) if has_def else None))
    ret = rng.choice(ANNS) if allow_ann else "none"
    return Sig(fname, params, ret)


# ----------------------------------------------------------------------------------------------------------------------
# own binder: argument lists that bind / do not bind, by construction
# ----------------------------------------------------------------------------------------------------------------------
def valid_call(sig, rng, style):
    """-> (pos specs, kw specs {name: spec}, where {param name -> ('pos', i) / ('kw', key)}, extras info)"""
    pp = sig.of(PO) + sig.of(PK)
    va, vk = sig.of(VA), sig.of(VK)
    want_va_extras = bool(va) and (style == "max" or (style == "rand" and rng.random() < 0.5))
    omit = {}
    for p in sig.params:
        if p.default is not None:
            omit[p.name] = {"min": True, "max": False, "pokey": True}.get(style, rng.random() < 0.5)
    if want_va_extras:
        for p in pp:
            omit[p.name] = False
    first_omitted = len(pp)
    for i, p in enumerate(pp):
        if omit.get(p.name):
            first_omitted = i
            break
    # positional-only parameters after an omitted one cannot be passed at all
    for p in pp[first_omitted:]:
        if p.kind == PO:
            omit[p.name] = True
    npo_supplied = len([p for p in pp[:first_omitted] if p.kind == PO])
    if want_va_extras:
        cut = len(pp)
    elif style in ("min", "pokey"):
        cut = first_omitted
    elif style == "max":
        cut = npo_supplied
    else:
        cut = rng.randint(npo_supplied, first_omitted)
    pos, kw, where = [], {}, {}
    for i, p in enumerate(pp):
        if omit.get(p.name):
            continue
        spec = good_spec(p.ann)
        if i < cut:
            where[p.name] = ("pos", len(pos))
            pos.append(spec)
        else:
            assert p.kind == PK
            where[p.name] = ("kw", p.name)
            kw[p.name] = spec
    if want_va_extras:
        for j in range(2 if style == "max" else rng.randint(1, 2)):
            where["*%d" % j] = ("pos", len(pos))
            pos.append(good_spec(va[0].ann))
    for p in sig.of(KO):
        if omit.get(p.name):
            continue
        where[p.name] = ("kw", p.name)
        kw[p.name] = good_spec(p.ann)
    if vk and (style == "max" or (style == "rand" and rng.random() < 0.5)):
        taken = {p.name for p in sig.params if p.kind in (PK, KO)}
        keys = [k for k in ["zz", "ret0", "T0", "ret", "args", "kwargs", "memos", "bound", "self_", "return_"] +
                [p.name for p in sig.of(PO)] if k not in taken and k not in kw]
        keys = sorted(set(keys))
        rng.shuffle(keys)
        for j, k in enumerate(keys[:2]):
            where["**%d" % j] = ("kw", k)
            kw[k] = good_spec(vk[0].ann)
    omitted_po = {p.name for p in sig.of(PO) if omit.get(p.name)}
    if style == "pokey":
        # every omitted positional-only name is re-used as a **kwargs key: def f(a=1, /, **kw); f(a=5) binds natively
        for j, k in enumerate(sorted(omitted_po)):
            where["**po%d" % j] = ("kw", k)
            kw[k] = good_spec(vk[0].ann)
    info = {"omitted_posonly_name_as_kwargs_key": bool(omitted_po & set(kw))}
    return pos, kw, where, info


def ann_of(sig, pname):
    if pname.startswith("**"):
        return sig.of(VK)[0].ann
    if pname.startswith("*"):
        return sig.of(VA)[0].ann
    return [p.ann for p in sig.params if p.name == pname][0]


def ill_typed_variants(sig, pos, kw, where, rng):
    """-> list of (label, pos, kw, needs_checker_confirmation)"""
    out = []
    cands = [n for n in where if ann_of(sig, n) != "none"]
    rng.shuffle(cands)
    for n in cands[:2]:
        bad = rng.choice(bad_specs(ann_of(sig, n)))
        p2, k2 = list(pos), dict(kw)
        w = where[n]
        if w[0] == "pos":
            p2[w[1]] = bad
        else:
            k2[w[1]] = bad
        cls = "varargs" if n.startswith("*") and not n.startswith("**") else ("varkw" if n.startswith("**") else
                                                                            [p.kind for p in sig.params if p.name == n][0])
        out.append(("single:%s:%s" % (cls, ann_of(sig, n)), p2, k2, True))
    fs = [n for n in where if ann_of(sig, n) == "F"]
    if len(fs) >= 2:
        # every F is Float[ndarray, "a"]: two arguments of sizes 3 and 4 contradict each other (docs: axes are matched
        # up across all arguments)
        n = fs[-1]
        p2, k2 = list(pos), dict(kw)
        w = where[n]
        if w[0] == "pos":
            p2[w[1]] = ("F", (4,))
        else:
            k2[w[1]] = ("F", (4,))
        out.append(("cross-argument-axis", p2, k2, False))
    return out


def non_binding_variants(sig, pos, kw, where):
    out = []
    pp = sig.of(PO) + sig.of(PK)
    required = [p for p in sig.params if p.default is None and p.kind in (PO, PK, KO)]
    if required:
        p = required[0]
        w = where[p.name]
        if w[0] == "pos":
            out.append(("missing-required", pos[:w[1]], {k: v for k, v in kw.items()
                                                         if k not in [q.name for q in pp[pp.index(p):]]}))
        else:
            out.append(("missing-required", list(pos), {k: v for k, v in kw.items() if k != p.name}))
    if not sig.of(VA):
        n_pos_max = len(pp)
        extra = [("obj", 1)] * (n_pos_max - len(pos) + 1)
        out.append(("too-many-positional", list(pos) + extra, {k: v for k, v in kw.items() if k not in [p.name for p in pp]}))
    if not sig.of(VK):
        out.append(("unexpected-keyword", list(pos), dict(kw, zz_unknown=("obj", 2))))
    for p in sig.of(PK):
        w = where.get(p.name)
        if w and w[0] == "pos":
            out.append(("duplicate-argument", list(pos), dict(kw, **{p.name: good_spec(p.ann)})))
            break
    for p in sig.of(PO):
        if p.default is None and not sig.of(VK):
            w = where[p.name]
            out.append(("positional-only-by-keyword", pos[:w[1]], dict({k: v for k, v in kw.items()}, **{p.name: good_spec(p.ann)})))
            break
    return out


# ----------------------------------------------------------------------------------------------------------------------
# source text for a case
# ----------------------------------------------------------------------------------------------------------------------
def case_source(sig, ckind, dkind):
    """returns (source, how to reach the callable). `_DEC` is the decorator under test (identity for the original)."""
    body = "    \"doc of %s\"\n    _LOG.append(%s)\n    return _OUT()\n"
    f = sig.fname
    if ckind == "lambda":
        assert dkind == "function"
        return "%s = _DEC(lambda %s: (_LOG.append(%s), _OUT())[1])\n" % (f, sig.header(), sig.names_tuple()), f
    if ckind == "partial":
        # the first parameter of the underlying def is pre-bound by position
        return ("def _inner(%s)%s:\n" % (sig.header("_pre"), sig.ret_src()) + body % ("_inner", sig.names_tuple()) +
                "%s = _DEC(functools.partial(_inner, 77))\n" % f), f
    kw = "async def" if ckind == "async" else "def"
    if dkind == "function":
        return "@_DEC\n%s %s(%s)%s:\n" % (kw, f, sig.header(), sig.ret_src()) + body % (f, sig.names_tuple()), f
    first = {"method": "self", "classmethod": "cls", "staticmethod": None}[dkind]
    deco = {"method": "", "classmethod": "    @classmethod\n", "staticmethod": "    @staticmethod\n"}[dkind]
    src = "class C:\n    @_DEC\n%s    %s %s(%s)%s:\n" % (deco, kw, f, sig.header(first), sig.ret_src())
    src += "".join("    " + line + "\n" for line in (body % (f, sig.names_tuple(first))).splitlines())
    return src, "C." + f


PRELUDE = ("import functools, asyncio\nimport numpy as np, typeguard, beartype, jaxtyping\nfrom jaxtyping import Float, jaxtyped\n"
           "_I = int; _F = Float[np.ndarray, \"a\"]; _LOG = []\n")


class Bench:
    """one generated case: original namespace + decorated namespace per checker"""

    def __init__(self, jt, sig, ckind, dkind, body_mode, shared):
        self.jt, self.sig, self.ckind, self.dkind, self.body_mode = jt, sig, ckind, dkind, body_mode
        self.src, self.access = case_source(sig, ckind, dkind)
        self.log = []
        self.result = materialise(good_spec(sig.ret))
        self.exc = ValueError("raised by the body")
        self.shared = shared
        self.defaults = {"_D_" + p.name: materialise(p.default) for p in sig.params if p.default is not None}

    def _out(self):
        if self.body_mode == "raise":
            raise self.exc
        return self.result

    def namespace(self, dec):
        ns = {"__name__": "b07_generated", "_DEC": dec, "_LOG": self.log, "_OUT": self._out, "_I": int,
              "_F": self.shared["F"], "functools": functools}
        ns.update(self.defaults)
        exec(compile(self.src, "<b07 case>", "exec"), ns)
        return ns

    def reach(self, ns):
        """-> (callable to call, raw descriptor-or-function object)"""
        if self.dkind == "function":
            return ns[self.sig.fname], ns[self.sig.fname]
        C = ns["C"]
        raw = C.__dict__[self.sig.fname]
        if self.dkind == "method":
            inst = C()
            return getattr(inst, self.sig.fname), raw
        return getattr(C, self.sig.fname), raw

    def snippet(self, tcname, call_src, note):
        dec = "jaxtyped(typechecker=%s)" % {"tg": "typeguard.typechecked", "bt": "beartype.beartype"}[tcname]
        lines = [PRELUDE.rstrip(), "class _Res: pass", "_RES = %s" % spec_src(good_spec(self.sig.ret)) if self.sig.ret != "none" else "_RES = _Res()"]
        if self.body_mode == "raise":
            lines.append("def _OUT(): raise ValueError('raised by the body')")
        else:
            lines.append("def _OUT(): return _RES")
        for p in self.sig.params:
            if p.default is not None:
                lines.append("_D_%s = %s" % (p.name, spec_src(p.default)))
        lines.append("_DEC = %s" % dec)
        lines.append(self.src.rstrip())
        if call_src:
            target = self.access if self.dkind != "method" else "C()." + self.sig.fname
            call = "%s(%s)" % (target, call_src)
            if self.ckind == "async":
                call = "asyncio.run(%s)" % call
            lines.append("try:\n    out = %s\n    print('returned the original result object:', out is _RES, '; body ran', len(_LOG), 'time(s)')" % call)
            lines.append("except BaseException as e:\n    print('raised', type(e).__name__, str(e)[:200], '; body ran', len(_LOG), 'time(s)')")
            lines.append("# %s" % note)
        return "\n".join(lines)


def call_src(pos, kw):
    parts = [spec_src(s) for s in pos]
    parts += ["%s=%s" % (k, spec_src(v)) for k, v in kw.items()]
    return ", ".join(parts)


def do_call(fn, pos_objs, kw_objs, is_async):
    """-> ('ret', obj) / ('exc', exception object)"""
    try:
        out = fn(*pos_objs, **kw_objs)
        if is_async:
            if not inspect.iscoroutine(out):
                return ("ret-not-a-coroutine", out)
            out = asyncio.run(out)
        return ("ret", out)
    except BaseException as e:  # noqa: BLE001 - results, not crashes
        return ("exc", e)


def same_record(a, b, selfs):
    """two log records (tuples of received parameter values) hold the very same objects"""
    if len(a) != len(b):
        return False
    for x, y in zip(a, b):
        if any(x is s for s in selfs) and any(y is s for s in selfs):
            continue
        if isinstance(x, tuple) and isinstance(y, tuple):
            if len(x) != len(y) or any(p is not q for p, q in zip(x, y)):
                return False
        elif isinstance(x, dict) and isinstance(y, dict):
            if list(x) != list(y) or any(x[k] is not y[k] for k in x):
                return False
        elif x is not y:
            return False
    return True


def describe(v):
    if isinstance(v, tuple) and len(v) == 2 and isinstance(v[0], str) and v[0] in ("ret", "exc", "ret-not-a-coroutine"):
        return "%s:%s" % (v[0], (type(v[1]).__name__ + ":" + str(v[1])[:120]) if v[0] == "exc" else type(v[1]).__name__)
    return repr(v)[:200]


# ----------------------------------------------------------------------------------------------------------------------
def run_case(jt, tally, seen, rng, sig, ckind, dkind, checkers, n_rand_calls, stats):
    shared = {"F": jt.Float[np.ndarray, "a"]}
    base_id = "%s:%s" % (ckind, dkind)
    feat = "sig=%s|collide=%s" % (sig.shape(), "+".join(sig.collisions()) or "-")

    def fail(cid, clause, bench, tcname, call, expected, actual, note=""):
        stats["failing_evaluations"] += 1
        if cid in seen:
            seen[cid] += 1
            return
        seen[cid] = 1
        tally.fail(cid, clause, input={"source": bench.src, "checker": tcname, "call": call, "body": bench.body_mode},
                   expected=expected, actual=actual, snippet=bench.snippet(tcname, call, note or ("expected " + str(expected))))

    for body_mode in ("return", "raise"):
        bench = Bench(jt, sig, ckind, dkind, body_mode, shared)
        try:
            ns0 = bench.namespace(lambda f: f)
        except SyntaxError:
            stats["skipped_invalid_source"] += 1
            return
        f0, raw0 = bench.reach(ns0)
        for tcname, tc in checkers:
            dec = jt.jaxtyped(typechecker=tc)
            key0 = (bench.src, tcname, body_mode)
            # ---- decoration ------------------------------------------------------------------------------------------
            try:
                with warnings.catch_warnings():
                    warnings.simplefilter("ignore")
                    ns1 = bench.namespace(dec)
            except BaseException as e:  # noqa: BLE001
                tally.case(key0 + ("decorate",))
                if ckind in ("lambda", "partial"):
                    cid = "F5:nonidentifier-name:%s:%s" % (ckind, tcname)
                else:
                    cid = "C07:%s:%s:decoration-raises:%s" % (base_id, tcname, feat)
                fail(cid, "decoration-raises:" + type(e).__name__, bench, tcname, "", "decoration succeeds",
                     "%s: %s" % (type(e).__name__, str(e)[:150]), note="decoration itself raises")
                continue
            f1, raw1 = bench.reach(ns1)
            tally.case(key0 + ("decorate",))
            if body_mode == "return":
                check_attributes(tally, fail, bench, tcname, base_id, feat, raw0, raw1, f0, f1, key0)
            # the bare checker on the original, used only to confirm that an ill-typed list is visible to the checker
            try:
                with warnings.catch_warnings():
                    warnings.simplefilter("ignore")
                    nsc = bench.namespace(tc) if ckind not in ("lambda", "partial") else None
                fc = bench.reach(nsc)[0] if nsc else None
            except BaseException:  # noqa: BLE001
                fc = None
            selfs = [getattr(f, "__self__", None) for f in (f0, f1, fc) if getattr(f, "__self__", None) is not None]
            styles = ["min", "max"] + ["rand"] * n_rand_calls
            if sig.of(VK) and any(p.default is not None for p in sig.of(PO)):
                styles.append("pokey")
            for si, style in enumerate(styles):
                pos, kw, where, info = valid_call(sig, rng, style)
                csrc = call_src(pos, kw)
                # ---- well-typed ------------------------------------------------------------------------------------
                pos_o = [materialise(s) for s in pos]
                kw_o = {k: materialise(s) for k, s in kw.items()}
                del bench.log[:]
                r0 = do_call(f0, pos_o, kw_o, ckind == "async")
                log0 = list(bench.log)
                if len(log0) != 1:
                    raise AssertionError("harness: the original did not run once on a call built to bind: %s\n%s(%s)" % (r0, bench.src, csrc))
                del bench.log[:]
                r1 = do_call(f1, pos_o, kw_o, ckind == "async")
                log1 = list(bench.log)
                tally.case(key0 + ("well", style, si, csrc), sample={"source": bench.src, "checker": tcname, "call": csrc, "body": body_mode})
                stats["well_typed"] += 1
                is_f6 = ckind == "async" and sig.ret != "none"

                violated = []
                if len(log1) != 1:
                    violated.append(("body-runs-exactly-once", 1, len(log1)))
                elif not same_record(log0[0], log1[0], selfs):
                    violated.append(("same-argument-objects", describe(log0[0]), describe(log1[0])))
                if r0[0] != r1[0] or r0[1] is not r1[1]:
                    violated.append(("same-result-or-exception-object", describe(r0), describe(r1)))
                if violated:
                    clauses = "+".join(v[0] for v in violated)
                    if is_f6:
                        cid = "F6:async-return:%s:%s" % (sig.ret, tcname)
                    elif info["omitted_posonly_name_as_kwargs_key"] and r1[0] == "exc" and type(r1[1]) is TypeError:
                        # def f(a=1, /, **kw): f(a=5) binds natively (kw == {'a': 5}); an input class of its own
                        cid = "C07:omitted-posonly-name-as-kwargs-key:%s" % tcname
                    else:
                        cid = "C07:%s:%s:%s:%s" % (base_id, tcname, violated[0][0], feat)
                    fail(cid, clauses, bench, tcname, csrc, [v[1] for v in violated], [v[2] for v in violated])
                if body_mode == "raise":
                    continue
                # ---- ill-typed -------------------------------------------------------------------------------------
                if ckind not in ("lambda", "partial") and si < 3:
                    for label, p2, k2, confirm in ill_typed_variants(sig, pos, kw, where, rng):
                        p2o = [materialise(s) for s in p2]
                        k2o = {k: materialise(s) for k, s in k2.items()}
                        if confirm:
                            if fc is None:
                                continue
                            del bench.log[:]
                            rc = do_call(fc, p2o, k2o, ckind == "async")
                            if rc[0] != "exc" or bench.log:
                                stats["excluded_checker_blind"] += 1
                                continue
                        del bench.log[:]
                        r = do_call(f1, p2o, k2o, ckind == "async")
                        n = len(bench.log)
                        c2 = call_src(p2, k2)
                        tally.case(key0 + ("ill", label, c2))
                        stats["ill_typed"] += 1
                        if n != 0:
                            fail("C07:%s:%s:ill-typed-body-not-run:%s:%s" % (base_id, tcname, label, feat), "ill-typed-body-not-run",
                                 bench, tcname, c2, "body runs 0 times and the call raises", "body ran %d time(s); %s" % (n, describe(r)))
                        elif r[0] != "exc" or not isinstance(r[1], Exception):
                            fail("C07:%s:%s:ill-typed-raises:%s:%s" % (base_id, tcname, label, feat), "ill-typed-raises",
                                 bench, tcname, c2, "an exception", describe(r))
                # ---- non-binding -----------------------------------------------------------------------------------
                if si < 2:
                    for label, p2, k2 in non_binding_variants(sig, pos, kw, where):
                        p2o = [materialise(s) for s in p2]
                        k2o = {k: materialise(s) for k, s in k2.items()}
                        del bench.log[:]
                        rr0 = do_call(f0, p2o, k2o, ckind == "async")
                        if rr0[0] != "exc" or type(rr0[1]) is not TypeError or bench.log:
                            stats["excluded_binds_after_all"] += 1
                            continue
                        del bench.log[:]
                        rr1 = do_call(f1, p2o, k2o, ckind == "async")
                        n = len(bench.log)
                        c2 = call_src(p2, k2)
                        tally.case(key0 + ("nonbinding", label, c2))
                        stats["non_binding"] += 1
                        if n != 0 or rr1[0] != "exc" or type(rr1[1]) is not TypeError:
                            fail("C07:%s:%s:non-binding-plain-TypeError:%s:%s" % (base_id, tcname, label, feat),
                                 "non-binding-plain-TypeError", bench, tcname, c2, "TypeError (exact class), body not run",
                                 "%s; body ran %d time(s)" % (describe(rr1), n))


def check_attributes(tally, fail, bench, tcname, base_id, feat, raw0, raw1, f0, f1, key0):
    missing = object()
    tally.case(key0 + ("attributes",))
    kind_ok = True
    for cls in (classmethod, staticmethod, property):
        if isinstance(raw0, cls) != isinstance(raw1, cls):
            kind_ok = False
    if inspect.isfunction(raw0) and not inspect.isfunction(raw1):
        kind_ok = False
    if not kind_ok:
        fail("C07:%s:%s:descriptor-kind" % (base_id, tcname), "descriptor-kind", bench, tcname, "", type(raw0).__name__, type(raw1).__name__)
    u0 = getattr(raw0, "__func__", raw0)
    u1 = getattr(raw1, "__func__", raw1)
    for attr in ("__name__", "__qualname__", "__doc__", "__module__"):
        a0 = getattr(u0, attr, missing)
        if a0 is missing:
            continue  # statement silent when the original has no such attribute (functools.partial)
        a1 = getattr(u1, attr, missing)
        if a1 is missing or a0 != a1:
            fail("C07:%s:%s:keeps%s" % (base_id, tcname, attr), "keeps" + attr, bench, tcname, "", a0,
                 "<missing>" if a1 is missing else a1)
    try:
        s0 = inspect.signature(f0)
    except (TypeError, ValueError):
        return
    try:
        s1 = inspect.signature(f1)
        same = sig_identical(s0, s1)
    except BaseException as e:  # noqa: BLE001
        s1, same = "%s: %s" % (type(e).__name__, e), False
    if not same:
        fail("C07:%s:%s:keeps-signature:%s" % (base_id, tcname, feat), "keeps-signature", bench, tcname, "", str(s0), str(s1))


def sig_identical(s0, s1):
    p0, p1 = list(s0.parameters.values()), list(s1.parameters.values())
    if len(p0) != len(p1) or s0.return_annotation is not s1.return_annotation:
        return False
    return all(a.name == b.name and a.kind == b.kind and a.default is b.default and a.annotation is b.annotation for a, b in zip(p0, p1))


def property_cases(jt, tally, seen, checkers, stats):
    """getter / setter / deleter of a jaxtyped property"""
    F = jt.Float[np.ndarray, "a"]
    for tcname, tc in checkers:
        for ann, good, bad in (("int", ("int", 10**12 + 5), ("str", "no")), ("F", ("F", (3,)), ("F", (2, 2))), ("none", ("obj", 1), None)):
            src = ("class C:\n    def _get(self)%s:\n        \"getter doc\"\n        _LOG.append(('get', self))\n        return _OUT()\n"
                   "    def _set(self, value%s):\n        _LOG.append(('set', self, value))\n"
                   "    def _del(self):\n        _LOG.append(('del', self))\n"
                   "    p = _DEC(property(_get, _set, _del))\n") % ({"int": " -> _I", "F": " -> _F", "none": ""}[ann],
                                                                  {"int": ": _I", "F": ": _F", "none": ""}[ann])
            log = []
            res = materialise(good)
            nss = []
            for dec in (lambda f: f, jt.jaxtyped(typechecker=tc)):
                ns = {"__name__": "b07_generated", "_DEC": dec, "_LOG": log, "_OUT": lambda: res, "_I": int, "_F": F}
                exec(src, ns)
                nss.append(ns)
            C0, C1 = nss[0]["C"], nss[1]["C"]
            snippet = (PRELUDE + "_RES = %s\ndef _OUT(): return _RES\n_DEC = jaxtyped(typechecker=%s)\n" % (
                spec_src(good), {"tg": "typeguard.typechecked", "bt": "beartype.beartype"}[tcname]) + src +
                "c = C(); print(c.p is _RES, _LOG); v = %s; c.p = v; print(_LOG[-1][-1] is v); del c.p; print(type(C.__dict__['p']))" % spec_src(good))

            def fail(clause, expected, actual):
                cid = "C07:def:property:%s:%s:%s" % (tcname, clause, ann)
                stats["failing_evaluations"] += 1
                if cid in seen:
                    seen[cid] += 1
                    return
                seen[cid] = 1
                tally.fail(cid, clause, input={"source": src, "checker": tcname}, expected=expected, actual=actual, snippet=snippet)

            tally.case(("property", tcname, ann, "kind"))
            if not isinstance(C1.__dict__["p"], property):
                fail("descriptor-kind", "property", type(C1.__dict__["p"]).__name__)
                continue
            p0, p1 = C0.__dict__["p"], C1.__dict__["p"]
            for acc in ("fget", "fset", "fdel"):
                for attr in ("__name__", "__qualname__", "__doc__", "__module__"):
                    if getattr(getattr(p0, acc), attr) != getattr(getattr(p1, acc), attr, None):
                        fail("keeps%s" % attr, getattr(getattr(p0, acc), attr), getattr(getattr(p1, acc), attr, None))
            if p0.__doc__ != p1.__doc__:
                fail("keeps__doc__", p0.__doc__, p1.__doc__)
            c = C1()
            del log[:]
            tally.case(("property", tcname, ann, "get"))
            try:
                out = ("ret", c.p)
            except BaseException as e:  # noqa: BLE001
                out = ("exc", e)
            if out[0] != "ret" or out[1] is not res or len(log) != 1 or log[0][1] is not c:
                fail("getter-transparent", "the getter's result object, getter ran once with the instance", "%s; log=%r" % (describe(out), log))
            del log[:]
            v = materialise(good)
            tally.case(("property", tcname, ann, "set"))
            try:
                c.p = v
                out = ("ret", None)
            except BaseException as e:  # noqa: BLE001
                out = ("exc", e)
            if out[0] != "ret" or len(log) != 1 or log[0][2] is not v or log[0][1] is not c:
                fail("setter-transparent", "setter ran once with the very same value object", "%s; log=%r" % (describe(out), log))
            if bad is not None:
                del log[:]
                tally.case(("property", tcname, ann, "set-ill-typed"))
                try:
                    c.p = materialise(bad)
                    out = ("ret", None)
                except BaseException as e:  # noqa: BLE001
                    out = ("exc", e)
                if log or out[0] != "exc":
                    fail("ill-typed-body-not-run", "setter not run, exception raised", "%s; log=%r" % (describe(out), log))
            del log[:]
            tally.case(("property", tcname, ann, "del"))
            try:
                del c.p
                out = ("ret", None)
            except BaseException as e:  # noqa: BLE001
                out = ("exc", e)
            if out[0] != "ret" or len(log) != 1 or log[0][1] is not c:
                fail("deleter-transparent", "deleter ran once", "%s; log=%r" % (describe(out), log))



def _scrub(x):
    """remove process-dependent addresses so that the output is identical for identical seeds"""
    import re
    if isinstance(x, str):
        return re.sub(r"0x[0-9a-fA-F]+", "0x...", x)
    if isinstance(x, list):
        return [_scrub(v) for v in x]
    if isinstance(x, tuple):
        return [_scrub(v) for v in x]
    if isinstance(x, dict):
        return {k: _scrub(v) for k, v in x.items()}
    return x


def main():
    a = _common.setup(__doc__)
    import beartype
    import typeguard
    import jaxtyping as jt
    warnings.simplefilter("ignore", RuntimeWarning)  # 'coroutine was never awaited' when the code under test drops one
    tally = _common.Tally(max_failures=60)
    rng = random.Random(a.seed)
    checkers = [("tg", typeguard.typechecked), ("bt", beartype.beartype)]
    stats = dict.fromkeys(["well_typed", "ill_typed", "non_binding", "excluded_checker_blind", "excluded_binds_after_all",
                           "skipped_invalid_source", "failing_evaluations"], 0)
    seen = {}
    shapes = all_shapes(4)
    quick = a.tier == "quick"
    reps = 1 if quick else 6
    n_rand_calls = 1 if quick else 3
    budget = 30 if quick else 540
    n_sigs = 0
    # (1) every kinds-and-defaults shape as a plain def, random names (half of them colliding) and annotations
    plan = []
    for rep in range(reps):
        for shape in shapes:
            plan.append((shape, "def", "function"))
    # (2) the other callable kinds and descriptor kinds on a seeded sample of the shapes
    per = 25 if quick else 200
    for ckind, dkind in (("def", "method"), ("def", "classmethod"), ("def", "staticmethod"), ("async", "function"),
                         ("async", "method"), ("lambda", "function")):  # functools.partial: not a callable kind the statement names
        for shape in rng.sample(shapes, min(per, len(shapes))):
            plan.append((shape, ckind, dkind))
    # (3) every colliding name once in every parameter kind, with the function named like a generated identifier
    for name in COLLIDING:
        for kind in (PO, PK, VA, KO, VK):
            for fname in (("f", "T0") if quick else ("f", "T0", "ret0", "default0")):
                plan.append(([(kind, 0)], "def", "function", name if name != "<own>" else fname, fname))
    rng.shuffle(plan)
    done = 0
    for item in plan:
        if time.time() - a.t0 > budget:
            break
        if len(item) == 5:
            shape, ckind, dkind, pname, fname = item
            ann = rng.choice(ANNS)
            sig = Sig(fname, [Param(pname, shape[0][0], ann, None)], rng.choice(ANNS))
            # second parameter with a default, so that default0/T1 are generated too
            if shape[0][0] in (PO, PK):
                sig.params.append(Param("q", shape[0][0], "int", good_spec("int")))
            elif shape[0][0] == KO:
                sig.params.append(Param("q", KO, "int", good_spec("int")))
        else:
            shape, ckind, dkind = item
            sig = make_sig(rng, shape, allow_ann=(ckind != "lambda"))
        run_case(jt, tally, seen, rng, sig, ckind, dkind, checkers, n_rand_calls, stats)
        n_sigs += 1
        done += 1
    property_cases(jt, tally, seen, checkers, stats)
    for f in tally.failures:
        f["occurrences"] = seen.get(f["case"], 1)
    tally.failures = _scrub(tally.failures)
    tally.samples = _scrub(tally.samples)
    _common.emit(
        tally,
        bound=("signatures with <= 4 parameters: all %d orderings of the five parameter kinds x default patterns (positional defaults "
               "trailing, keyword-only any), parameter names from %s and (with probability 1/2 each) from the wrapper's internal names %s "
               "and the function's own name, function names %s, annotations int / Float[np.ndarray,'a'] / none on parameters and result; "
               "callable kinds def (every shape x %d), async def (run with asyncio.run), lambda (no annotations), functools.partial of a def "
               "(first parameter pre-bound); descriptor kinds function, method, classmethod, staticmethod (seeded samples of %d shapes each), "
               "property get/set/delete x 3 annotations; both typeguard.typechecked and beartype.beartype; per signature: argument lists "
               "built by an own binder - minimal (defaults omitted, positional), maximal (keywords, extra *args, extra **kwargs incl. keys "
               "ret0/T0/args/kwargs/positional-only names), %d random, and (where there is a defaulted positional-only parameter and **kwargs) "
               "one that omits it and passes its name as a **kwargs key; body returning or raising; ill-typed: one annotated argument "
               "replaced by a str / wrong-rank / wrong-dtype array (kept only if the bare checker on the original rejects it too), or two "
               "'a' axes of sizes 3 and 4; non-binding: missing required, too many positional, unexpected keyword, duplicate, "
               "positional-only by keyword (kept only if the original raises TypeError). %d of %d planned signatures done within the time "
               "budget. Ill-typed default values and old-style double decoration are not enumerated (statement silent / C05,C19)."
               % (len(shapes), ORDINARY, COLLIDING[:-1], FNAMES, reps, per, n_rand_calls, done, len(plan))),
        rule=("oracle = the same source exec'd with an identity decorator, called with the very same argument objects; compared: body "
              "run count, identity of every received argument object (incl. *args items, **kwargs values, defaults), identity of result / "
              "raised exception, __name__/__qualname__/__doc__/__module__, inspect.signature (names, kinds, default and annotation "
              "identity), descriptor class in the class __dict__; ill-typed -> body runs 0 times and an Exception is raised; non-binding "
              "-> exact class TypeError, body not run. A case is one (source, checker, body mode, argument list); distinct = distinct text."),
        exhaustive=False,
        stats=stats,
        seconds=round(time.time() - a.t0, 1),
    )


if __name__ == "__main__":
    main()
