"""Bounded stand-in for C16: '?' axes are per-leaf-position axes of exactly one structured PyTree.

Oracle (written from the statement, no jaxtyping / jax.tree_util code):
  * a tiny annotation model  ("arr", dims) | ("int",) | ("union", ..) | ("tuple", ..) | ("pt", leaf, structure-name-or-None)
    from which the REAL annotation is built through its source text;
  * a static rule: every '?' axis must be enclosed by exactly ONE structured PyTree, otherwise AnnotationError
    (0 = "outside a structured PyTree", >=2 = "beneath two nested structured PyTrees");
  * a dynamic matcher with an axis environment in which a '?name' axis is keyed by (structure name, leaf position, name)
    and a plain axis by its name alone - so same position/same structure name must agree, different positions are
    unconstrained and '?n' never meets a plain 'n';
  * an own tree algebra (tuple / list / dict with sorted keys / None) for leaf discovery and structure equality.

Run: PYTHONPATH=<repo>:/verif /venv/bin/python bounded/b16_treepath.py --tier quick|thorough --seed N --repo <repo>
"""
import itertools
import os
import random
import sys
import time
import typing  # noqa: F401  (used by eval of annotation source)

sys.path.insert(0, os.path.dirname(os.path.abspath(__file__)))
import _common  # noqa: E402
import numpy as np  # noqa: E402


# --------------------------------------------------------------------------------------------
# annotation model
# --------------------------------------------------------------------------------------------
def ARR(dims):
    return ("arr", dims)


INT = ("int",)


def UNION(*alts):
    return ("union",) + alts


def TUPLE(*elts):
    return ("tuple",) + elts


def PT(leaf, name=None):
    return ("pt", leaf, name)


def ann_src(a):
    if a[0] == "arr":
        return f'Float[np.ndarray, "{a[1]}"]'
    if a[0] == "int":
        return "int"
    if a[0] == "union":
        return "typing.Union[" + ", ".join(ann_src(x) for x in a[1:]) + "]"
    if a[0] == "tuple":
        return "tuple[" + ", ".join(ann_src(x) for x in a[1:]) + "]"
    if a[2] is None:
        return f"PyTree[{ann_src(a[1])}]"
    return f'PyTree[{ann_src(a[1])}, "{a[2]}"]'


def question_depths(a, depth=0):
    """For every '?' axis in the annotation: the number of enclosing STRUCTURED PyTrees."""
    if a[0] == "arr":
        return [depth for tok in a[1].split() if "?" in tok]
    if a[0] == "int":
        return []
    if a[0] in ("union", "tuple"):
        return [d for x in a[1:] for d in question_depths(x, depth)]
    return question_depths(a[1], depth + (1 if a[2] is not None else 0))


def has_structureless_inner(a, inside_structured=False):
    """A structure-less PyTree somewhere inside the leaf type of a structured PyTree (the F8 family)."""
    if a[0] in ("arr", "int"):
        return False
    if a[0] in ("union", "tuple"):
        return any(has_structureless_inner(x, inside_structured) for x in a[1:])
    if a[2] is None and inside_structured and question_depths(a[1]):
        return True
    return has_structureless_inner(a[1], inside_structured or a[2] is not None)


# --------------------------------------------------------------------------------------------
# own tree algebra
# --------------------------------------------------------------------------------------------
def node_children(x):
    if x is None:
        return []
    if type(x) is tuple:
        return list(x)
    if type(x) is list:
        return list(x)
    if type(x) is dict:
        return [x[k] for k in sorted(x)]
    return None


def flatten(x, is_leaf):
    """(leaves, structure) top-down; a sub-tree for which is_leaf holds is a leaf."""
    if is_leaf(x):
        return [x], "*"
    kids = node_children(x)
    if kids is None:
        return [x], "*"
    leaves, structs = [], []
    for k in kids:
        l, s = flatten(k, is_leaf)
        leaves += l
        structs.append(s)
    if x is None:
        return [], "None"
    tag = {tuple: "tuple", list: "list", dict: "dict"}[type(x)]
    keys = tuple(sorted(x)) if type(x) is dict else None
    return leaves, (tag, keys, tuple(structs))


# --------------------------------------------------------------------------------------------
# dynamic matcher
# --------------------------------------------------------------------------------------------
def is_float_array(v):
    return isinstance(v, np.ndarray) and v.dtype.kind == "f"


def typewise(a, v):
    """v matches annotation a when axis sizes are ignored (used for leaf discovery)."""
    if a[0] == "arr":
        return is_float_array(v)
    if a[0] == "int":
        return isinstance(v, int)
    if a[0] == "union":
        return any(typewise(x, v) for x in a[1:])
    if a[0] == "tuple":
        return isinstance(v, tuple) and len(v) == len(a) - 1 and all(typewise(x, e) for x, e in zip(a[1:], v))
    if v is None:
        return True
    leaves, _ = flatten(v, lambda u: typewise(a[1], u))
    return all(typewise(a[1], u) for u in leaves)


def match(a, v, env, label):
    """Full match; env is updated only on success.  label = (structure name, leaf position) of the enclosing structured PyTree."""
    trial = dict(env)
    if _match(a, v, trial, label):
        env.clear()
        env.update(trial)
        return True
    return False


def _match(a, v, env, label):
    if a[0] == "int":
        return isinstance(v, int)
    if a[0] == "union":
        for x in a[1:]:
            t = dict(env)
            if _match(x, v, t, label):
                env.clear()
                env.update(t)
                return True
        return False
    if a[0] == "tuple":
        return isinstance(v, tuple) and len(v) == len(a) - 1 and all(_match(x, e, env, label) for x, e in zip(a[1:], v))
    if a[0] == "pt":
        assert a[2] is None  # structured PyTrees only occur as whole parameter annotations in the dynamic part
        if v is None:
            return True
        leaves, _ = flatten(v, lambda u: typewise(a[1], u))
        return all(_match(a[1], u, env, label) for u in leaves)
    # array
    if not is_float_array(v):
        return False
    toks = a[1].split()
    var = [i for i, t in enumerate(toks) if "*" in t]
    assert len(var) <= 1
    shape = tuple(v.shape)
    if var:
        i = var[0]
        n_after = len(toks) - i - 1
        if len(shape) < len(toks) - 1:
            return False
        pieces = [(t, s) for t, s in zip(toks[:i], shape[:i])]
        pieces.append((toks[i], shape[i:len(shape) - n_after]))
        pieces += [(t, s) for t, s in zip(toks[i + 1:], shape[len(shape) - n_after:])]
    else:
        if len(shape) != len(toks):
            return False
        pieces = list(zip(toks, shape))
    for tok, val in pieces:
        name = tok.replace("*", "").replace("?", "")
        key = ("?", label, "*" in tok, name) if "?" in tok else ("plain", "*" in tok, name)
        if "?" in tok:
            assert label is not None
        if key in env and env[key] != val:
            return False
        env[key] = val
    return True


def check_param(a, v, env, structs):
    """One parameter / one isinstance check.  a is either PT(leaf, name) with a structure name, or a plain annotation without '?'."""
    if a[0] == "pt" and a[2] is not None:
        if v is None:
            return True
        leaves, st = flatten(v, lambda u: typewise(a[1], u))
        if a[2] in structs and structs[a[2]] != st:
            return False
        trial = dict(env)
        for pos, leaf in enumerate(leaves):
            if not match(a[1], leaf, trial, (a[2], pos)):
                return False
        env.clear()
        env.update(trial)
        structs.setdefault(a[2], st)
        return True
    return match(a, v, env, None)


def oracle_sequence(params):
    """params: list of (annotation model, value).  Returns the list of per-step verdicts when every step is an isinstance in one context."""
    env, structs = {}, {}
    return [check_param(a, v, env, structs) for a, v in params]


def oracle_call(params):
    return "ok" if all(oracle_sequence(params)) else "TypeCheckError"


# --------------------------------------------------------------------------------------------
# real side
# --------------------------------------------------------------------------------------------
_NS = {}


def real_ann(a):
    src = ann_src(a)
    if src not in _NS:
        from jaxtyping import Float, PyTree

        _NS[src] = eval(src, {"typing": typing, "np": np, "Float": Float, "PyTree": PyTree})
    return _NS[src]


_FN = {}


def real_fn(anns, tc_name):
    """A jaxtyped(typechecker=...) function with one parameter per annotation (p0, p1, ...)."""
    key = (tuple(ann_src(a) for a in anns), tc_name)
    if key not in _FN:
        import beartype
        import typeguard
        from jaxtyping import jaxtyped

        tc = {"typeguard": typeguard.typechecked, "beartype": beartype.beartype}[tc_name]
        ns = {f"A{i}": real_ann(a) for i, a in enumerate(anns)}
        ns.update(jaxtyped=jaxtyped, tc=tc)
        src = "@jaxtyped(typechecker=tc)\ndef f(" + ", ".join(f"p{i}: A{i}" for i in range(len(anns))) + "):\n    pass\n"
        exec(src, ns)
        _FN[key] = ns["f"]
    return _FN[key]


def classify(e):
    from jaxtyping import AnnotationError, TypeCheckError

    if isinstance(e, AnnotationError):
        return "AnnotationError"
    if isinstance(e, TypeCheckError):
        return "TypeCheckError"
    return f"raised {type(e).__name__}"


def real_call(params, tc_name):
    try:
        f = real_fn([a for a, _ in params], tc_name)
    except Exception as e:
        return f"decoration raised {type(e).__name__}"
    try:
        f(*[v for _, v in params])
        return "ok"
    except Exception as e:
        return classify(e)


def real_sequence(params, context=True):
    from jaxtyping import jaxtyped

    out = []

    def go():
        for a, v in params:
            try:
                out.append(bool(isinstance(v, real_ann(a))))
            except Exception as e:
                out.append(classify(e))

    if context:
        with jaxtyped("context"):
            go()
    else:
        go()
    return out


def val_src(v):
    if isinstance(v, np.ndarray):
        return f"np.zeros({tuple(v.shape)!r})"
    if v is None or isinstance(v, (int, str)):
        return repr(v)
    if type(v) is tuple:
        return "(" + ", ".join(val_src(e) for e in v) + ("," if len(v) == 1 else "") + ")"
    if type(v) is list:
        return "[" + ", ".join(val_src(e) for e in v) + "]"
    return "{" + ", ".join(f"{k!r}: {val_src(e)}" for k, e in v.items()) + "}"


HEAD = "import typing, numpy as np, typeguard, beartype\nfrom jaxtyping import PyTree, Float, jaxtyped\n"


def snippet_call(params, tc_name):
    tc = {"typeguard": "typeguard.typechecked", "beartype": "beartype.beartype"}[tc_name]
    sig = ", ".join(f"p{i}: {ann_src(a)}" for i, (a, _) in enumerate(params))
    return HEAD + f"@jaxtyped(typechecker={tc})\ndef f({sig}): pass\nf(" + ", ".join(val_src(v) for _, v in params) + ")"


def snippet_seq(params, context=True):
    ind = "    " if context else ""
    return HEAD + ('with jaxtyped("context"):\n' if context else "") + "\n".join(f"{ind}print(isinstance({val_src(v)}, {ann_src(a)}))" for a, v in params)


def in_fresh_thread(fn, *args):
    """Run fn(*args) to completion in a new thread (own interpreter recursion budget, own jaxtyping thread-local state)."""
    import threading

    box = {}

    def run():
        try:
            fn(*args)
        except BaseException as e:  # re-raised in the caller: a harness error stays a harness error
            box["e"] = e

    t = threading.Thread(target=run)
    t.start()
    t.join()
    if "e" in box:
        raise box["e"]


def direction(exp, act):
    """false-reject / false-accept / other, decided at the first step where expectation and result differ."""
    if not isinstance(exp, list):
        exp, act = [exp], [act]
    for e, r in zip(exp, act):
        if e != r:
            if e in (True, "ok") and r in (False, "TypeCheckError"):
                return "false-reject"
            if e in (False, "TypeCheckError") and r in (True, "ok"):
                return "false-accept"
            return "other-" + str(r).replace(" ", "_")[:40]
    return "other"


class Failures:
    def __init__(self, tally):
        self.tally = tally
        self.seen = {}

    def add(self, case, clause, **kw):
        if case in self.seen:
            self.seen[case]["witnesses"] += 1
            return
        self.tally.fail(case, clause, witnesses=1, **kw)
        if self.tally.failures and self.tally.failures[-1]["case"] == str(case):
            self.seen[case] = self.tally.failures[-1]
        else:
            self.seen[case] = {"witnesses": 1}


# --------------------------------------------------------------------------------------------
# the enumerated space
# --------------------------------------------------------------------------------------------
def z(*shape):
    return np.zeros(shape)


A = ARR("?n")
# leaf-type families: id -> (leaf annotation model, {code: leaf value constructor}, kind)
LEAF_TYPES = [
    ("q", A, {1: lambda: z(1), 2: lambda: z(2), 3: lambda: z(3)}),
    ("star-q", ARR("*?n"), {1: lambda: z(), 2: lambda: z(2), 3: lambda: z(2, 3)}),
    ("q-and-plain-in-one-array", ARR("?n n"), {1: lambda: z(1, 2), 2: lambda: z(2, 2), 3: lambda: z(3, 2)}),
    ("union-q-int", UNION(A, INT), {1: lambda: 7, 2: lambda: z(2), 3: lambda: z(3)}),
    ("union-int-starq", UNION(INT, ARR("*?n")), {1: lambda: 7, 2: lambda: z(2), 3: lambda: z(1, 2)}),
    ("tuple-q-q", TUPLE(A, A), {1: lambda: (z(1), z(1)), 2: lambda: (z(2), z(2)), 3: lambda: (z(1), z(2))}),
    ("tuple-q-int", TUPLE(A, INT), {1: lambda: (z(1), 7), 2: lambda: (z(2), 7), 3: lambda: (z(3), 7)}),
    ("tuple-q-plain", TUPLE(A, ARR("n")), {1: lambda: (z(1), z(2)), 2: lambda: (z(2), z(2)), 3: lambda: (z(3), z(2))}),
    # F8 family: a structure-less PyTree inside the leaf type of the structured one
    ("inner-pytree", PT(A), {1: lambda: z(1), 2: lambda: z(2), 3: lambda: z(3)}),
    ("union-inner-pytree-int", UNION(PT(A), INT), {1: lambda: 7, 2: lambda: z(2), 3: lambda: z(3)}),
    ("tuple-inner-pytree-int", TUPLE(PT(A), INT), {1: lambda: (z(1), 7), 2: lambda: (z(2), 7), 3: lambda: (z(3), 7)}),
]

# tree shapes: "L" marks a leaf position
SHAPES = {
    1: ["L", ("L",), {"a": "L"}],
    2: [("L", "L"), ["L", "L"], {"b": "L", "a": "L"}, ("L", None, "L"), (("L",), "L")],
    3: [("L", "L", "L"), ("L", ("L", "L")), ["L", {"k": "L"}, "L"]],
}


def fill(shape, it):
    if shape == "L":
        return next(it)
    if shape is None:
        return None
    if type(shape) is tuple:
        return tuple(fill(c, it) for c in shape)
    if type(shape) is list:
        return [fill(c, it) for c in shape]
    return {k: fill(c, it) for k, c in shape.items()}


def shape_id(shape):
    return repr(shape).replace("'L'", "*").replace(" ", "")


def unambiguous_for_inner_pytree(codes_list):
    """For the structure-less-inner-PyTree family the verdict is only compared when all leaves of a tree carry the same code
    (then every reading of 'which sub-tree is the leaf' gives the same verdict)."""
    return all(len(set(c)) <= 1 for c in codes_list)


# --------------------------------------------------------------------------------------------
def main():
    a = _common.setup(__doc__)
    rng = random.Random(a.seed)
    tally = _common.Tally()
    fails = Failures(tally)
    quick = a.tier == "quick"
    W = ARR("n")
    verdict_counts = {}

    def compare(case_base, clause, params, mode, expected_override=None, f8=False, verdict_ok=True):
        """Run one case in one mode and compare.  mode: 'typeguard' | 'beartype' | 'isinstance'."""
        if mode == "isinstance":
            act = real_sequence(params)
            exp = oracle_sequence(params) if expected_override is None else expected_override
            snip = snippet_seq(params)
        else:
            act = real_call(params, mode)
            exp = oracle_call(params) if expected_override is None else expected_override
            snip = snippet_call(params, mode)
        verdict_counts[str(exp)[:40]] = verdict_counts.get(str(exp)[:40], 0) + 1
        raised_annot = ("AnnotationError" in act) if isinstance(act, list) else (act == "AnnotationError")
        inp = {"mode": mode, "annotations": [ann_src(p[0]) for p in params], "values": [val_src(p[1]) for p in params]}
        if f8:
            # '?' is inside exactly one structured PyTree: must be usable (no AnnotationError); verdict compared only when unambiguous
            if raised_annot:
                fails.add(f"F8:structureless-inner-pytree:{case_base.split(':')[-1]}:{mode}:AnnotationError", "usable-inside-exactly-one-structured-pytree",
                          input=inp, expected=exp if verdict_ok else "no AnnotationError", actual=act, snippet=snip)
            elif verdict_ok and act != exp:
                # (not an F8 witness: the check was usable but its verdict is wrong)
                fails.add(f"structureless-inner-pytree-verdict:{case_base.split(':')[-1]}:{mode}:{direction(exp, act)}", clause, input=inp, expected=exp, actual=act, snippet=snip)
            return act
        if act != exp:
            tag = "raised-AnnotationError" if raised_annot else direction(exp, act)
            fails.add(f"{case_base}:{mode}:{tag}"[:200], clause, input=inp, expected=exp, actual=act, snippet=snip)
        return act

    # ---- part 1: same structure name on two (three) parameters, all size assignments ----------------
    modes_all = ["typeguard", "beartype", "isinstance"]
    patterns = ["xyw", "wxy", "xy"]
    n_k3 = 60 if quick else None  # seeded sample of the 729 assignments per 3-leaf shape (quick); all (thorough)
    state = {"counter": 0, "stopped": False}
    deadline = a.t0 + (30 if quick else 520)

    def pair_batch(lt_id, leaf, ctors, f8, shape, batch):
        if time.time() > deadline:
            state["stopped"] = True
            return
        XT = PT(leaf, "T")
        for cx, cy in batch:
            state["counter"] += 1
            counter = state["counter"]
            x = fill(shape, iter([ctors[c]() for c in cx]))
            y = fill(shape, iter([ctors[c]() for c in cy]))
            wsize = (1, 2, 3)[counter % 3]
            if quick:
                todo = [(modes_all[counter % 2], patterns[counter % 3]), ("isinstance", patterns[(counter // 2) % 3])]
            else:
                todo = [("typeguard", patterns[counter % 3]), ("beartype", patterns[(counter + 1) % 3]), ("isinstance", patterns[(counter + 2) % 3])]
            for mode, pat in todo:
                params = {"xyw": [(XT, x), (XT, y), (W, z(wsize))], "wxy": [(W, z(wsize)), (XT, x), (XT, y)], "xy": [(XT, x), (XT, y)]}[pat]
                if quick and mode != "isinstance" and not f8 and counter % 4 and oracle_call(params) != "ok":
                    continue  # quick tier: a rejected decorated call costs 3-6 ms (error message), so only every 4th expected-reject is run decorated
                verdict_ok = (not f8) or unambiguous_for_inner_pytree([cx, cy])
                act = compare(f"same-name:{lt_id}", "same-position-same-name-must-agree", params, mode, f8=f8, verdict_ok=verdict_ok)
                tally.case((lt_id, shape_id(shape), cx, cy, mode, pat, wsize), nontrivial=True,
                           sample={"leaf_type": ann_src(leaf), "x": val_src(x), "y": val_src(y), "mode": mode, "pattern": pat, "actual": act}
                           if counter % 1201 == 1 and mode != "isinstance" else None)

    # three trees with the same name (k<=2), and different structure for y (must be rejected)
    def triple_batch(lt_id, leaf, ctors, f8, shape, trip):
        if time.time() > deadline:
            state["stopped"] = True
            return
        XT = PT(leaf, "T")
        for cx, cy, cv in trip:
            state["counter"] += 1
            vals = [fill(shape, iter([ctors[c]() for c in cc])) for cc in (cx, cy, cv)]
            params = [(XT, v) for v in vals]
            mode = modes_all[state["counter"] % 3]
            verdict_ok = (not f8) or unambiguous_for_inner_pytree([cx, cy, cv])
            compare(f"three-trees:{lt_id}", "same-position-same-name-must-agree", params, mode, f8=f8, verdict_ok=verdict_ok)
            tally.case((lt_id, "triple", shape_id(shape), cx, cy, cv, mode), nontrivial=True)

    def diffshape_batch(lt_id, leaf, ctors, f8, s1, s2):
        if time.time() > deadline:
            state["stopped"] = True
            return
        # different shapes under the same name -> reject; under different names -> unconstrained
        XT = PT(leaf, "T")
        k1, k2 = repr(s1).count("'L'"), repr(s2).count("'L'")
        for cx in itertools.product((2, 3), repeat=k1):
            for cy in itertools.product((2, 3), repeat=k2):
                state["counter"] += 1
                counter = state["counter"]
                x = fill(s1, iter([ctors[c]() for c in cx]))
                y = fill(s2, iter([ctors[c]() for c in cy]))
                mode = modes_all[counter % 3]
                # for the inner-PyTree family the structure itself is ambiguous when shapes differ: usability only
                compare(f"different-structure-same-name:{lt_id}", "same-name-same-structure", [(XT, x), (XT, y)], mode, f8=f8, verdict_ok=not f8)
                tally.case((lt_id, "diffshape", shape_id(s1), shape_id(s2), cx, cy, mode), nontrivial=True)
                mode = modes_all[(counter + 1) % 3]
                compare(f"different-names:{lt_id}", "different-structure-names-are-separate-axes", [(XT, x), (PT(leaf, "S"), y)], mode, f8=f8,
                        verdict_ok=(not f8) or unambiguous_for_inner_pytree([cx, cy]))
                tally.case((lt_id, "diffname", shape_id(s1), shape_id(s2), cx, cy, mode), nontrivial=True)

    def diffname_batch(lt_id, leaf, ctors, f8, shape):
        if time.time() > deadline:
            state["stopped"] = True
            return
        # same shape, different names: sizes unconstrained between x and y
        XT = PT(leaf, "T")
        for cx in itertools.product((1, 2, 3), repeat=2):
            for cy in ((1, 1), (3, 2), (2, 3)):
                state["counter"] += 1
                x = fill(shape, iter([ctors[c]() for c in cx]))
                y = fill(shape, iter([ctors[c]() for c in cy]))
                mode = modes_all[state["counter"] % 3]
                compare(f"different-names:{lt_id}", "different-structure-names-are-separate-axes", [(XT, x), (PT(leaf, "S"), y), (W, z(3))], mode, f8=f8,
                        verdict_ok=(not f8) or unambiguous_for_inner_pytree([cx, cy]))
                tally.case((lt_id, "diffname-sameshape", shape_id(shape), cx, cy, mode), nontrivial=True)

    def part1(want_f8):
        for lt_id, leaf, ctors in LEAF_TYPES:
            f8 = has_structureless_inner(PT(leaf, "T"))
            if f8 != want_f8:
                continue
            # On the unchanged tree the f8 cases raise AnnotationError from inside jax.tree_util.tree_flatten's is_leaf callback; jaxlib 0.6.2
            # leaks interpreter C-recursion budget on that path (per thread), so that family runs in short-lived threads of <= 25 assignments.
            call = in_fresh_thread if f8 else (lambda fn, *args: fn(*args))
            for k, shapes in SHAPES.items():
                for shape in shapes:
                    combos = list(itertools.product(itertools.product((1, 2, 3), repeat=k), repeat=2))
                    if k == 3 and (n_k3 is not None or f8):
                        diag = [c for c in combos if c[0] == c[1]]
                        combos = rng.sample(diag, 12) + rng.sample(combos, 24 if f8 else n_k3)
                    step = 25 if f8 else len(combos)
                    for i in range(0, len(combos), step):
                        call(pair_batch, lt_id, leaf, ctors, f8, shape, combos[i:i + step])
            for k in (1, 2):
                for shape in SHAPES[k]:
                    trip = list(itertools.product(itertools.product((1, 2, 3), repeat=k), repeat=3))
                    if quick or f8:
                        trip = rng.sample(trip, min(len(trip), 25))
                    elif k == 2:
                        trip = rng.sample(trip, 200)
                    call(triple_batch, lt_id, leaf, ctors, f8, shape, trip)
            for s1, s2 in [(SHAPES[2][0], SHAPES[2][1]), (SHAPES[2][0], SHAPES[3][0]), (SHAPES[1][1], SHAPES[1][0]), (SHAPES[2][2], SHAPES[2][0])]:
                call(diffshape_batch, lt_id, leaf, ctors, f8, s1, s2)
            for shape in SHAPES[2][:3]:
                call(diffname_batch, lt_id, leaf, ctors, f8, shape)

    part1(False)

    # ---- part 2: '?' must be enclosed by exactly one structured PyTree -----------------------------
    arr3, arr2 = z(3), z(2)
    Q23 = ARR("*?n")
    err_cases = [
        # (id, annotation, value, isinstance-able)
        ("bare-array", A, arr3, True),
        ("bare-array-variadic", Q23, z(2, 3), True),
        ("bare-array-q-and-plain", ARR("?n n"), z(3, 2), True),
        # a broadcastable '?' axis: size ONE takes the '#' shortcut -- the label must be looked up on that path too
        ("bare-array-broadcastable-size-one", ARR("#?n"), z(1), True),
        ("bare-array-broadcastable-size-one", ARR("#?n 3"), z(1, 3), True),
        ("bare-array-broadcastable-size-one", ARR("3 #?n"), z(3, 1), True),
        ("bare-array-broadcastable", ARR("#?n"), z(3), True),
        ("bare-array-broadcastable-variadic-size-one", ARR("*#?n"), z(1, 1), True),
        ("structureless-pytree-broadcastable-size-one", PT(ARR("#?n")), (z(1), z(1)), True),
        ("bare-union", UNION(A, INT), arr3, False),
        ("bare-tuple", TUPLE(A, INT), (arr3, 7), False),
        ("structureless-pytree", PT(A), arr3, True),
        ("structureless-pytree", PT(A), (arr3, z(4)), True),
        ("structureless-pytree", PT(A), [arr3, {"k": arr2}], True),
        ("structureless-pytree-variadic", PT(Q23), (z(2, 3),), True),
        ("structureless-pytree-union", PT(UNION(A, INT)), (arr3, 7), True),
        ("structureless-pytree-tuple", PT(TUPLE(A, INT)), ((arr3, 7),), True),
        ("structureless-pytree-nested", PT(PT(A)), (arr3,), True),
        ("two-structured", PT(PT(A, "S"), "T"), arr3, True),
        ("two-structured", PT(PT(A, "S"), "T"), (arr3, z(4)), True),
        ("two-structured", PT(PT(A, "S"), "T"), [arr3, (arr2,)], True),
        ("two-structured-variadic", PT(PT(Q23, "S"), "T"), (z(2, 3),), True),
        ("two-structured-structureless-between", PT(PT(PT(A, "S")), "T"), (arr3, z(4)), True),
        ("two-structured-tuple-between", PT(TUPLE(PT(A, "S"), INT), "T"), ((arr3, 7),), True),
        ("two-structured-union-between", PT(UNION(PT(A, "S"), INT), "T"), (arr3, 7), True),
        ("three-structured", PT(PT(PT(A, "R"), "S"), "T"), (arr3,), True),
    ]
    canary_ok = [(PT(A, "T"), (z(3), z(4))), (PT(A, "T"), (z(3), z(4)))]
    canary_err = [(A, z(3))]
    for cid, ann, val, inst in err_cases:
        depths = question_depths(ann)
        assert depths and all(d != 1 for d in depths)
        which = "outside-structured" if min(depths) == 0 else "nested-structured"
        for mode in (modes_all if inst else modes_all[:2]):
            for ctx in ((True, False) if mode == "isinstance" else (True,)):
                params = [(ann, val)]
                if mode == "isinstance":
                    act = real_sequence(params, context=ctx)
                    exp = ["AnnotationError"]
                    snip = snippet_seq(params, context=ctx)
                else:
                    act = real_call(params, mode)
                    exp = "AnnotationError"
                    snip = snippet_call(params, mode)
                tally.case(("err", cid, val_src(val), mode, ctx), nontrivial=True,
                           sample={"annotation": ann_src(ann), "value": val_src(val), "mode": mode, "expected": exp, "actual": act} if cid == "two-structured" and mode == "typeguard" else None)
                if act != exp:
                    fails.add(f"{which}:{cid}:{mode}{'' if ctx else '-no-context'}:got-{str(act if not isinstance(act, list) else act[0]).replace(' ', '_')}",
                              "question-mark-" + which + "-raises", input={"mode": mode, "annotation": ann_src(ann), "value": val_src(val)},
                              expected=exp, actual=act, snippet=snip)
                # hygiene: afterwards a well-formed use still works and a bare '?' still raises
                act2 = real_sequence(canary_ok)
                act3 = real_sequence(canary_err)
                tally.case(("err-canary", cid, val_src(val), mode, ctx), nontrivial=True)
                if act2 != [True, True] or act3 != ["AnnotationError"]:
                    fails.add(f"after-error:{cid}:{mode}", "usable-inside-exactly-one-structured-pytree",
                              input={"first": snip, "then": [ann_src(p[0]) + " on " + val_src(p[1]) for p in canary_ok + canary_err]},
                              expected=[[True, True], ["AnnotationError"]], actual=[act2, act3], snippet=snip + "\n" + snippet_seq(canary_ok).replace(HEAD, "") + "\n" + snippet_seq(canary_err).replace(HEAD, ""))
    # mixed: a well-formed first parameter does not make a structure-less second one legal (label must not leak across parameters)
    for lt_id, leaf, ctors in LEAF_TYPES[:2]:
        for shape in SHAPES[1] + SHAPES[2]:
            k = repr(shape).count("'L'")
            x = fill(shape, iter([ctors[2]() for _ in range(k)]))
            for mode in modes_all:
                params = [(PT(leaf, "T"), x), (PT(leaf), x)]
                if mode == "isinstance":
                    act, exp = real_sequence(params), [True, "AnnotationError"]
                    snip = snippet_seq(params)
                else:
                    act, exp = real_call(params, mode), "AnnotationError"
                    snip = snippet_call(params, mode)
                tally.case(("err-mixed", lt_id, shape_id(shape), mode), nontrivial=True)
                if act != exp:
                    fails.add(f"outside-structured:after-structured-parameter:{lt_id}:{mode}", "question-mark-outside-structured-raises",
                              input={"mode": mode, "annotations": [ann_src(p[0]) for p in params], "value": val_src(x)}, expected=exp, actual=act, snippet=snip)
    # after a rejected / accepted structured check the label is gone as well
    for lt_id, leaf, ctors in LEAF_TYPES[:8]:
        XT = PT(leaf, "T")
        x = (ctors[2](), ctors[3]())
        y_bad = (ctors[3](), ctors[2]())
        seq = [(XT, x), (XT, y_bad), (A, z(3))]
        exp = oracle_sequence(seq[:2]) + ["AnnotationError"]
        act = real_sequence(seq)
        tally.case(("label-cleared", lt_id), nontrivial=True)
        if act != exp:
            fails.add(f"outside-structured:after-rejected-structured-check:{lt_id}", "question-mark-outside-structured-raises",
                      input=[ann_src(p[0]) + " on " + val_src(p[1]) for p in seq], expected=exp, actual=act, snippet=snippet_seq(seq))
    # exactly one structured PyTree, but as the INNER one of a structure-less outer PyTree: usable
    for val, verdict in ((arr3, True), ((arr3,), None), ((arr3, z(4)), None), ([arr3, {"k": arr2}], None)):
        for mode in modes_all:
            params = [(PT(PT(A, "S")), val)]
            act = real_sequence(params) if mode == "isinstance" else real_call(params, mode)
            tally.case(("one-structured-inner", val_src(val), mode), nontrivial=True)
            bad = ("AnnotationError" in act) if isinstance(act, list) else act == "AnnotationError"
            if bad or (verdict is True and act not in ([True], "ok")):
                fails.add(f"structured-inside-structureless:{mode}:{'AnnotationError' if bad else 'verdict'}", "usable-inside-exactly-one-structured-pytree",
                          input={"annotation": ann_src(params[0][0]), "value": val_src(val), "mode": mode}, expected="no AnnotationError" if verdict is None else "accept",
                          actual=act, snippet=snippet_seq(params) if mode == "isinstance" else snippet_call(params, mode))

    # ---- part 3: the structure-less-inner-PyTree family (KNOWN to fail on the unchanged tree) runs last ----------
    def known_witness():
        # the witness named in the brief: '?' is inside exactly one structured PyTree, so the check must be usable (no AnnotationError);
        # its verdict depends on whether the whole tuple or each array is "the leaf", so only usability is compared
        params = [(PT(PT(A), "T"), (z(3), z(4)))]
        compare("same-name:inner-pytree", "usable-inside-exactly-one-structured-pytree", params, "isinstance", f8=True, verdict_ok=False)
        tally.case(("inner-pytree", "known-witness"), nontrivial=True)

    in_fresh_thread(known_witness)
    part1(True)

    bound = ("STOPPED EARLY by the time guard (remaining batches skipped). " if state["stopped"] else "") + (
        f"leaf types {[ann_src(l[1]) for l in LEAF_TYPES]} as L in PyTree[L,'T']; tree shapes {[shape_id(s) for k in SHAPES for s in SHAPES[k]]} (<=3 leaf positions); "
        "per-leaf codes {1,2,3} mapped per leaf type to sizes/shapes (or an int leaf / a mixed tuple); pairs (x,y) of the same shape with "
        + ("ALL 3^k x 3^k code assignments for k<=2 and 72 seeded ones per 3-leaf shape" if quick else "ALL 3^k x 3^k code assignments for k<=3 (structure-less-inner-PyTree family: 36 seeded ones per 3-leaf shape)")
        + "; plain-axis parameter w: Float[np.ndarray,'n'] of size 1..3 before or after (patterns xyw, wxy, xy); triples of trees with one name; pairs with different shapes under one "
        "name and under two names; modes: jaxtyped(typechecker=typeguard.typechecked), jaxtyped(typechecker=beartype.beartype), isinstance sequence inside jaxtyped('context') "
        + ("(quick: isinstance for every assignment; one decorated mode, rotating, for every expected-accept and every 4th expected-reject assignment)" if quick else "(all three per assignment, pattern rotating)")
        + f"; {len(err_cases)} ill-formed annotation/value pairs ('?' enclosed by 0 or >=2 structured PyTrees) in every mode incl. isinstance outside any context, "
        "each followed by a canary (well-formed use works, bare '?' raises); label hygiene after rejected checks; structured PyTree inside a structure-less one (usable). "
        "Excluded: for the structure-less-inner-PyTree family the verdict is compared only when all leaves of each tree have the same code (otherwise only "
        "'no AnnotationError'); composite structure strings; leaf types whose leaf discovery depends on axis sizes."
    )
    rule = ("case = (leaf type, shape, code assignment of x, of y, mode, parameter pattern, plain-axis size); expected verdict from an own matcher where a '?name' axis is "
            "keyed by (structure name, leaf position, name) and a plain axis by name; AnnotationError expected exactly when a '?' axis is not enclosed by exactly one "
            "structured PyTree (static count on the annotation model); failures aggregated per (clause family, leaf type, mode, direction)")
    _common.emit(tally, bound=bound, rule=rule, exhaustive=False, expected_verdicts=verdict_counts, wall=round(time.time() - a.t0, 1))


if __name__ == "__main__":
    main()
