import time
from z3 import *
IS = SeqSort(IntSort())
def get(s,i): return If(i < Length(s), s[Length(s)-1-i], IntVal(1))
def compat(a,b): return Or(a==b, a==1, b==1)
def join(a,b): return If(a==1, b, a)
def mx(a,b): return If(a>=b,a,b)
def prove(name, hyps, goal, timeout=20000):
    s = Solver(); s.set('timeout', timeout)
    s.add(*hyps); s.add(Not(goal))
    t=time.time(); r = s.check(); print(f"{name}: {'PROVED' if r==unsat else r} {time.time()-t:.2f}s")
    if r == sat: print(s.model())
ns, ps, r = Consts('ns ps r', IS)
i0 = Int('i0'); d = Int('d')
# numpy contract instantiated at index t
def bs_ok_at(a,b,r,t): return Implies(And(0<=t, t<Length(r)), get(r,t) == join(get(a,t),get(b,t)))
def bs_compat_at(a,b,t): return Implies(And(0<=t, t<mx(Length(a),Length(b))), compat(get(a,t),get(b,t)))
bs_len = Length(r) == mx(Length(ns),Length(ps))
# all sizes >= 0
# code -> spec : r == ns  ==> leq(ps, ns) at arbitrary index i0
leq_at = lambda s,T,t: Implies(And(0<=t, t<Length(T)), Or(get(s,t)==get(T,t), get(s,t)==1))
prove("code->spec len", [bs_len, r==ns], Length(ps) <= Length(ns))
prove("code->spec idx", [bs_len, r==ns, bs_ok_at(ns,ps,r,i0), bs_compat_at(ns,ps,i0)], leq_at(ps,ns,i0))
# spec -> code: leq(ps,ns) ==> compat at i0 (no raise)
prove("spec->code compat", [Length(ps)<=Length(ns), leq_at(ps,ns,i0)], bs_compat_at(ns,ps,i0))
# spec -> code: r == ns via extensionality witness d (index from the left), convert to right index
ext = Implies(r != ns, Or(Length(r)!=Length(ns), And(0<=d, d<Length(r), r[d] != ns[d])))
t = Length(r)-1-d
prove("spec->code r==ns", [Length(ps)<=Length(ns), bs_len, ext, leq_at(ps,ns,t), bs_ok_at(ns,ps,r,t)], r == ns)
# lattice lemma for C02:  (s1<=T and s2<=T)  <=>  compat(s1,s2) and lub(s1,s2)<=T, pointwise at i0, B=lub
s1,s2,T,B = Consts('s1 s2 T B', IS)
prove("lattice ->", [leq_at(s1,T,i0), leq_at(s2,T,i0), Length(s1)<=Length(T), Length(s2)<=Length(T), Length(B)==mx(Length(s1),Length(s2)), bs_ok_at(s1,s2,B,i0)],
      And(bs_compat_at(s1,s2,i0), leq_at(B,T,i0)))
prove("lattice <-", [bs_compat_at(s1,s2,i0), leq_at(B,T,i0), Length(B)<=Length(T), Length(B)==mx(Length(s1),Length(s2)), bs_ok_at(s1,s2,B,i0)],
      And(leq_at(s1,T,i0), leq_at(s2,T,i0)))
