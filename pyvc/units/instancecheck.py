"""Unit U3: _MetaAbstractArray.__instancecheck_str__ (+ __instancecheck__).

Serves C01 (result == "" <=> ArrayTypeOk /\\ (flatten-mode \\/ (DtypeOk /\\ ShapeOk))), C03 (dtype-name extraction
and the match loop), C04/C12 (a non-accepting or raising check leaves the context's four memos exactly as they were),
C17 (what is read from obj).

Callees by contract: get_shape_memo / set_shape_memo (unit storage), get_treeflatten_memo (unit storage),
cls._check_shape (unit check_shape: verdict CSv, post-memos CSs/CSn functions of (cls, obj, sigma, nu); may also
raise ANY class because it reads obj.shape, a user attribute).
"""
from __future__ import annotations

import ast

import z3

from ..engine import DatatypeInfo, Engine, Raised, is_raised
from ..source import Module
from ..values import ANY_EXC, BOOL, INT, NONE, NORMAL, STR, U, Cls, DictObj, Exc, Fn, Obj, Opaque, Outcome, Ref, State, Tup, Unsupported, Z

NAME = "instancecheck"
FUNC = "_MetaAbstractArray.__instancecheck_str__"

# dtype specs: str | re.Pattern  (class invariant of AbstractDtype.dtypes entries)
DtSpec = z3.Datatype("DtSpec")
DtSpec.declare("str", ("str.sval", STR))
DtSpec.declare("Pattern", ("Pattern.pat", U))
DtSpec = DtSpec.create()
SEQ_DT = z3.SeqSort(DtSpec)
PatMatch = z3.Function("PatMatch", U, STR, BOOL)
NameOf = z3.Function("py_dunder_name", U, STR)
RTail = z3.Function("py_rsplit_dot_tail", STR, STR)

SIG_M, SIG_D = z3.ArraySort(STR, INT), z3.ArraySort(STR, BOOL)
UM, UD = z3.ArraySort(STR, U), z3.ArraySort(STR, BOOL)


def Match(spec, name):
    return z3.If(DtSpec.is_str(spec), getattr(DtSpec, "str.sval")(spec) == name, PatMatch(getattr(DtSpec, "Pattern.pat")(spec), name))


def build(repo=None):
    mod = Module("jaxtyping/_array_types.py", repo)
    fn = mod.func(FUNC)
    params = [a.arg for a in fn.args.args]
    if len(params) != 2:
        raise Unsupported(f"{FUNC}: signature {params}")
    p_cls, p_obj = params

    obligations = []
    paths = 0
    dtypes = z3.Const("dtypes", SEQ_DT)
    nd = z3.Length(dtypes)
    k = z3.Int("k")
    AnyM = z3.Function("AnyMatch", INT, STR, BOOL)  # AnyMatch(k, name) = exists j<k. Match(dtypes[j], name)
    CSv = z3.Function("CSv", SIG_M, SIG_D, UM, UD, INT)  # verdict of _check_shape for this (cls, obj) given sigma, nu
    CSs_m = z3.Function("CSs_m", SIG_M, SIG_D, UM, UD, SIG_M)
    CSs_d = z3.Function("CSs_d", SIG_M, SIG_D, UM, UD, SIG_D)
    CSn_m = z3.Function("CSn_m", SIG_M, SIG_D, UM, UD, UM)
    CSn_d = z3.Function("CSn_d", SIG_M, SIG_D, UM, UD, UD)
    HasStack = z3.Bool("HasStack")
    TreeFlatten = z3.Bool("TreeFlatten")

    for dt_any in (True, False):
        for has_stack in (True, False):
            eng = Engine(mod)
            eng.datatypes["dtspec"] = DatatypeInfo("dtspec", DtSpec, {"str": ["sval"], "Pattern": ["pat"]}, [], {"sval": "str", "pat": "u"})
            eng.seq_elem["seq:dtspec"] = "dtspec"
            any_dtype = Opaque("sentinel:_any_dtype", z3.Const("sentinel_any_dtype", U))
            AnyT = Opaque("sentinel:Any", z3.Const("typing_Any", U))
            eng.globals["_any_dtype"] = any_dtype
            eng.globals["Any"] = AnyT
            eng.globals["re"] = Opaque("module:re", attrs={"Pattern": Cls("Pattern")})
            eng.globals["np"] = Opaque("global:np", z3.Const("global_np", U))
            eng.globals["np.dtype"] = Fn("np.dtype", model=lambda e, s, a, kw, n: [(s, Opaque("np.dtype(...)", z3.Function("np_dtype", U, U)(e.as_u(s, a[0]))))])
            # np.void gets its term up front, so that the specification can say "structured dtype" on every path (whether or not the code asks)
            np_void = Opaque("global:np.void")
            eng._memo_attr[(eng.globals["np"].t.get_id(), "void")] = np_void
            try:
                eng.globals["_dtype_is_numpy_struct_array"] = Fn("_dtype_is_numpy_struct_array", node=mod.func("_dtype_is_numpy_struct_array"), closure={})
            except Exception:
                pass
            eng.raising_attr_tags = {"obj"}  # obj.dtype / obj.shape are user code: may raise anything
            eng.user_raises = ANY_EXC
            eng.attr_models["__name__"] = lambda e, s, recv, node: [(s, Z("str", NameOf(e.as_u(s, recv))))]

            # union-typed equality: str == DtSpec
            def eq_hook(e, s, a, b):
                for x, y in ((a, b), (b, a)):
                    if isinstance(x, Z) and x.kind == "dtspec" and isinstance(y, Z) and y.kind == "str":
                        return z3.And(DtSpec.is_str(x.t), getattr(DtSpec, "str.sval")(x.t) == y.t)
                    if isinstance(x, Z) and x.kind == "dtspec" and isinstance(y, Opaque):
                        # obj.dtype itself is a str (duck arrays): its string value
                        return z3.And(DtSpec.is_str(x.t), getattr(DtSpec, "str.sval")(x.t) == z3.Function("py_as_str", U, STR)(y.t))
                return None

            eng.method_models["__eq__"] = eq_hook

            def m_match(e, s, recv, args, kwargs, node):
                if isinstance(recv, Z) and recv.kind == "dtspec" and len(args) == 1:
                    a = args[0]
                    nm = a.t if isinstance(a, Z) and a.kind == "str" else z3.Function("py_as_str", U, STR)(e.as_u(s, a))
                    r = Opaque("re.Match|None")
                    e._memo_truth[r.t.get_id()] = PatMatch(getattr(DtSpec, "Pattern.pat")(recv.t), nm)
                    s1 = s.fork(DtSpec.is_Pattern(recv.t))  # callers guard with type(...) is re.Pattern
                    e.oblige(s, "dtype-loop:match-called-on-a-Pattern", DtSpec.is_Pattern(recv.t))
                    return [(s1, r)]
                return None

            eng.method_models["match"] = m_match

            def m_other_pattern_method(mname):
                # any other re.Pattern method (search, fullmatch, findall ...) answers a DIFFERENT question than the documented
                # 'the pattern matches the dtype name' (re.match: anchored at the start): its own uninterpreted predicate
                def m(e, s, recv, args, kwargs, node):
                    if isinstance(recv, Z) and recv.kind == "dtspec" and len(args) == 1:
                        a = args[0]
                        nm = a.t if isinstance(a, Z) and a.kind == "str" else z3.Function("py_as_str", U, STR)(e.as_u(s, a))
                        r = Opaque(f"re.{mname}-result")
                        e._memo_truth[r.t.get_id()] = z3.Function(f"Pat_{mname}", U, STR, BOOL)(getattr(DtSpec, "Pattern.pat")(recv.t), nm)
                        return [(s.fork(DtSpec.is_Pattern(recv.t)), r)]
                    return None
                return m

            for mname in ("search", "fullmatch", "findall", "finditer"):
                eng.method_models[mname] = m_other_pattern_method(mname)

            def m_rsplit(e, s, recv, args, kwargs, node):
                if isinstance(recv, Z) and recv.kind == "str":
                    return [(s, Tup([Opaque("rsplit-head"), Z("str", RTail(recv.t))], True))]
                return None

            eng.method_models["rsplit"] = m_rsplit

            def ill_typed(e, s, sort, kind, v):
                # data-structure invariant of the context: the single-axis memo maps axis names to int sizes (what shape_str prints and
                # what symbolic expressions are evaluated over); anything else stored in it is not a binding of the C01 statement
                e.oblige(s, f"C01:memo-typing:only-{kind}-values-are-stored-in-a-memo-of-{kind}", z3.BoolVal(False))
                return z3.FreshConst(sort, "ill_typed_store")

            eng.method_models["__ill_typed_store__"] = ill_typed

            st = State()
            # the context view
            s0m, s0d = z3.Const("sigma_m", SIG_M), z3.Const("sigma_d", SIG_D)
            n0m, n0d = z3.Const("nu_m", UM), z3.Const("nu_d", UD)
            p0m, p0d = z3.Const("pi_m", UM), z3.Const("pi_d", UD)
            a0m, a0d = z3.Const("A_m", UM), z3.Const("A_d", UD)
            top = [st.alloc(DictObj(STR, INT, s0m, s0d, "sigma")), st.alloc(DictObj(STR, U, n0m, n0d, "nu")), st.alloc(DictObj(STR, U, p0m, p0d, "pi")), st.alloc(DictObj(STR, U, a0m, a0d, "A"))]
            view0 = [(s0m, s0d), (n0m, n0d), (p0m, p0d), (a0m, a0d)]
            st.ghost["top"] = list(top) if has_stack else None

            def m_get_shape_memo(e, s, args, kwargs, node):
                if s.ghost["top"] is not None:
                    return [(s, Tup(list(s.ghost["top"])))]
                s1 = s.clone()
                fresh = [s1.alloc(DictObj.empty(STR, INT, "fresh_sigma"))] + [s1.alloc(DictObj.empty(STR, U, f"fresh{i}")) for i in range(3)]
                return [(s1, Tup(fresh))]

            def m_set_shape_memo(e, s, args, kwargs, node):
                if len(args) != 4 or not all(isinstance(a, Ref) for a in args):
                    raise Unsupported("set_shape_memo args")
                s1 = s.clone()
                if s1.ghost["top"] is None:
                    return [(s1, NONE)]
                # contract of set_shape_memo (unit storage): the top frame holds the arguments' contents -- (a) the frame now IS the four
                # argument dicts, or (b) the frame's own dicts were restored in place. Both are explored.
                s2 = s.clone()
                s1.ghost["top"] = list(args)
                s1.path.append("set_shape_memo:frame-replaced")
                for r, a_ in zip(s2.ghost["top"], args):
                    if r.h != a_.h:
                        src = s2.get(a_)
                        s2.put(r, s2.get(r).with_(src.m, src.d))
                s2.path.append("set_shape_memo:restored-in-place")
                return [(s1, NONE), (s2, NONE)]

            def m_get_treeflatten(e, s, args, kwargs, node):
                return [(s, Z("bool", TreeFlatten))]

            def m_check_shape(e, s, args, kwargs, node):
                if len(args) != 4:
                    raise Unsupported("_check_shape call shape")
                o, sm, vm, am = args
                if not (isinstance(o, Opaque) and o.tag == "obj" and all(isinstance(x, Ref) for x in (sm, vm, am))):
                    raise Unsupported("_check_shape args")
                S, N = s.get(sm), s.get(vm)
                if not (isinstance(S, DictObj) and S.vsort == INT):
                    raise Unsupported("_check_shape: single_memo is not the axis memo")
                v = CSv(S.m, S.d, N.m, N.d)
                outs = []
                acc = s.fork(v == 0, "cs:accept")
                acc.put(sm, DictObj(STR, INT, CSs_m(S.m, S.d, N.m, N.d), CSs_d(S.m, S.d, N.m, N.d), "sigma'"))
                acc.put(vm, DictObj(STR, U, CSn_m(S.m, S.d, N.m, N.d), CSn_d(S.m, S.d, N.m, N.d), "nu'"))
                acc.ghost["cs_in"] = (S, N)
                outs.append((acc, Z("str", z3.StringVal(""))))
                rej = s.fork(v == 1, "cs:reject")
                rej.put(sm, DictObj(STR, INT, tag="sigma_partial"))
                rej.put(vm, DictObj(STR, U, tag="nu_partial"))
                msg = z3.FreshConst(STR, "cs_msg")
                rej.pc.append(z3.Length(msg) > 0)
                outs.append((rej, Z("str", msg)))
                x = s.fork(z3.And(v != 0, v != 1), "cs:raises")
                x.put(sm, DictObj(STR, INT, tag="sigma_partial"))
                x.put(vm, DictObj(STR, U, tag="nu_partial"))
                outs.append((x, Raised(Exc(frozenset(ANY_EXC), origin="_check_shape"))))
                return outs

            eng.globals["get_shape_memo"] = Fn("get_shape_memo", model=m_get_shape_memo)
            eng.globals["set_shape_memo"] = Fn("set_shape_memo", model=m_set_shape_memo)
            eng.globals["get_treeflatten_memo"] = Fn("get_treeflatten_memo", model=m_get_treeflatten)

            cls = st.alloc(Obj("annotation-class", {
                "_skip_instancecheck": Z("bool", z3.BoolVal(False)),  # class invariant; only make_transparent breaks it (C12)
                "array_type": Opaque("array_type", z3.Const("array_type", U)),
                "dtypes": any_dtype if dt_any else Z("seq:dtspec", dtypes),
                "_check_shape": Fn("_check_shape", model=m_check_shape),
            }, tag="cls"))
            cls0 = st.get(cls)
            obj = Opaque("obj", z3.Const("obj", U))
            st.env = {p_cls: cls, p_obj: obj}
            st.path = [f"dtypes={'any' if dt_any else 'seq'}", f"stack={'yes' if has_stack else 'no'}"]

            # ---- the dtype loop, cut by its invariant
            # (in the function itself or in a private module-level helper / method of the metaclass that it calls: those are inlined by the engine)
            mod_helpers = {b_.name: b_ for b_ in mod.tree.body if isinstance(b_, ast.FunctionDef) and not b_.decorator_list}
            called_helpers = []
            for c_ in ast.walk(fn):
                if isinstance(c_, ast.Call) and isinstance(c_.func, ast.Name) and c_.func.id in mod_helpers and mod_helpers[c_.func.id] not in called_helpers:
                    called_helpers.append(mod_helpers[c_.func.id])
            loops = [x for f_ in [fn] + called_helpers for x in ast.walk(f_) if isinstance(x, (ast.For, ast.While))]
            if len(loops) != 1 or not isinstance(loops[0], ast.For):
                raise Unsupported(f"{FUNC}: expected exactly one loop (the dtype loop), found {len(loops)}")
            loop = loops[0]
            mod_vars = sorted({n.id for n in ast.walk(loop) if isinstance(n, ast.Name) and isinstance(n.ctx, ast.Store)})
            # the loop's variables by ROLE: the flag (stored in the body and tested by the `if <flag>: break`) and the extracted dtype name (what the loop
            # variable is compared with / matched against)
            flag_names = sorted({n.test.id for n in ast.walk(loop) if isinstance(n, ast.If) and isinstance(n.test, ast.Name) and any(isinstance(b, ast.Break) for b in n.body)} & set(mod_vars))
            tgt_name = getattr(loop.target, "id", None)
            cmp_names = set()
            for n in ast.walk(loop):
                if isinstance(n, ast.Compare) and len(n.ops) == 1 and isinstance(n.ops[0], ast.Eq):
                    pair = [n.left, n.comparators[0]]
                    if any(isinstance(x, ast.Name) and x.id == tgt_name for x in pair):
                        cmp_names |= {x.id for x in pair if isinstance(x, ast.Name) and x.id != tgt_name}
                if isinstance(n, ast.Call) and isinstance(n.func, ast.Attribute) and isinstance(n.func.value, ast.Name) and n.func.value.id == tgt_name:
                    cmp_names |= {a.id for a in n.args if isinstance(a, ast.Name)}
            if len(flag_names) != 1 or len(cmp_names) != 1:
                raise Unsupported(f"dtype loop: cannot tell the flag / the dtype-name variable (flags {flag_names}, names {sorted(cmp_names)})")
            V_FLAG, V_NAME = flag_names[0], next(iter(cmp_names))

            def dtype_name(s):
                v = s.env.get(V_NAME)
                if isinstance(v, Z) and v.kind == "str":
                    return v.t
                if isinstance(v, Opaque):
                    return z3.Function("py_as_str", U, STR)(v.t)
                raise Unsupported(f"dtype variable holds {v}")

            def loop_handler(e, node, s0):
                outs = []
                for s1, it in e.ev(node.iter, s0):
                    if is_raised(it):
                        outs.append((s1, Outcome("raise", it.exc)))
                        continue
                    if not (isinstance(it, Z) and it.kind == "seq:dtspec" and it.t.eq(dtypes)):
                        raise Unsupported("dtype loop does not iterate over cls.dtypes")
                    name = dtype_name(s1)
                    flag = s1.env.get(V_FLAG)
                    if not (isinstance(flag, Z) and flag.kind == "bool"):
                        raise Unsupported("the match flag is not initialised before the loop")
                    unfold = lambda j: AnyM(j + 1, name) == z3.Or(AnyM(j, name), Match(dtypes[j], name))
                    e.oblige(s1, "dtype-loop:invariant-on-entry", z3.Not(flag.t))
                    # arbitrary iteration
                    s2 = s1.clone()
                    s2.pc += [0 <= k, k < nd, z3.Not(AnyM(0, name)), z3.Not(AnyM(k, name)), unfold(k)]
                    s2.env[V_FLAG] = Z("bool", z3.BoolVal(False))
                    for v in mod_vars:
                        if v not in (V_FLAG,) and v in s2.env and v != getattr(node.target, "id", None):
                            s2.env[v] = Opaque(f"havoc:{v}")
                    s2.env[node.target.id] = Z("dtspec", dtypes[k])
                    s2.path.append("dtype-loop:iter")
                    for s3, o3 in e.run(node.body, s2):
                        if o3.kind in ("normal", "continue"):
                            f3 = s3.env.get(V_FLAG)
                            e.oblige(s3, "dtype-loop:invariant-preserved", z3.And(z3.Not(f3.t), z3.Not(AnyM(k + 1, name))), spec_k=dtypes[k], name=name)
                        elif o3.kind == "break":
                            f3 = s3.env.get(V_FLAG)
                            e.oblige(s3, "dtype-loop:break-only-on-a-match", z3.And(f3.t, AnyM(k + 1, name)), spec_k=dtypes[k], name=name)
                            # monotone: AnyMatch(k+1) => AnyMatch(n)  (step lemma below + induction)
                            s4 = s3.fork(z3.And(AnyM(nd, name), f3.t), "dtype-loop:break")
                            outs.append((s4, NORMAL))
                        else:
                            outs.append((s3, o3))
                    # exit without break
                    s5 = s1.clone()
                    s5.pc += [z3.Not(AnyM(0, name)), z3.Not(AnyM(nd, name))]
                    s5.env[V_FLAG] = Z("bool", z3.BoolVal(False))
                    s5.path.append("dtype-loop:exhausted")
                    outs.append((s5, NORMAL))
                return outs

            eng.loop_specs[id(loop)] = loop_handler
            eng.const_true_exprs = set()
            outcomes = eng.run(fn.body, st)
            paths += len(outcomes)

            # ---- spec pieces
            at = z3.Const("array_type", U)
            isany = at == AnyT.t
            has_shape = z3.Function("py_hasattr_shape", U, BOOL)(obj.t)
            has_dtype = z3.Function("py_hasattr_dtype", U, BOOL)(obj.t)
            ArrayTypeOk = z3.If(isany, z3.And(has_shape, has_dtype), z3.Function("py_isinstance", U, U, BOOL)(obj.t, at))

            for s1, o in outcomes:
                topn = s1.ghost["top"]
                view1 = None
                if has_stack:
                    view1 = [(s1.get(r).m, s1.get(r).d) for r in topn]
                unchanged = z3.And(*[z3.And(a[0] == b[0], a[1] == b[1]) for a, b in zip(view1, view0)]) if has_stack else z3.BoolVal(True)
                # frame: cls untouched
                if s1.get(cls) is not cls0:
                    eng.oblige(s1, "modifies:annotation-class-untouched", z3.BoolVal(False))
                name_v = s1.env.get(V_NAME)
                if name_v is not None and o.kind == "return":
                    # C03: the dtype name is extracted as documented per backend model
                    ma = eng._memo_attr
                    dt_o = ma.get((obj.t.get_id(), "dtype"))
                    ty_o = ma.get((dt_o.t.get_id(), "type")) if dt_o is not None else None
                    anp_o = ma.get((dt_o.t.get_id(), "as_numpy_dtype")) if dt_o is not None else None
                    if dt_o is None or ty_o is None or anp_o is None:
                        eng.oblige(s1, "C03:name-extraction:reads-dtype.type.__name__/as_numpy_dtype.__name__/str-or-repr-tail", z3.BoolVal(False))
                    else:
                        Ufn = lambda n_, *sorts: z3.Function(n_, *sorts)
                        has_type = Ufn("py_hasattr_type", U, BOOL)(dt_o.t)
                        has_nm = Ufn("py_hasattr___name__", U, BOOL)(ty_o.t)
                        has_anp = Ufn("py_hasattr_as_numpy_dtype", U, BOOL)(dt_o.t)
                        is_str = Ufn("py_isinstance_str", U, BOOL)(dt_o.t)
                        as_str = Ufn("py_as_str", U, STR)
                        nm_t = name_v.t if isinstance(name_v, Z) else as_str(name_v.t)
                        A = z3.And(has_type, has_nm)
                        # structured NumPy dtype (statement of the private predicate): the type is np.void's subclass named "void" but the dtype is not the plain void dtype
                        structured = z3.And(NameOf(ty_o.t) == z3.StringVal("void"), dt_o.t != z3.Function("np_dtype", U, U)(np_void.t))
                        specn = z3.If(A, nm_t == z3.If(structured, Ufn("py_str", U, STR)(dt_o.t), NameOf(ty_o.t)),
                                      z3.If(has_anp, nm_t == NameOf(anp_o.t),
                                            z3.If(is_str, nm_t == as_str(dt_o.t), nm_t == RTail(Ufn("py_repr", U, STR)(dt_o.t)))))
                        eng.oblige(s1, "C03:name-extraction:numpy/jax-type-name(or-str-for-structured),TF-as_numpy_dtype-name,else-the-string-or-the-repr-tail-after-the-LAST-dot", specn)
                if o.kind == "return":
                    v = o.val
                    if not (isinstance(v, Z) and v.kind == "str"):
                        eng.oblige(s1, "ensures:result-is-str", z3.BoolVal(False))
                        continue
                    empty = v.t == z3.StringVal("")
                    # C04: a non-accepting check binds nothing
                    eng.oblige(s1, "C04:nonempty-result-implies-view-unchanged", z3.Implies(z3.Not(empty), unchanged))
                    # C01: accept <=> ArrayTypeOk /\ (flatten \/ (DtypeOk /\ ShapeOk))
                    if name_v is None:
                        dtype_ok = None
                    else:
                        nm = name_v.t if isinstance(name_v, Z) else z3.Function("py_as_str", U, STR)(name_v.t)
                        dtype_ok = z3.BoolVal(True) if dt_any else AnyM(nd, nm)
                    cs_in = s1.ghost.get("cs_in")
                    if dtype_ok is None:
                        # returned before the dtype was extracted: array-type failure or flatten mode
                        eng.oblige(s1, "C01:early-return-iff-wrong-array-type-or-flatten-mode", z3.If(empty, z3.And(ArrayTypeOk, TreeFlatten), z3.Not(ArrayTypeOk)))
                        eng.oblige(s1, "C01:early-return-leaves-view-unchanged", unchanged)
                    else:
                        S0 = (s0m, s0d, n0m, n0d) if has_stack else (z3.K(STR, z3.IntVal(0)), z3.K(STR, z3.BoolVal(False)), z3.K(STR, z3.Const("default_U", U)), z3.K(STR, z3.BoolVal(False)))
                        shape_ok = CSv(*S0) == 0
                        eng.oblige(s1, "C01:accept-iff-arraytype-and-dtype-and-shape", z3.And(ArrayTypeOk, z3.Not(TreeFlatten), empty == z3.And(dtype_ok, shape_ok)))
                        if has_stack:
                            post = z3.And(view1[0][0] == CSs_m(*S0), view1[0][1] == CSs_d(*S0), view1[1][0] == CSn_m(*S0), view1[1][1] == CSn_d(*S0),
                                          view1[2][0] == p0m, view1[2][1] == p0d, view1[3][0] == a0m, view1[3][1] == a0d)
                            eng.oblige(s1, "C01:accept-implies-view-is-spec-post-state", z3.Implies(empty, post))
                elif o.kind == "raise":
                    e = o.val
                    K = s1.ghost.get("exc_classes", {}).get(e.id, e.classes())
                    kind = "non-Exception BaseException" if K == {"NonExceptionBase"} else ("Exception" if "NonExceptionBase" not in K else "any class")
                    rep = "NonExceptionBase" if "NonExceptionBase" in K else sorted(K)[0]
                    eng.oblige(s1, f"C04:raise-implies-view-unchanged[{kind}]", unchanged, exc=z3.StringVal(rep), origin=z3.StringVal(str(e.origin)))
                    if e.origin not in ("_check_shape",) and not str(e.origin).startswith("obj"):
                        eng.oblige(s1, f"raises:only-user-code-raises[{'/'.join(sorted(K))} from {e.origin}]", z3.BoolVal(False))
                else:
                    eng.oblige(s1, "ensures:function-returns-a-value", z3.BoolVal(False))
            obligations.extend(st.obl)

    # lemma: AnyMatch monotone (step), used at `break`
    j = z3.Int("j")
    nm = z3.String("nm")
    obligations.append({"clause": "lemma:anymatch-monotone(step)", "pc": [0 <= j, j < nd, AnyM(j + 1, nm) == z3.Or(AnyM(j, nm), Match(dtypes[j], nm))], "goal": z3.Implies(AnyM(j, nm), AnyM(j + 1, nm)), "path": [], "meta": {}})
    obligations.append({"clause": "canary:dtype-loop-assumptions-satisfiable", "kind": "canary", "pc": [0 <= k, k < nd, z3.Not(AnyM(k, nm)), AnyM(k + 1, nm) == z3.Or(AnyM(k, nm), Match(dtypes[k], nm))], "goal": z3.BoolVal(False), "path": [], "meta": {}})

    # ---- __instancecheck__: result == (str result == "")
    fn2 = mod.func("_MetaAbstractArray.__instancecheck__")
    eng2 = Engine(mod)
    st2 = State()
    res = z3.String("ics_result")

    def m_ics(e, s, args, kwargs, node):
        return [(s, Z("str", res)), (s, Raised(Exc(frozenset(ANY_EXC), origin="__instancecheck_str__")))]

    cls2 = st2.alloc(Obj("annotation-class", {"__instancecheck_str__": Fn("__instancecheck_str__", model=m_ics)}, tag="cls"))
    p2 = [a.arg for a in fn2.args.args]
    st2.env = {p2[0]: cls2, p2[1]: Opaque("obj")}
    for s1, o in eng2.run(fn2.body, st2):
        paths += 1
        if o.kind == "return":
            ok = isinstance(o.val, Z) and o.val.kind == "bool"
            eng2.oblige(s1, "__instancecheck__:true-iff-str-result-empty", (o.val.t == (res == z3.StringVal(""))) if ok else z3.BoolVal(False))
        elif o.kind == "raise":
            eng2.oblige(s1, "__instancecheck__:only-propagates-callee-exceptions", z3.BoolVal(o.val.origin == "__instancecheck_str__"))
    obligations.extend(st2.obl)

    out = []
    for ob in obligations:
        ob = dict(ob)
        ob.setdefault("kind", "vc")
        c = ob["clause"]
        if c.startswith("C04:"):
            ob["serves"] = ["C04", "C12", "C13", "C01", "C02", "C17"]  # C17: leaked bindings make the verdict depend on the ORDER of checks, which jit/vmap change (sorted kwargs / dict keys)  # C01/C02: a non-accepting or raising check leaves the bindings as they were (the spec's post-state on those verdicts);  # C13: the bindings listed in an error are none taken from the check that failed
        elif c.startswith("C01:") or c.startswith("call:"):
            ob["serves"] = ["C01", "C02", "C17", "C16", "C15", "C08"]  # C15: array type Any / a bare TypeVar accepts exactly the objects with shape AND dtype
        ob["function"] = FUNC
        out.append(ob)
    return {
        "unit": NAME,
        "functions": [
            {"qualname": f"jaxtyping._array_types.{FUNC}", "sha256_16": mod.sha(fn), "lines": [fn.lineno, fn.end_lineno]},
            {"qualname": "jaxtyping._array_types._MetaAbstractArray.__instancecheck__", "sha256_16": mod.sha(fn2), "lines": [fn2.lineno, fn2.end_lineno]},
        ],
        "obligations": out,
        "paths": paths,
        "stats": {},
        "assumptions": [
            "cls._skip_instancecheck is False (class invariant; only make_transparent breaks it -- see C12)",
            "entries of cls.dtypes are str or re.Pattern (class invariant of AbstractDtype subclasses)",
            "hasattr / isinstance / attribute reads on obj and obj.dtype are deterministic within one check; they may raise any exception",
            "_check_shape used by its contract (unit check_shape); get/set_shape_memo, get_treeflatten_memo by theirs (unit storage)",
            "re.Pattern.match is an uninterpreted predicate PatMatch(pattern, name)",
        ],
    }
