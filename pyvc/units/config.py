"""Unit: jaxtyping/_config.py -- _maybestr2bool, _JaxtypingConfig.update / __init__ (C19 value table).

The argument `value` is a Dyn (bool | int | str | other): callers guarantee nothing about its type.
Contract of _maybestr2bool (the statement's table): bool -> itself; str whose lower() is "0"/"false" -> False,
"1"/"true" -> True; everything else ValueError. `str.lower` is an uninterpreted function shared by code and spec.
"""
from __future__ import annotations

import ast

import z3

from ..engine import DatatypeInfo, Engine, Raised, is_raised
from ..source import Module
from ..values import BOOL, INT, NONE, STR, U, Cls, Exc, Fn, Obj, Opaque, Ref, State, Tup, Unsupported, Z

NAME = "config"
REL = "jaxtyping/_config.py"

Dyn = z3.Datatype("Dyn")
Dyn.declare("bool", ("bool.b", BOOL))
Dyn.declare("int", ("int.i", INT))
Dyn.declare("str", ("str.s", STR))
Dyn.declare("other", ("other.u", U))
Dyn = Dyn.create()
lower = z3.Function("py_str_lower", STR, STR)


def dyn_engine(mod):
    eng = Engine(mod)
    eng.datatypes["dyn"] = DatatypeInfo("dyn", Dyn, {"bool": ["b"], "int": ["i"], "str": ["s"], "other": ["u"]}, [], {"b": "bool", "i": "int", "s": "str", "u": "u"})

    def isinst(e, st, v, c):
        if isinstance(v, Z) and v.kind == "dyn" and isinstance(c, Cls):
            if c.name == "bool":
                return Dyn.is_bool(v.t)
            if c.name == "str":
                return Dyn.is_str(v.t)
            if c.name == "int":
                return z3.Or(Dyn.is_bool(v.t), Dyn.is_int(v.t))  # bool is a subclass of int
            return z3.BoolVal(False)
        return None

    eng.method_models["__isinstance__"] = isinst

    def m_lower(e, st, recv, args, kwargs, node):
        if isinstance(recv, Z) and recv.kind == "dyn":
            # a method call on a value of unknown type: type-safety obligation (AttributeError otherwise)
            ok = st.fork(Dyn.is_str(recv.t), "dyn:is-str")
            bad = st.fork(z3.Not(Dyn.is_str(recv.t)), "dyn:not-str")
            outs = []
            if e.feasible(ok.pc):
                outs.append((ok, Z("str", lower(getattr(Dyn, "str.s")(recv.t)))))
            if e.feasible(bad.pc):
                outs.append((bad, Raised(Exc("AttributeError", origin=".lower()"))))
            return outs
        return None

    eng.method_models["lower"] = m_lower
    return eng


def build(repo=None):
    mod = Module(REL, repo)
    obligations, functions = [], []
    paths = 0
    # ------------------------------------------------------------------ _maybestr2bool
    fn = mod.func("_maybestr2bool")
    functions.append({"qualname": "jaxtyping._config._maybestr2bool", "sha256_16": mod.sha(fn), "lines": [fn.lineno, fn.end_lineno]})
    eng = dyn_engine(mod)
    st = State()
    v = z3.Const("value", Dyn)
    params = [a.arg for a in fn.args.args]
    if len(params) != 2:
        raise Unsupported("_maybestr2bool signature")
    st.env = {params[0]: Z("dyn", v), params[1]: Z("str", z3.String("error_text"))}
    s_low = lower(getattr(Dyn, "str.s")(v))
    is_false = z3.And(Dyn.is_str(v), z3.Or(s_low == z3.StringVal("0"), s_low == z3.StringVal("false")))
    is_true = z3.And(Dyn.is_str(v), z3.Or(s_low == z3.StringVal("1"), s_low == z3.StringVal("true")))
    for s1, o in eng.run(fn.body, st):
        paths += 1
        meta = dict(value=v)
        if o.kind == "return":
            r = o.val
            if isinstance(r, Z) and r.kind == "dyn":
                # returns the argument itself: only allowed when it is a bool
                eng.oblige(s1, "maybestr2bool:returns-the-argument-only-if-it-is-a-bool", z3.And(r.t == v, Dyn.is_bool(v)), **meta)
            elif isinstance(r, Z) and r.kind == "bool":
                eng.oblige(s1, "maybestr2bool:str-result-follows-the-value-table", z3.And(z3.Not(Dyn.is_bool(v)), z3.Or(z3.And(r.t, is_true), z3.And(z3.Not(r.t), is_false))), **meta)
            else:
                eng.oblige(s1, "maybestr2bool:returns-a-bool", z3.BoolVal(False), **meta)
        elif o.kind == "raise":
            e = o.val
            eng.oblige(s1, f"maybestr2bool:only-ValueError-is-raised[{'/'.join(sorted(e.classes()))}]", z3.BoolVal(e.classes() == {"ValueError"}), **meta)
            eng.oblige(s1, "maybestr2bool:ValueError-exactly-for-values-outside-the-table", z3.And(z3.Not(Dyn.is_bool(v)), z3.Not(is_true), z3.Not(is_false)), **meta)
        else:
            eng.oblige(s1, "maybestr2bool:returns-or-raises", z3.BoolVal(False))
    obligations.extend(st.obl)
    obligations.append({"clause": "canary:value-table-not-contradictory", "kind": "canary", "pc": [is_true], "goal": z3.BoolVal(False), "path": [], "meta": {}})

    # ------------------------------------------------------------------ _JaxtypingConfig.update
    fu = mod.func("_JaxtypingConfig.update")
    functions.append({"qualname": "jaxtyping._config._JaxtypingConfig.update", "sha256_16": mod.sha(fu), "lines": [fu.lineno, fu.end_lineno]})
    eng = dyn_engine(mod)
    M2B = z3.Function("maybestr2bool_result", Dyn, BOOL)

    def m_m2b(e, st, args, kwargs, node):
        val = args[0]
        if not (isinstance(val, Z) and val.kind == "dyn"):
            raise Unsupported("update passes something else than `value` to _maybestr2bool")
        return [(st.fork(None, "m2b:ok"), Z("bool", M2B(val.t))), (st.fork(None, "m2b:ValueError"), Raised(Exc("ValueError", origin="_maybestr2bool")))]

    eng.globals["_maybestr2bool"] = Fn("_maybestr2bool", model=m_m2b)
    st = State()
    item = z3.String("item")
    self_ref = st.alloc(Obj("_JaxtypingConfig", {"jaxtyping_disable": Z("bool", z3.Bool("old_disable")), "jaxtyping_remove_typechecker_stack": Z("bool", z3.Bool("old_remove"))}, tag="self"))
    self0 = st.get(self_ref)
    pu = [a.arg for a in fu.args.args]
    st.env = {pu[0]: self_ref, pu[1]: Z("str", item), pu[2]: Z("dyn", v)}
    li = lower(item)
    for s1, o in eng.run(fu.body, st):
        paths += 1
        now = s1.get(self_ref)
        changed = [k for k in now.attrs if now.attrs[k] is not self0.attrs.get(k)]
        if o.kind in ("normal", "return"):
            if changed == ["jaxtyping_disable"]:
                eng.oblige(s1, "update:sets-exactly-the-named-switch(case-insensitive)", z3.And(li == z3.StringVal("jaxtyping_disable"), now.attrs["jaxtyping_disable"].t == M2B(v)))
            elif changed == ["jaxtyping_remove_typechecker_stack"]:
                eng.oblige(s1, "update:sets-exactly-the-named-switch(case-insensitive)", z3.And(li == z3.StringVal("jaxtyping_remove_typechecker_stack"), now.attrs["jaxtyping_remove_typechecker_stack"].t == M2B(v)))
            else:
                eng.oblige(s1, f"update:sets-exactly-one-known-switch[changed={changed}]", z3.BoolVal(False))
        elif o.kind == "raise":
            e = o.val
            eng.oblige(s1, "update:a-rejected-update-changes-nothing-and-raises-ValueError", z3.BoolVal(not changed and e.classes() == {"ValueError"}))
            if e.origin != "_maybestr2bool":
                eng.oblige(s1, "update:unknown-item-is-rejected-only-when-it-names-no-switch", z3.And(li != z3.StringVal("jaxtyping_disable"), li != z3.StringVal("jaxtyping_remove_typechecker_stack")))
    obligations.extend(st.obl)

    # ------------------------------------------------------------------ __init__: both switches read from the environment, default "0"
    fi = mod.func("_JaxtypingConfig.__init__")
    functions.append({"qualname": "jaxtyping._config._JaxtypingConfig.__init__", "sha256_16": mod.sha(fi), "lines": [fi.lineno, fi.end_lineno]})
    # executed: every path of __init__ must make exactly the two update(<switch>, os.environ.get(<VARIABLE>, "0")) calls (helpers, loops over module constants followed)
    eng = Engine(mod)
    st = State()
    st.ghost["updates"] = []
    self_ref = st.alloc(Obj("_JaxtypingConfig", {}, tag="self"))

    def m_update(e, s, recv, args, kw, nd):
        if recv is self_ref or (isinstance(recv, Ref) and recv == self_ref):
            s1 = s.clone()
            s1.ghost["updates"] = s1.ghost["updates"] + [tuple(args) if not kw else ("keywords",)]
            return [(s1, NONE)]
        return None

    def m_get(e, s, recv, args, kw, nd):
        if isinstance(recv, Opaque) and recv.tag == "os.environ" and not kw and len(args) == 2:
            return [(s, Opaque("environ.get", attrs={"args": Tup(list(args))}))]
        return None

    eng.method_models.update({"update": m_update, "get": m_get})
    eng.globals["os"] = Opaque("module:os", attrs={"environ": Opaque("os.environ")})
    st.env = {fi.args.args[0].arg: self_ref}

    def lit(v):
        return z3.simplify(v.t).as_string() if isinstance(v, Z) and v.kind == "str" and z3.is_string_value(z3.simplify(v.t)) else None

    want = {("jaxtyping_disable", "JAXTYPING_DISABLE", "0"), ("jaxtyping_remove_typechecker_stack", "JAXTYPING_REMOVE_TYPECHECKER_STACK", "0")}
    for s1, o in eng.run(fi.body, st):
        paths += 1
        calls = set()
        for u in s1.ghost["updates"]:
            if len(u) == 2 and isinstance(u[1], Opaque) and u[1].tag == "environ.get":
                g = u[1].attrs["args"].items
                calls.add((lit(u[0]), lit(g[0]), lit(g[1])))
            else:
                calls.add(("?",))
        eng.oblige(s1, "init:both-switches-initialised-from-their-environment-variables-default-0", z3.BoolVal(o.kind in ("normal", "return") and calls == want and len(s1.ghost["updates"]) == 2), found=z3.StringVal(str(sorted(calls, key=str))))
    obligations.extend(st.obl)
    singleton = any(isinstance(n, ast.Assign) and getattr(n.targets[0], "id", None) == "config" and isinstance(n.value, ast.Call) and getattr(n.value.func, "id", None) == "_JaxtypingConfig" for n in mod.tree.body)
    ccls = mod.cls("_JaxtypingConfig")
    own_state = sorted({b.name for b in ccls.body if isinstance(b, (ast.FunctionDef, ast.AsyncFunctionDef))})
    obligations.append({"clause": "init:the-switches-live-on-one-plain-process-wide-object(no-base-class/metaclass:-not-thread-local,-no-attribute-hooks)", "pc": [], "path": [],
                        "goal": z3.BoolVal([ast.unparse(b) for b in ccls.bases] in ([], ["object"]) and not ccls.keywords and not ({"__getattr__", "__getattribute__", "__setattr__", "__get__", "__set__"} & set(own_state))),
                        "meta": {"bases": z3.StringVal(",".join(ast.unparse(b) for b in ccls.bases)), "methods": z3.StringVal(",".join(own_state))}})
    obligations.append({"clause": "init:module-level-config-singleton", "pc": [], "goal": z3.BoolVal(singleton), "path": [], "meta": {}})
    out = []
    for ob in obligations:
        ob = dict(ob)
        ob.setdefault("kind", "vc")
        out.append(ob)
    return {"unit": NAME, "functions": functions, "obligations": out, "paths": paths, "stats": {},
            "assumptions": ["str.lower is an uninterpreted function used consistently by code and spec", "os.environ.get(name, default) returns the variable's value or the default (T5)"]}
