"""Replays counter-models of unit config: _maybestr2bool is model-driven (the Dyn value of the model is rebuilt as a Python
value and the real function is compared with the value table of the statement; because str.lower is uninterpreted in the VC,
spelling variants of the model string are tried as well); update(): the same values through config.update on a fresh _JaxtypingConfig."""
import json, sys, argparse
ap = argparse.ArgumentParser(); ap.add_argument("--repo"); a = ap.parse_args()
payload = json.load(sys.stdin)
from pyvc.modelparse import meta
clause = payload.get("obligation", "")
model = payload.get("model") or {}
out = {"reproduced": None, "model_concrete": False}


def table(v):
    """the statement's value table: bool -> itself; '0'/'false' -> False, '1'/'true' -> True in any case; anything else -> ValueError"""
    if isinstance(v, bool):
        return ("value", v)
    if isinstance(v, str) and v.lower() in ("0", "false"):
        return ("value", False)
    if isinstance(v, str) and v.lower() in ("1", "true"):
        return ("value", True)
    return ("raises", "ValueError")


def native(f, v):
    try:
        r = f(v)
        return ("value", r)
    except BaseException as e:  # noqa
        return ("raises", type(e).__name__)


mv = meta(model, "value")
cands = []
if isinstance(mv, tuple) and mv:
    kind = mv[0]
    if kind == "bool" and len(mv) > 1:
        cands = [bool(mv[1])]
    elif kind == "int" and len(mv) > 1:
        cands = [int(mv[1])]
    elif kind == "str" and len(mv) > 1:
        s = str(mv[1])
        cands = [s, s.lower(), s.upper(), s.title()]
    elif kind == "other":
        cands = [None, 1.5, object(), b"1", ("1",)]
# a fixed catalogue in addition (the model may be an abstract witness): every table row in several spellings + near misses
cands += [True, False, "0", "1", "true", "false", "TRUE", "False", "tRuE", "yes", "no", "on", "off", "", " 1", "1 ", "01", "2", "t", "y", 0, 1, 2, None, 1.0, b"true"]
from jaxtyping import _config as C
if "maybestr2bool" in clause or "update" in clause:
    fails = []
    for v in cands:
        want = table(v)
        if "update" in clause:
            def f(x):
                cfg = C._JaxtypingConfig()
                cfg.update("JAXTYPING_DISABLE", x)
                return cfg.jaxtyping_disable
        else:
            f = lambda x: C._maybestr2bool(x, "msg")
        got = native(f, v)
        ok = got == want and (got[0] != "value" or type(got[1]) is bool)
        if not ok:
            fails.append({"value": repr(v), "expected": want, "native": [got[0], repr(got[1])]})
    out.update(reproduced=bool(fails), model_concrete=bool(mv), input={"model_value": repr(mv)}, failures=fails[:6],
               snippet=("from jaxtyping._config import _maybestr2bool; print(_maybestr2bool(%s, 'msg'))" % fails[0]["value"]) if fails else None)
else:
    out["error"] = "no native realisation for this clause"
print(json.dumps(out, default=str))
