import warnings, numpy as np, sys, re, dataclasses, typing
warnings.simplefilter("ignore")
import jax, jax.numpy as jnp
import typeguard, beartype
from jaxtyping import *
import jaxtyping
from jaxtyping import jaxtyped, PyTree, print_bindings, config
from typing import Iterator, Union
def sec(s): print("\n=== "+s)
def tryit(label, f):
    try: print(label, "->", f())
    except BaseException as e: print(label, "-> RAISED", type(e).__name__, str(e)[:120].replace("\n"," | "))

sec("C19 disable")
@jaxtyped(typechecker=typeguard.typechecked)
def f(x: Float[np.ndarray, "a"]): return "ran"
config.update("jaxtyping_disable", True)
tryit("new-style disabled ill-typed", lambda: f("bad"))
@jaxtyped
@typeguard.typechecked
def fo(x: Float[np.ndarray, "a"]): return "ran"
tryit("old-style disabled ill-typed", lambda: fo("bad"))
@jaxtyped(typechecker=typeguard.typechecked)
@dataclasses.dataclass
class D:
    x: Float[np.ndarray, "a"]
tryit("dataclass disabled ill-typed", lambda: D("bad"))
config.update("jaxtyping_disable", False)
tryit("re-enabled ill-typed", lambda: f("bad"))
for v in ("TRUE","False","1","0","yes",1,None,"", " 1"):
    tryit(f"update({v!r})", lambda: (config.update("jaxtyping_disable", v), config.jaxtyping_disable)[1])
config.update("jaxtyping_disable", False)
@typing.no_type_check
@jaxtyped(typechecker=typeguard.typechecked)
def f3(x: Float[np.ndarray, "a"]): return "ran"
tryit("no_type_check above", lambda: f3("bad"))
@jaxtyped(typechecker=typeguard.typechecked)
@typing.no_type_check
def f4(x: Float[np.ndarray, "a"]): return "ran"
tryit("no_type_check below", lambda: f4("bad"))

sec("C09 build-time structure strings")
for s in ["T", "S T", "... T", "T ...", "... T ...", "...", "", "  ", "T,S", "1T", "T ... S", "... ... T", 3]:
    tryit(repr(s), lambda: PyTree[int, s].__name__)

sec("C15 regex dtypes + scalar")
class MyD(AbstractDtype):
    dtypes = [re.compile("foo.*"), "int32"]
tryit("MyD[int,'']", lambda: MyD[int, ""])
tryit("MyD[Union[int,np.ndarray],'']", lambda: MyD[Union[int, np.ndarray], ""])
tryit("Key[int,'']", lambda: Key[int, ""])
tryit("UInt[int,'']", lambda: UInt[int, ""])
tryit("Float[bool,'']", lambda: Float[bool, ""])
tryit("Int[bool,'']", lambda: Int[bool, ""])
tryit("Bool[int,'']", lambda: Bool[int, ""])
tryit("Float[float,'a']", lambda: Float[float, "a"])
tryit("Float[float,'*a']", lambda: Float[float, "*a"])
tryit("Shaped[np.generic, '...']", lambda: Shaped[np.generic, "..."])

sec("C14 odd tokens")
for s in ["*", "?", "x=", "#", "_", "*_", "_*", "#*a", "*#a", "?*#a", "a=b=3", "a=#3", "#a=3", "a=*b", "**a", "__a", "_a", "_4", "*4", "?4", "#_", "a+b", "_a+b", "..#", "...a", "#...", "a,b", "min(a,b)", "a, b", "3", "-3", "+3", "1_0", "٣", "a b", " a  b ", "a\tb", "a\nb", "... ...", "*a *b", "*a ...", "x=...", "$", "a$", "ａ"]:
    def mk(s=s):
        A = Float[np.ndarray, s]
        return (A.dims, A.index_variadic)
    tryit(repr(s), mk)
