"""Bounded stand-in for C03: dtype categories accept exactly the documented dtypes, on every backend.

EXHAUSTIVE table (dtype x category x backend).  The oracle is an independent classifier built from
docs/api/array.md (the category hierarchy) and from the array libraries' own dtype predicates
(np.issubdtype, ml_dtypes.iinfo/finfo, tf.DType.is_floating ...), never from jaxtyping's dtype tables.

Run:  PYTHONPATH=<repo>:/verif JAX_PLATFORMS=cpu /venv/bin/python bounded/b03_dtypes.py --tier quick --repo <repo>
"""
import os
import re
import sys
import typing

os.environ.setdefault("JAX_PLATFORMS", "cpu")
os.environ.setdefault("TF_CPP_MIN_LOG_LEVEL", "3")
sys.path.insert(0, os.path.dirname(os.path.abspath(__file__)))
import _common  # noqa: E402

args = _common.setup("C03 dtype table")

import numpy as np  # noqa: E402
import ml_dtypes  # noqa: E402
import jax  # noqa: E402

jax.config.update("jax_enable_x64", True)
import jax.numpy as jnp  # noqa: E402
import jaxtyping  # noqa: E402

THOROUGH = args.tier == "thorough"

# --------------------------------------------------------------------------------------------
# 1. The documented hierarchy (docs/api/array.md, section "Dtype"), written as predicates on a
#    *kind* in {bool, uint, int, float, complex, key, other}.
# --------------------------------------------------------------------------------------------
GENERAL = {
    "Shaped": lambda k: True,  # "Any dtype at all"
    "Bool": lambda k: k == "bool",
    "Key": lambda k: k == "key",
    "Num": lambda k: k in ("uint", "int", "float", "complex"),
    "Inexact": lambda k: k in ("float", "complex"),
    "Float": lambda k: k == "float",
    "Complex": lambda k: k == "complex",
    "Integer": lambda k: k in ("uint", "int"),
    "UInt": lambda k: k == "uint",
    "Int": lambda k: k == "int",
    "Real": lambda k: k in ("float", "uint", "int"),
}
# "Of particular precision": the class accepts exactly the one dtype of that canonical name.
PRECISION = {
    "UInt2": "uint2", "UInt4": "uint4", "UInt8": "uint8", "UInt16": "uint16", "UInt32": "uint32", "UInt64": "uint64",
    "Int2": "int2", "Int4": "int4", "Int8": "int8", "Int16": "int16", "Int32": "int32", "Int64": "int64",
    "BFloat16": "bfloat16", "Float16": "float16", "Float32": "float32", "Float64": "float64",
    "Complex64": "complex64", "Complex128": "complex128",
    "Float8e4m3b11fnuz": "float8_e4m3b11fnuz", "Float8e4m3fn": "float8_e4m3fn", "Float8e4m3fnuz": "float8_e4m3fnuz",
    "Float8e5m2": "float8_e5m2", "Float8e5m2fnuz": "float8_e5m2fnuz",
}
assert len(GENERAL) + len(PRECISION) == 34


# user-defined categories (generated): string list, single string, compiled regex
class UserList(jaxtyping.AbstractDtype):
    dtypes = ["float32", "int8"]


class UserStr(jaxtyping.AbstractDtype):
    dtypes = "uint16"


USER_RE = re.compile("u?int(8|16)")


class UserRegex(jaxtyping.AbstractDtype):
    dtypes = USER_RE


USER = {"UserList": (("float32", "int8"), ()), "UserStr": (("uint16",), ()), "UserRegex": ((), (USER_RE,))}
USER_CLS = {"UserList": UserList, "UserStr": UserStr, "UserRegex": UserRegex}

# structured-dtype categories made with make_numpy_struct_dtype ("exact match on the name, order, and dtype of all its fields")
STRUCTS = {
    "struct_u1_i1": np.dtype([("first", np.uint8), ("second", np.int8)]),
    "struct_i1_u1_swapped": np.dtype([("second", np.int8), ("first", np.uint8)]),
    "struct_renamed": np.dtype([("first", np.uint8), ("third", np.int8)]),
    "struct_retyped": np.dtype([("first", np.uint8), ("second", np.int16)]),
    "struct_one_field": np.dtype([("first", np.uint8)]),
    "struct_subarray": np.dtype([("first", np.float32, (2,)), ("second", np.int8)]),
}
STRUCT_CATS = {}
STRUCT_CAT_ERRORS = {}
for _n in ("struct_u1_i1", "struct_subarray"):
    try:
        STRUCT_CATS["Struct_" + _n] = (jaxtyping.make_numpy_struct_dtype(STRUCTS[_n], "Struct_" + _n), _n)
    except Exception as e:  # result, reported below
        STRUCT_CAT_ERRORS["Struct_" + _n] = e


# --------------------------------------------------------------------------------------------
# 2. Independent dtype classifier
# --------------------------------------------------------------------------------------------
def np_kind(dt):
    """kind of a numpy dtype, from numpy's / ml_dtypes' own predicates. None = the statement is ambiguous."""
    dt = np.dtype(dt)
    if dt.fields is not None:
        return "other"
    if np.issubdtype(dt, np.timedelta64):
        return None  # numpy files timedelta64 under signedinteger; the jaxtyping docs are silent -> excluded
    if np.issubdtype(dt, np.bool_):
        return "bool"
    if np.issubdtype(dt, np.unsignedinteger):
        return "uint"
    if np.issubdtype(dt, np.signedinteger):
        return "int"
    if np.issubdtype(dt, np.floating):
        return "float"
    if np.issubdtype(dt, np.complexfloating):
        return "complex"
    if dt.type.__module__.split(".")[0] == "ml_dtypes":
        try:
            ii = ml_dtypes.iinfo(dt)
            return "int" if ii.min < 0 else "uint"
        except ValueError:
            pass
        try:
            ml_dtypes.finfo(dt)
            return "float"
        except ValueError:
            pass
    return "other"


class DT:
    """One dtype of the enumeration."""

    def __init__(self, ident, canon, kind, family, npdt=None, np_src=None, tfdt=None, key_impl=None, quant_descr=None):
        self.ident = ident  # stable id (type name)
        self.canon = canon  # canonical dtype name (np.dtype(x).name / tf name); None if no unambiguous name
        self.kind = kind  # oracle kind or None (ambiguous)
        self.family = family
        self.npdt = npdt
        self.np_src = np_src  # python source building the numpy dtype
        self.tfdt = tfdt
        self.key_impl = key_impl
        self.quant_descr = quant_descr  # TF quantised dtype: the structured numpy dtype that tf.DType.as_numpy_dtype returns


def collect_numpy():
    types_ = []

    def add(t):
        try:
            dt = np.dtype(t)
        except TypeError:
            return
        if dt.type not in types_:
            types_.append(dt.type)

    for group in np.core.sctypes.values():
        for t in group:
            add(t)
    for t in np.sctypeDict.values():
        add(t)
    for n in ("longlong", "ulonglong", "intc", "uintc", "longdouble", "clongdouble", "half", "bool_", "void", "str_",
              "bytes_", "object_", "datetime64", "timedelta64", "byte", "ubyte", "short", "ushort", "int_", "uint",
              "single", "double", "csingle", "cdouble", "intp", "uintp"):
        add(getattr(np, n))
    for n in dir(ml_dtypes):
        t = getattr(ml_dtypes, n)
        if isinstance(t, type) and issubclass(t, np.generic):
            add(t)
    # standard fixed-width types first, then aliases (JAX memoises dtype canonicalisation by dtype equality, so the
    # order decides which scalar type a JAX int64 array reports; the standard one must win)
    types_.sort(key=lambda t: (np.dtype(t).name != t.__name__.rstrip("_"), t.__module__, t.__name__))
    out = []
    for t in types_:
        mod = t.__module__.split(".")[0]
        tname = t.__name__
        src_t = ("np." if mod == "numpy" else "ml_dtypes.") + tname
        variants = [(tname, np.dtype(t), f"np.dtype({src_t})")]
        if tname == "str_":
            variants = [("str_U3", np.dtype("U3"), "np.dtype('U3')")]
        elif tname == "bytes_":
            variants = [("bytes_S3", np.dtype("S3"), "np.dtype('S3')")]
        elif tname == "void":
            variants = [("void_V4", np.dtype("V4"), "np.dtype('V4')")]
        elif tname == "datetime64":
            variants.append(("datetime64_s", np.dtype("M8[s]"), "np.dtype('M8[s]')"))
        elif tname == "timedelta64":
            variants.append(("timedelta64_s", np.dtype("m8[s]"), "np.dtype('m8[s]')"))
        for ident, dt, src in variants:
            kind = np_kind(dt)
            canon = dt.name
            if mod == "ml_dtypes":
                # a low-precision float is "new" when no exported precision class is named after it (docs/api/array.md lists
                # BFloat16; jaxtyping/__init__ exports the five Float8* classes): those are the F11:newfloat input class
                if kind == "float":
                    family = "mlfloat" if canon in PRECISION.values() else "newfloat"
                else:
                    family = {"int": "mlint", "uint": "mlint"}.get(kind, "ml")
            elif kind in ("bool", "uint", "int", "float", "complex"):
                if canon == tname.rstrip("_"):
                    family = "std"
                elif re.fullmatch(r"(u?int|float|complex)(8|16|32|64)", canon) and canon not in ("float128",):
                    family = "alias"  # e.g. longlong: dtype prints int64, scalar type is called longlong
                else:
                    family = "extprec"  # longdouble / clongdouble (float128 / complex256)
            else:
                family = "nonnumeric"
            # flexible / datetime / object / void dtypes have no library-independent name: canon = None
            canon_name = canon if kind in ("bool", "uint", "int", "float", "complex") else None
            out.append(DT(ident, canon_name, kind, family, npdt=dt, np_src=src))
    for n, dt in STRUCTS.items():
        out.append(DT(n, None, "other", "struct", npdt=dt, np_src=f"np.dtype({dt.descr!r})"))
    return out


def collect_keys():
    out = []
    for impl in ("threefry2x32", "rbg", "unsafe_rbg"):
        try:
            jax.random.key(0, impl=impl)
        except Exception:
            continue
        out.append(DT("key_" + impl, None, "key", "key", key_impl=impl))
    return out


DTYPES = collect_numpy() + collect_keys()
BY_CANON = {d.canon: d for d in DTYPES if d.canon is not None and d.family != "alias"}
# TensorFlow's quantised dtypes report `as_numpy_dtype` as a one-field structured np.dtype *instance* (tensorflow/python/framework/
# dtypes.py: _np_qint8 = np.dtype([("qint8", np.int8)]) ...).  The real tf.DTypes are enumerated in the thorough tier; both tiers
# also carry them on a tf-style duck dtype so that the quick tier (no TensorFlow import) sees the same input class.
QUANT = {"qint8": [("qint8", "i1")], "quint8": [("quint8", "u1")], "qint16": [("qint16", "<i2")], "quint16": [("quint16", "<u2")],
         "qint32": [("qint32", "<i4")]}

CATS = {}
for n in list(GENERAL) + list(PRECISION):
    CATS[n] = getattr(jaxtyping, n)
CATS.update(USER_CLS)
for n, (c, _) in STRUCT_CATS.items():
    CATS[n] = c


def regex_verdicts(p, name):
    return {bool(p.match(name)), bool(p.search(name)), bool(p.fullmatch(name))}


def expected(cat, d, backend):
    """True / False / None (statement silent or ambiguous -> excluded from the verdict comparison)."""
    if cat == "Shaped":
        return True
    if cat in GENERAL:
        if d.kind is None:
            return None
        if d.family == "tfquant":
            # quantised ints are certainly not bool/float/complex/key; whether they are "integers" is not documented
            return False if cat in ("Bool", "Key", "Float", "Complex", "Inexact") else None
        return GENERAL[cat](d.kind)
    if cat in PRECISION:
        if d.kind is None or d.family == "tfquant":
            return None
        if d.kind in ("other", "key"):
            return False
        return d.canon == PRECISION[cat]
    if cat in USER:
        strings, pats = USER[cat]
        if d.kind is None or d.family == "tfquant":
            return None
        if d.canon is None:
            # no unambiguous name; none of our strings / patterns is anywhere near a non-numeric or key dtype name
            return False
        vs = {d.canon in strings}
        for p in pats:
            r = regex_verdicts(p, d.canon)
            if len(r) != 1:
                return None  # match / search / fullmatch disagree: statement ambiguous
            vs |= r
        return True in vs
    if cat in STRUCT_CATS:
        if backend.startswith("duck"):
            return None  # make_numpy_struct_dtype is documented for numpy structured arrays only
        target = STRUCTS[STRUCT_CATS[cat][1]]
        if d.npdt is None:
            return False
        if d.npdt.fields is None:
            return False
        return d.npdt.descr == target.descr and d.npdt == target
    raise AssertionError(cat)


# --------------------------------------------------------------------------------------------
# 3. Backends: each yields (backend name, array type expr, value, source snippet building `x`)
# --------------------------------------------------------------------------------------------
class Duck:
    def __init__(self, dtype, shape=(2,)):
        self.dtype = dtype
        self.shape = shape


class TorchStyleDtype:
    """repr is 'torch.float32'; no .type, no .as_numpy_dtype"""

    def __init__(self, name):
        self._n = name

    def __repr__(self):
        return "torch." + self._n


class QualifiedStyleDtype:
    """repr is module-qualified with several dots, e.g. 'mlx.core.float32' (the documented escape hatch takes the tail after the LAST dot)"""

    def __init__(self, name):
        self._n = name

    def __repr__(self):
        return "mlx.core." + self._n


class TFStyleDtype:
    """mimics the public surface of tf.DType without importing TensorFlow: .as_numpy_dtype (a numpy scalar type, or a one-field
    structured np.dtype instance for the quantised dtypes), .name, the is_* predicates, repr 'tf.float32'; no .type"""

    def __init__(self, name, as_numpy_dtype, kind=None):
        self.name = name
        self.as_numpy_dtype = as_numpy_dtype
        self.is_quantized = name in ("qint8", "quint8", "qint16", "quint16", "qint32")
        self.is_bool = kind == "bool"
        self.is_floating = kind == "float"
        self.is_complex = kind == "complex"
        self.is_integer = kind in ("int", "uint") and not self.is_quantized
        self.is_unsigned = kind == "uint" or name.startswith("qu")
        self.is_numeric = kind in ("int", "uint", "float", "complex") or self.is_quantized
        self.base_dtype = self
        self.real_dtype = self
        self.is_numpy_compatible = True

    def __repr__(self):
        return "tf." + self.name

    def __str__(self):
        return f"<dtype: {self.name!r}>"

    def __eq__(self, other):
        return isinstance(other, TFStyleDtype) and other.name == self.name

    def __hash__(self):
        return hash(self.name)


TORCH_NAMES = {"float16", "float32", "float64", "bfloat16", "complex64", "complex128", "uint8", "uint16", "uint32", "uint64",
               "int8", "int16", "int32", "int64", "bool", "float8_e4m3fn", "float8_e5m2", "float8_e4m3fnuz", "float8_e5m2fnuz"}
TFSTYLE_NAMES = {"float16", "float32", "float64", "bfloat16", "complex64", "complex128", "uint8", "uint16", "uint32", "uint64",
                 "int8", "int16", "int32", "int64", "bool", "float8_e4m3fn", "float8_e5m2", "float8_e4m3fnuz", "float8_e5m2fnuz",
                 "float8_e4m3b11fnuz", "int4", "uint4", "int2", "uint2", "float4_e2m1fn"}

DUCK_SRC = "class Duck:\n    def __init__(self, dtype): self.dtype = dtype; self.shape = (2,)\n"
TORCH_SRC = DUCK_SRC + "class TorchDT:\n    def __init__(s, n): s.n = n\n    def __repr__(s): return 'torch.' + s.n\n"
TFS_SRC = DUCK_SRC + "class TFDT:\n    def __init__(s, t, name=None): s.as_numpy_dtype = t; s.name = name or t.__name__\n"

tf = None
if THOROUGH:
    import tensorflow as tf  # noqa: E402

    def collect_tf():
        from tensorflow.core.framework import types_pb2

        seen, out = set(), []
        cands = [v for v in vars(tf.dtypes).values() if isinstance(v, tf.DType)]
        exp = getattr(tf.dtypes, "experimental", None)
        if exp is not None:
            cands += [v for v in vars(exp).values() if isinstance(v, tf.DType)]
        for _, val in sorted(types_pb2.DataType.items(), key=lambda kv: kv[1]):
            try:
                cands.append(tf.dtypes.as_dtype(val))
            except TypeError:
                pass
        for d in cands:
            if d._is_ref_dtype or d.name in seen:
                continue
            seen.add(d.name)
            qd = None
            if d.is_quantized:
                kind, family, canon = "other", "tfquant", d.name
                qd = QUANT.get(d.name)
            elif d.is_bool:
                kind, family, canon = "bool", "tf", "bool"
            elif d.is_complex:
                kind, family, canon = "complex", "tf", d.name
            elif d.is_floating:
                kind, family, canon = "float", "tf", d.name
            elif d.is_integer:
                kind, family, canon = ("uint" if d.is_unsigned else "int"), "tf", d.name
            else:
                kind, family, canon = "other", ("tfopaque" if d.name in ("resource", "variant") else "tf"), None
            ident = "tf_" + d.name
            if family == "tf" and canon in BY_CANON and BY_CANON[canon].kind == kind:
                # same dtype as a numpy/ml_dtypes one: same failure identity whichever library carries it
                ident, family = BY_CANON[canon].ident, BY_CANON[canon].family
            out.append(DT(ident, canon, kind, family, tfdt=d, quant_descr=qd))
        out.sort(key=lambda x: x.tfdt.name)
        return out

    DTYPES += collect_tf()
else:
    DTYPES += [DT("tf_" + n, n, "other", "tfquant", quant_descr=q) for n, q in sorted(QUANT.items())]


def backends(d):
    """yield (backend, annotation array type, array type source, value-or-thunk, snippet-prelude).  value thunks that fail -> backend skipped."""
    if d.npdt is not None:
        dt = d.npdt
        x = np.zeros((2,), dtype=dt)
        pre = f"import numpy as np, ml_dtypes, typing\nx = np.zeros((2,), dtype={d.np_src})\n"
        yield "numpy", np.ndarray, "np.ndarray", x, pre
        yield "numpy-Any", typing.Any, "typing.Any", x, pre
        # jax
        try:
            jx = jnp.zeros((2,), dtype=dt)
            ok = jx.dtype == dt and jx.dtype.type is dt.type
        except Exception:
            ok = False
        if ok:
            pre = ("import numpy as np, ml_dtypes, jax, jax.numpy as jnp\njax.config.update('jax_enable_x64', True)\n"
                   f"x = jnp.zeros((2,), dtype={d.np_src})\n")
            yield "jax", jax.Array, "jax.Array", jx, pre
            yield "jax-tracer", jax.Array, "jax.Array", ("eval_shape", jx), pre + "# under tracing: jax.eval_shape(lambda x: print(isinstance(x, ANN)), x)\n"
            if THOROUGH:
                yield "jax-vmap-tracer", jax.Array, "jax.Array", ("vmap", jx), pre + "# under jax.vmap(lambda x: ...)(x)\n"
        # duck objects, one per distinct canonical name
        if d.canon is not None and d.family != "alias":
            yield "duck-str", Duck, "Duck", Duck(d.canon), DUCK_SRC + f"x = Duck({d.canon!r})\n"
            yield "duck-str-Any", typing.Any, "typing.Any", Duck(d.canon), "import typing\n" + DUCK_SRC + f"x = Duck({d.canon!r})\n"
            if d.canon in TORCH_NAMES:
                yield "duck-torchstyle", Duck, "Duck", Duck(TorchStyleDtype(d.canon)), TORCH_SRC + f"x = Duck(TorchDT({d.canon!r}))\n"
                yield "duck-qualified-repr", Duck, "Duck", Duck(QualifiedStyleDtype(d.canon)), TORCH_SRC.replace("'torch.'", "'mlx.core.'") + f"x = Duck(TorchDT({d.canon!r}))\n"
            if d.canon in TFSTYLE_NAMES:
                yield ("duck-tfstyle", Duck, "Duck", Duck(TFStyleDtype(d.canon, dt.type, d.kind)),
                       "import numpy as np, ml_dtypes\n" + TFS_SRC + f"x = Duck(TFDT({d.np_src}.type))\n")
    elif d.key_impl is not None:
        k = jax.random.key(0, impl=d.key_impl)
        pre = f"import jax\nx = jax.random.key(0, impl={d.key_impl!r})\n"
        yield "jax", jax.Array, "jax.Array", k, pre
        yield "jax-Any", typing.Any, "typing.Any", k, "import typing\n" + pre
        ks = jax.random.split(k, 3)
        yield "jax-split", jax.Array, "jax.Array", ks, pre + "x = jax.random.split(x, 3)\n"
        yield "jax-tracer", jax.Array, "jax.Array", ("eval_shape", k), pre + "# under tracing: jax.eval_shape(lambda x: print(isinstance(x, ANN)), x)\n"
        if THOROUGH:
            yield "jax-vmap-tracer", jax.Array, "jax.Array", ("vmap", ks), pre + "x = jax.random.split(x, 3)  # under jax.vmap\n"
    if d.quant_descr is not None:
        yield ("duck-tfstyle", Duck, "Duck", Duck(TFStyleDtype(d.canon, np.dtype(d.quant_descr))),
               "import numpy as np\n" + TFS_SRC + f"x = Duck(TFDT(np.dtype({d.quant_descr!r}), {d.canon!r}))  # what tf.{d.canon}.as_numpy_dtype is\n")
    if d.tfdt is not None:
        t = d.tfdt
        pre0 = "import tensorflow as tf, typing\n"
        val = None
        for mk, src in ((lambda: tf.zeros((2,), dtype=t), f"x = tf.zeros((2,), dtype=tf.dtypes.as_dtype({t.name!r}))\n"),
                        (lambda: tf.constant(np.zeros((2,), dtype=t.as_numpy_dtype)), f"import numpy as np\nx = tf.constant(np.zeros((2,), dtype=tf.dtypes.as_dtype({t.name!r}).as_numpy_dtype))\n")):
            try:
                val = mk()
                if val.dtype != t:
                    val = None
                    continue
                yield "tf", tf.Tensor, "tf.Tensor", val, pre0 + src
                yield "tf-Any", typing.Any, "typing.Any", val, pre0 + src
                break
            except Exception:
                continue
        # symbolic tensor inside tf.function tracing (exists for every dtype, incl. resource / variant)
        yield ("tf-symbolic", tf.Tensor, "tf.Tensor", ("tf_function", t),
               pre0 + f"# x = the symbolic tensor inside tf.function(f).get_concrete_function(tf.TensorSpec((2,), tf.dtypes.as_dtype({t.name!r})))\n")
        spec = tf.TensorSpec((2,), t)
        yield "tf-TensorSpec-Any", typing.Any, "typing.Any", spec, pre0 + f"x = tf.TensorSpec((2,), tf.dtypes.as_dtype({t.name!r}))\n"


# --------------------------------------------------------------------------------------------
# 4. Run the table
# --------------------------------------------------------------------------------------------
tally = _common.Tally(max_failures=600)
ANN_CACHE = {}


def annotation(cat, arr_t):
    key = (cat, arr_t)
    if key not in ANN_CACHE:
        try:
            ANN_CACHE[key] = ("ok", CATS[cat][arr_t, "..."])
        except Exception as e:
            ANN_CACHE[key] = ("raise", e)
    return ANN_CACHE[key]


def verdicts_for(value, arr_t):
    """-> {cat: True/False/('raise', exc)} evaluating the real isinstance"""

    def run(x):
        res = {}
        for cat in CATS:
            st, ann = annotation(cat, arr_t)
            if st == "raise":
                res[cat] = ("raise", "building annotation: " + type(ann).__name__ + ": " + str(ann)[:120])
                continue
            try:
                res[cat] = bool(isinstance(x, ann))
            except Exception as e:
                res[cat] = ("raise", type(e).__name__ + ": " + str(e)[:120])
        return res

    if isinstance(value, tuple) and value and value[0] in ("eval_shape", "vmap", "tf_function"):
        box = {}
        mode, v = value

        def traced(x):
            box["res"] = run(x)
            box["type"] = type(x).__name__
            return x

        try:
            if mode == "eval_shape":
                jax.eval_shape(traced, v)
            elif mode == "vmap":
                jax.vmap(traced)(v)
            else:
                tf.function(traced).get_concrete_function(tf.TensorSpec((2,), v))
        except Exception:
            if "res" not in box:
                return None
        return box.get("res")
    return run(value)


FAMILY_PREFIX = {"alias": "F11:longlong", "newfloat": "F11:newfloat", "tfquant": "F11:tfquant", "extprec": "C03:longdouble",
                 "tfopaque": "C03:tfopaque"}
found = {}  # case -> failure dict (deduplicated across backends)
n_backend_cases = 0
per_dtype_verdict = {}  # (canon-or-ident, cat) -> {verdict: [backend...]} for the backend-independence clause

for cat, e in STRUCT_CAT_ERRORS.items():
    found["C03:struct:make:" + cat] = dict(case="C03:struct:make:" + cat, clause="raises", input=cat, expected="a category class",
                                            actual=repr(e), snippet="see make_numpy_struct_dtype")

for d in DTYPES:
    for backend, arr_t, arr_src, value, pre in backends(d):
        res = verdicts_for(value, arr_t)
        if res is None:
            continue  # backend cannot carry this dtype
        n_backend_cases += 1
        raised = {c: r for c, r in res.items() if isinstance(r, tuple)}
        for cat in CATS:
            exp = expected(cat, d, backend)
            act = res[cat]
            sample = None
            if len(tally.samples) < 5 and tally.evaluations % 1999 == 7:
                sample = {"dtype": d.ident, "category": cat, "backend": backend, "expected": exp, "actual": act if not isinstance(act, tuple) else "raises"}
            tally.case((d.ident, cat, backend), nontrivial=True, sample=sample)
            if not isinstance(act, tuple):
                per_dtype_verdict.setdefault((d.canon or d.ident, cat), {}).setdefault(act, []).append(f"{d.ident}@{backend}")
            snippet = (pre + "import jaxtyping\n" +
                       (f"ANN = jaxtyping.{cat}[{arr_src}, '...']\n" if cat in GENERAL or cat in PRECISION else
                        f"# {cat}: " + (f"class {cat}(jaxtyping.AbstractDtype): dtypes = {UserList.dtypes if cat == 'UserList' else UserStr.dtypes if cat == 'UserStr' else 're.compile(' + repr(USER_RE.pattern) + ')'}" if cat in USER else
                                       f"{cat} = jaxtyping.make_numpy_struct_dtype(np.dtype({STRUCTS[STRUCT_CATS[cat][1]].descr!r}), {cat!r})") + f"\nANN = {cat}[{arr_src}, '...']\n") +
                       f"print(isinstance(x, ANN))  # expected {exp}\n")
            prefix = FAMILY_PREFIX.get(d.family, "C03:" + d.family)
            if isinstance(act, tuple):
                # a check that raises instead of answering: aggregated per dtype (the raise happens while reading the dtype name)
                case = f"{prefix}:{d.ident}"
                f = found.setdefault(case, dict(case=case, clause="raises", input={"dtype": d.ident, "categories": [], "backends": []},
                                                expected="a True/False verdict for every category (Shaped: True)", actual=act[1], snippet=snippet))
                if cat not in f["input"]["categories"]:
                    f["input"]["categories"].append(cat)
                if backend not in f["input"]["backends"]:
                    f["input"]["backends"].append(backend)
            elif exp is not None and act != exp:
                case = f"{prefix}:{d.ident}:{cat}"
                clause = "false-reject" if exp else "false-accept"
                f = found.setdefault(case, dict(case=case, clause=clause, input={"dtype": d.ident, "dtype_name": d.canon, "kind": d.kind, "category": cat, "backends": []},
                                                expected=exp, actual=act, snippet=snippet))
                f["input"]["backends"].append(backend)

# backend independence (only adds information where the oracle was silent or where backends split)
for (name, cat), vs in sorted(per_dtype_verdict.items(), key=lambda kv: (str(kv[0][0]), kv[0][1])):
    if len(vs) > 1:
        idents = sorted({b.split("@")[0] for bs in vs.values() for b in bs})
        already = any(f"{i}:{cat}" in c for c in found for i in idents)
        if not already:
            case = f"C03:backend:{name}:{cat}"
            found[case] = dict(case=case, clause="backend-dependent", input={"dtype_name": name, "category": cat},
                               expected="same verdict on every backend", actual={str(k): v for k, v in vs.items()},
                               snippet="# see the listed backends; build x as in the other snippets")

for case in sorted(found):
    tally.failures.append(found[case]) if len(tally.failures) < tally.max_failures else None

n_np = sum(1 for d in DTYPES if d.npdt is not None)
n_key = sum(1 for d in DTYPES if d.key_impl is not None)
n_tf = sum(1 for d in DTYPES if d.tfdt is not None)
bound = (f"{len(DTYPES)} dtypes ({n_np} numpy/ml_dtypes scalar types incl. platform aliases, flexible/datetime/void and {len(STRUCTS)} structured dtypes; "
         f"{n_key} JAX key dtypes; {n_tf} tf.DTypes{'' if THOROUGH else ' (TensorFlow only in thorough tier)'}) x {len(CATS)} categories "
         f"(34 exported + 3 user: string list, single string, compiled regex + {len(STRUCT_CATS)} make_numpy_struct_dtype) x every backend that can carry the dtype "
         f"(numpy, jax array with x64 enabled, jax eval_shape tracer{', jax vmap tracer, tf eager tensor, tf.function symbolic tensor, tf.TensorSpec via Any' if THOROUGH else ''}, "
         f"duck object with str dtype, torch-style repr dtype, tf-style as_numpy_dtype dtype; each with the concrete array class and typing.Any where applicable): "
         f"{n_backend_cases} (dtype, backend) carriers, shape spec '...'. Excluded as ambiguous in the statement: timedelta64 vs integer categories, "
         f"TF quantised dtypes vs integer-ish/precision/user categories (their raising is still reported), regex cases where match/search/fullmatch differ, "
         f"duck objects vs struct categories, duck string names for key/flexible/struct dtypes.")
rule = ("cases = full cross product, nothing sampled; a case is (dtype scalar type, category, backend) and every one is distinct; "
        "oracle = kind from np.issubdtype / ml_dtypes.iinfo / finfo / tf.DType predicates + hierarchy of docs/api/array.md + canonical np.dtype(x).name for precision "
        "and user categories; failures are deduplicated across backends (one per dtype x category; one per dtype when the check raises)")
_common.emit(tally, bound=bound, rule=rule, exhaustive=True, tier=args.tier, wall=round(__import__("time").time() - args.t0, 1))
