"""Native witness search for a refuted obligation of unit check_shape: the contract there is relative to the contract of
_check_dims, so a counter-model cannot be replayed literally; instead the real _check_shape is compared with the concrete
spec twin (spec.c01.shape_match_py) over histories of up to 3 checks on small dims/shapes (bounded search, seeded by nothing:
deterministic order). The first disagreement is the witness."""
import json, sys, argparse, itertools, types
ap = argparse.ArgumentParser(); ap.add_argument("--repo"); a = ap.parse_args()
payload = json.load(sys.stdin)
from pyvc.spec import c01
import jaxtyping._array_types as AT, jaxtyping._storage as ST
from jaxtyping import AnnotationError
out = {"reproduced": None, "model_concrete": False}
def real_dim(d):
    k = d[0]
    if k == "_anonymous_dim": return AT._anonymous_dim
    if k == "_anonymous_variadic_dim": return AT._anonymous_variadic_dim
    if k == "_NamedDim": return AT._NamedDim(d[1], d[2], d[3])
    if k == "_NamedVariadicDim": return AT._NamedVariadicDim(d[1], d[2], d[3])
    if k == "_FixedDim": return AT._FixedDim(d[1], d[2])
    return AT._SymbolicDim(d[1], d[2])
single = [("_NamedDim", "a", False, False), ("_NamedDim", "a", True, False), ("_FixedDim", 2, False), ("_anonymous_dim",)]
variadics = [("_NamedVariadicDim", "s", False, False), ("_NamedVariadicDim", "s", True, False), ("_anonymous_variadic_dim",)]
annots = []
for v in variadics + [None]:
    for pre in ([], [single[0]], [single[2]]):
        for suf in ([], [single[0]], [single[3]]):
            dims = pre + ([v] if v else []) + suf
            annots.append((dims, len(pre) if v else None))
shapes = [s for r in range(0, 4) for s in itertools.product((1, 2, 3), repeat=r)] + [(0,), (0, 2), (2, 0)]
ops = c01.PyOps(label=None, eval_fstring=lambda e: (0, e), eval_expr=lambda s, m: (0, 0))
def run_real(dims, iv, shape, sigma, nu):
    cls = types.SimpleNamespace(dims=tuple(real_dim(d) for d in dims), index_variadic=iv)
    obj = types.SimpleNamespace(shape=shape)
    try:
        r = AT._MetaAbstractArray._check_shape(cls, obj, sigma, nu, {})
        return (0 if r == "" else 1)
    except AnnotationError: return 2
    except BaseException as e: return "raised " + type(e).__name__
import random
rng = random.Random(0)
tried = 0
witness = None
hist_space = [(an, sh) for an in annots for sh in shapes]
for trial in range(60000):
    L = 1 + trial % 3
    hist = [rng.choice(hist_space) for _ in range(L)]
    sig_r, nu_r, sig_s, nu_s = {}, {}, {}, {}
    for step, ((dims, iv), sh) in enumerate(hist):
        tried += 1
        v_spec, s2, n2 = c01.shape_match_py(ops, dims, iv, sh, dict(sig_s), dict(nu_s))
        sb, nb = dict(sig_r), dict(nu_r)
        v_real = run_real(dims, iv, sh, sig_r, nu_r)
        if v_real != 0:  # the caller (__instancecheck_str__) rolls back on non-accept
            sig_r, nu_r = sb, nb
        if v_spec == 0: sig_s, nu_s = s2, n2
        ok = v_real == v_spec and (v_real != 0 or (sig_r == sig_s and {k: (b, tuple(p)) for k, (b, p) in nu_r.items()} == nu_s))
        if not ok:
            witness = {"history": [{"dims": [list(d) for d in dd], "index_variadic": ii, "shape": list(ss)} for (dd, ii), ss in hist[: step + 1]],
                       "real": {"verdict": v_real, "sigma": sig_r, "nu": repr(nu_r)}, "spec": {"verdict": v_spec, "sigma": sig_s, "nu": repr(nu_s)}}
            break
    if witness: break
out.update(reproduced=witness is not None, model_concrete=False, input=witness["history"] if witness else None, native=witness["real"] if witness else {"histories_tried": tried}, expected=witness["spec"] if witness else None,
           snippet="replay/check_shape.py: real _MetaAbstractArray._check_shape vs pyvc.spec.c01.shape_match_py over the listed history in one context")
print(json.dumps(out, default=str))
