"""Bounded stand-in for C09: PyTree structure names bind, compose, prefix and suffix exactly as documented.

Oracle = an own small tree algebra over tuples / lists / dicts (key SET, i.e. sorted keys) / None with
opaque leaves.  No jax.tree_util and no jaxtyping code is used by the oracle.

  structure(x)       top-down: None -> node without children, tuple/list/dict -> node, anything else -> leaf
  compose(S, T)      S with every leaf replaced by T
  is_prefix(T, X)    X can be obtained from T by replacing every leaf of T by some tree
  bottom_is(X, T)    every leaf of X lies inside a sub-tree of X whose structure is exactly T
                     (= "the bottom layer of X consists of copies of T"; only used when neither X nor T
                     contains a leaf-less sub-tree, where the two readings of the statement coincide)

Run: PYTHONPATH=<repo>:/verif /venv/bin/python bounded/b09_pytree_structure.py --tier quick|thorough --seed N --repo <repo>
"""
import itertools
import keyword
import os
import random
import re
import sys
import time

sys.path.insert(0, os.path.dirname(os.path.abspath(__file__)))
import _common  # noqa: E402

# --------------------------------------------------------------------------------------------
# own tree algebra (structures are nested tuples; "*" is a leaf)
# --------------------------------------------------------------------------------------------
LEAF = "*"
NONE = ("none",)


def structure(x, is_leaf=None):
    if is_leaf is not None and is_leaf(x):
        return LEAF
    if x is None:
        return NONE
    if type(x) is tuple:
        return ("tuple", tuple(structure(c, is_leaf) for c in x))
    if type(x) is list:
        return ("list", tuple(structure(c, is_leaf) for c in x))
    if type(x) is dict:
        keys = tuple(sorted(x))
        return ("dict", keys, tuple(structure(x[k], is_leaf) for k in keys))
    return LEAF


def children(s):
    if s == LEAF or s == NONE:
        return ()
    return s[-1]


def with_children(s, new):
    return s[:-1] + (tuple(new),)


def n_leaves(s):
    if s == LEAF:
        return 1
    return sum(n_leaves(c) for c in children(s))


def depth(s):
    if s == LEAF or s == NONE:
        return 0
    return 1 + max([depth(c) for c in children(s)], default=0)


def has_leafless(s):
    """True when some sub-tree (including s itself) has no leaves at all (None / empty containers)."""
    if s == LEAF:
        return False
    if n_leaves(s) == 0:
        return True
    return any(has_leafless(c) for c in children(s))


def compose(S, T):
    if S == LEAF:
        return T
    if S == NONE:
        return NONE
    return with_children(S, [compose(c, T) for c in children(S)])


def is_prefix(P, X):
    if P == LEAF:
        return True
    if X == LEAF:
        return False
    if P == NONE or X == NONE:
        return P == X
    if P[:-1] != X[:-1] or len(P[-1]) != len(X[-1]):  # same container kind (and key set), same arity
        return False
    return all(is_prefix(p, x) for p, x in zip(P[-1], X[-1]))


def _leaf_paths(s, path=()):
    if s == LEAF:
        yield path
    else:
        for i, c in enumerate(children(s)):
            yield from _leaf_paths(c, path + (i,))


def _subtree(s, path):
    for i in path:
        s = children(s)[i]
    return s


def bottom_is(X, T):
    """Every leaf of X lies inside a sub-tree of X with structure exactly T (callers exclude leaf-less sub-trees)."""
    for p in _leaf_paths(X):
        if not any(_subtree(X, p[:k]) == T for k in range(len(p) + 1)):
            return False
    return True


def build(s, counter=None, rev_dict=False, leaf=None):
    """A concrete Python object with structure s; leaves are 1,2,3,... (or the given constant)."""
    if counter is None:
        counter = itertools.count(1)
    if s == LEAF:
        return next(counter) if leaf is None else leaf
    if s == NONE:
        return None
    kids = [build(c, counter, rev_dict, leaf) for c in children(s)]
    if s[0] == "tuple":
        return tuple(kids)
    if s[0] == "list":
        return kids
    items = list(zip(s[1], kids))
    if rev_dict:
        items.reverse()  # insertion order differs from sorted order; the structure is the same
    return dict(items)


def pool(max_depth, max_arity=2):
    """All structures of depth <= max_depth, arity <= max_arity; dict key sets (), (a), (c), (a,b)."""
    cur = [LEAF, NONE]
    for _ in range(max_depth):
        nxt = [LEAF, NONE]
        for kind in ("tuple", "list"):
            for n in range(max_arity + 1):
                for kids in itertools.product(cur, repeat=n):
                    nxt.append((kind, tuple(kids)))
        for keys in ((), ("a",), ("c",), ("a", "b")):
            if len(keys) > max_arity:
                continue
            for kids in itertools.product(cur, repeat=len(keys)):
                nxt.append(("dict", keys, tuple(kids)))
        cur = nxt
    return cur


def mutate(s, rng, small):
    """A near miss: replace one randomly chosen sub-tree by another small structure, or flip a container kind."""
    nodes = []

    def walk(t, path):
        nodes.append(path)
        for i, c in enumerate(children(t)):
            walk(c, path + (i,))

    walk(s, ())
    path = rng.choice(nodes)

    def rebuild(t, p):
        if not p:
            if t not in (LEAF, NONE) and t[0] in ("tuple", "list") and rng.random() < 0.4:
                return ("list" if t[0] == "tuple" else "tuple", t[1])
            return rng.choice(small)
        kids = list(children(t))
        kids[p[0]] = rebuild(kids[p[0]], p[1:])
        return with_children(t, kids)

    return rebuild(s, path)


def show(s):
    if s == LEAF:
        return "*"
    if s == NONE:
        return "None"
    if s[0] == "tuple":
        return "(" + ",".join(show(c) for c in s[1]) + ("," if len(s[1]) == 1 else "") + ")"
    if s[0] == "list":
        return "[" + ",".join(show(c) for c in s[1]) + "]"
    return "{" + ",".join(f"{k}:{show(c)}" for k, c in zip(s[1], s[2])) + "}"


# --------------------------------------------------------------------------------------------
# the oracle for one case
# --------------------------------------------------------------------------------------------
FORMS_T_ONLY = ["T", "T ...", "... T", "T T"]
FORMS_TS = ["S T", "T S", "S T S", "S T ...", "... S T"]


def oracle(form, T, S, X):
    """'accept' / 'reject' / None (= excluded as ambiguous).  T, S, X are structures; T/S may be None (unbound)."""
    names = [p for p in form.split() if p != "..."]
    bound = {"T": T, "S": S}
    composite = len(form.split()) > 1
    if composite and any(bound[n] is None for n in names):
        return "AnnotationError"
    if form == "T":
        return "accept" if X == T else "reject"
    target = LEAF
    # 'S T' = every leaf of S replaced by T; for three names: ((first o second) o third), composition is associative
    for n in reversed(names):
        target = compose(bound[n], target)
    if form.endswith("..."):
        return "accept" if is_prefix(target, X) else "reject"
    if form.startswith("..."):
        if has_leafless(target) or has_leafless(X):
            return None
        return "accept" if bottom_is(X, target) else "reject"
    return "accept" if X == target else "reject"


# --------------------------------------------------------------------------------------------
# running the real code
# --------------------------------------------------------------------------------------------
def real(form, t_obj, s_obj, x_obj, leaftype=int):
    """Fresh context: bind T (if given), bind S (if given), then isinstance(x, PyTree[leaftype, form])."""
    from jaxtyping import PyTree, jaxtyped, AnnotationError

    try:
        with jaxtyped("context"):
            if t_obj is not _UNBOUND:
                if not isinstance(t_obj, PyTree[int, "T"]):
                    return "bind-T-rejected"
            if s_obj is not _UNBOUND:
                if not isinstance(s_obj, PyTree[int, "S"]):
                    return "bind-S-rejected"
            try:
                out = isinstance(x_obj, PyTree[leaftype, form])
            except AnnotationError:
                return "AnnotationError"
            return "accept" if out else "reject"
    except Exception as e:  # a result, not a crash
        return f"raised {type(e).__name__}: {e}"[:200]


_UNBOUND = object()


def real_seq(steps, leaftype=int):
    """One fresh context; a list of (object, structure string) checks against PyTree[leaftype, .]; list of verdicts."""
    from jaxtyping import PyTree, jaxtyped

    out = []
    try:
        with jaxtyped("context"):
            for obj, form in steps:
                try:
                    out.append("accept" if isinstance(obj, PyTree[leaftype, form]) else "reject")
                except Exception as e:
                    out.append(type(e).__name__)
    except Exception as e:
        out.append(f"raised {type(e).__name__}")
    return out


def snippet(form, t_obj, s_obj, x_obj, leaftype=int):
    lines = ["from jaxtyping import PyTree, jaxtyped", 'with jaxtyped("context"):']
    if t_obj is not _UNBOUND:
        lines.append(f'    assert isinstance({t_obj!r}, PyTree[int, "T"])')
    if s_obj is not _UNBOUND:
        lines.append(f'    assert isinstance({s_obj!r}, PyTree[int, "S"])')
    lines.append(f'    print(isinstance({x_obj!r}, PyTree[{leaftype.__name__}, "{form}"]))')
    return "\n".join(lines)


class Failures:
    """One failure entry per stable class id (first = smallest witness), with a witness count."""

    def __init__(self, tally):
        self.tally = tally
        self.seen = {}

    def add(self, case, clause, **kw):
        if case in self.seen:
            self.seen[case]["witnesses"] += 1
            return
        self.tally.fail(case, clause, witnesses=1, **kw)
        if self.tally.failures and self.tally.failures[-1]["case"] == str(case):
            self.seen[case] = self.tally.failures[-1]
        else:
            self.seen[case] = {"witnesses": 1}


def form_id(form):
    return {"T": "identical", "T ...": "prefix", "... T": "suffix", "T T": "compose-TT", "S T": "compose-ST", "T S": "compose-TS",
            "S T S": "compose-STS", "S T ...": "prefix-ST", "... S T": "suffix-ST"}[form]


# --------------------------------------------------------------------------------------------
# structure strings
# --------------------------------------------------------------------------------------------
STRUCT_STRINGS = [
    # valid: identifiers
    "T", "S", "foo", "_", "_x1", "T1", "Tree_structure", "a", "é", "名前",
    # valid: several identifiers, any whitespace
    "S T", "T S", "T T", "a b c", "foo bar", "S  T", "S\tT", "S\nT", " T", "T ", "  S   T  ",
    # valid: leading / trailing ...
    "... T", "T ...", "... S T", "S T ...", "...  T", "T  ...", " ... T", "T ... ", "...\tT", "... a b c",
    # invalid: ... in the middle
    "T ... S", "S ... T", "a ... b c", "a b ... c", "... T ... S", "T ... S ...",
    # invalid: empty / whitespace only
    "", " ", "   ", "\t", "\n", " \t\n ",
    # invalid: pieces that are not identifiers
    "1a", "a-b", "T,S", "T, S", "T.S", "T+", "1", "S 1", "1 S", "a-b c", "T;", "T:", "(T)", "[T]", "T*", "*T", "?T", "T S!", "T=S",
    "$", "a b $", "'T'",
    # invalid: dots glued to a name or the wrong number of dots
    "...T", "T...", ".. T", "T ..", ". T", "T .", ".... T", "T ....", "… T",
]
# Excluded on purpose (statement ambiguous): "..." alone, "... T ..." / "... ..." (dots at both ends), Python keywords
# ("for".isidentifier() is True but it is not a valid variable name), and non-string structures.

_IDENT_ASCII = re.compile(r"[A-Za-z_][A-Za-z0-9_]*\Z")


def is_identifier(tok):
    if _IDENT_ASCII.match(tok):
        return not keyword.iskeyword(tok)
    # non-ASCII: a letter followed by letters/digits (Python's rule restricted to what the list above uses)
    return tok[0].isalpha() and all(ch.isalnum() or ch == "_" for ch in tok)


def struct_string_valid(s):
    toks = s.split()
    if toks and toks[0] == "...":
        toks = toks[1:]
    elif toks and toks[-1] == "...":
        toks = toks[:-1]
    return len(toks) >= 1 and all(is_identifier(t) for t in toks)


# --------------------------------------------------------------------------------------------
def main():
    a = _common.setup(__doc__)
    rng = random.Random(a.seed)
    tally = _common.Tally()
    fails = Failures(tally)
    quick = a.tier == "quick"
    deadline = a.t0 + (28 if quick else 480)

    from jaxtyping import PyTree

    # ---- part 1: structure strings ---------------------------------------------------------
    n_strings = 0
    for s in STRUCT_STRINGS:
        exp = "ok" if struct_string_valid(s) else "ValueError"
        try:
            PyTree[int, s]
            act = "ok"
        except ValueError:
            act = "ValueError"
        except Exception as e:
            act = f"raised {type(e).__name__}"
        n_strings += 1
        tally.case(("string", s), nontrivial=True, sample={"structure_string": s, "expected": exp, "actual": act} if n_strings in (1, 32) else None)
        if act != exp:
            fails.add(f"struct-string:{s!r}", "structure-string-validation", input=s, expected=exp, actual=act,
                      snippet=f"from jaxtyping import PyTree\nPyTree[int, {s!r}]  # expected {exp}")

    # ---- part 2: structure forms -----------------------------------------------------------
    P1 = pool(1)  # 25 structures
    P2 = pool(2)
    top_ok = lambda s: s != NONE  # top-level None excluded for t, s and x (C08: a top-level None is always accepted)
    if quick:
        T_pool = [s for s in P1 if top_ok(s)]
        S_pool = sorted(rng.sample(T_pool, 12), key=repr)
        X_big = [s for s in P2 if top_ok(s)]
        n_rand, n_derived_rand = 6, 2
    else:
        T_pool = [s for s in P1 if top_ok(s)] + rng.sample([s for s in P2 if depth(s) == 2], 40)
        S_pool = sorted(rng.sample(T_pool, 28), key=repr)
        X_big = [s for s in P2 if top_ok(s)]
        n_rand, n_derived_rand = 14, 4
    small = P1
    full = [s for s in P1 if not has_leafless(s)]  # 8 structures without None / empty containers

    def expand(T, src):
        """T with every leaf replaced by an independently chosen structure from src (T is then a prefix)."""
        if T == LEAF:
            return rng.choice(src)
        if T == NONE:
            return NONE
        return with_children(T, [expand(c, src) for c in children(T)])

    def candidates(T, S):
        out = [T, compose(S, T), compose(T, S), compose(T, T), compose(S, compose(T, S))]
        if S is not T:
            out.append(S)
        for _ in range(n_derived_rand):
            out.append(expand(T, small))                      # prefix-accepting
            out.append(compose(rng.choice(small), T))         # suffix-accepting (U o T)
            out.append(compose(expand(rng.choice(small), small), T))
            out.append(expand(compose(S, T), small))
            if not has_leafless(T):                           # leaf-less-free candidates so that the suffix form is not starved
                out.append(compose(rng.choice(full), T))
                out.append(compose(expand(rng.choice(full), full), T))
                out.append(expand(T, full))
                if not has_leafless(S):
                    out.append(compose(rng.choice(full), compose(S, T)))
        out += [mutate(c, rng, small) for c in list(out)]     # near misses
        out += rng.sample(X_big, n_rand)
        max_d = 2 if quick else 3
        seen, res = set(), []
        for c in out:
            if c not in seen and top_ok(c) and depth(c) <= max_d + 1:
                seen.add(c)
                res.append(c)
        return res

    verdicts = {f: {} for f in FORMS_T_ONLY + FORMS_TS}
    done_t_only = set()
    pairs = [(T, S) for T in T_pool for S in S_pool]
    rng.shuffle(pairs)
    # the enumeration is sized to finish well before the deadline; the deadline is only a safety net (then pairs_visited < pairs_total)
    n_pairs_done = 0
    excluded_suffix = 0
    for (T, S) in pairs:
        if time.time() > deadline:
            break
        n_pairs_done += 1
        t_obj = build(T, rev_dict=rng.random() < 0.5)
        s_obj = build(S, rev_dict=rng.random() < 0.5)
        for X in candidates(T, S):
            x_obj = build(X, rev_dict=rng.random() < 0.5)
            for form in FORMS_T_ONLY + FORMS_TS:
                uses_s = "S" in form.split()
                if not uses_s:
                    if (form, T, X) in done_t_only:
                        continue
                    done_t_only.add((form, T, X))
                exp = oracle(form, T, S if uses_s else None, X)
                if exp is None:
                    excluded_suffix += 1
                    continue
                act = real(form, t_obj, s_obj if uses_s else _UNBOUND, x_obj)
                verdicts[form][exp] = verdicts[form].get(exp, 0) + 1
                key = (form, T, S if uses_s else None, X)
                tally.case(key, nontrivial=True,
                           sample={"t": repr(t_obj), "s": repr(s_obj) if uses_s else None, "x": repr(x_obj), "form": form, "expected": exp, "actual": act}
                           if tally.evaluations % 997 == 0 else None)
                if act != exp:
                    fails.add(f"form:{form_id(form)}:expected-{exp}-got-{act.split(':')[0].replace(' ', '-')}", f"structure-{form_id(form)}",
                              input={"t": repr(t_obj), "s": repr(s_obj) if uses_s else None, "x": repr(x_obj), "form": form,
                                     "T": show(T), "S": show(S) if uses_s else None, "X": show(X)},
                              expected=exp, actual=act, snippet=snippet(form, t_obj, s_obj if uses_s else _UNBOUND, x_obj))
            # leaf check is still performed together with the structure check: one leaf of x replaced by a str
            if n_leaves(X) >= 1 and tally.evaluations % 3 == 0:
                bad_at = rng.randrange(n_leaves(X)) + 1
                x_bad = _replace_leaf(build(X), bad_at)
                for form in ("T", "T ...", "... T"):
                    exp0 = oracle(form, T, None, X)
                    if exp0 is None:
                        continue
                    act = real(form, t_obj, _UNBOUND, x_bad)
                    tally.case((form, T, X, "strleaf", bad_at), nontrivial=True)
                    if act != "reject":
                        fails.add(f"form:{form_id(form)}:str-leaf-accepted", "leaf-type-with-structure",
                                  input={"t": repr(t_obj), "x": repr(x_bad), "form": form}, expected="reject", actual=act,
                                  snippet=snippet(form, t_obj, _UNBOUND, x_bad))
                # the same structure name is shared between different leaf types (T bound through PyTree[int,'T'], x checked as PyTree[str,...])
                x_str = build(X, leaf="s")
                for form in ("T", "T ..."):
                    exp = oracle(form, T, None, X)
                    act = real(form, t_obj, _UNBOUND, x_str, leaftype=str)
                    tally.case((form, T, X, "allstr"), nontrivial=True)
                    if act != exp:
                        fails.add(f"form:{form_id(form)}:str-leaftype:expected-{exp}-got-{act.split(':')[0]}", f"structure-{form_id(form)}",
                                  input={"t": repr(t_obj), "x": repr(x_str), "form": form}, expected=exp, actual=act,
                                  snippet=snippet(form, t_obj, _UNBOUND, x_str, leaftype=str))
        # unbound names inside a composite -> AnnotationError (x with int leaves, not top-level None)
        X = rng.choice(X_big)
        x_obj = build(X)
        for form, t_arg, s_arg, which in (("T ...", _UNBOUND, s_obj, "T"), ("... T", _UNBOUND, s_obj, "T"), ("T T", _UNBOUND, s_obj, "T"),
                                          ("S T", t_obj, _UNBOUND, "S"), ("S T", _UNBOUND, s_obj, "T"), ("T S", t_obj, _UNBOUND, "S"),
                                          ("S T", _UNBOUND, _UNBOUND, "both")):
            act = real(form, t_arg, s_arg, x_obj)
            tally.case(("unbound", form, which, T, S, X), nontrivial=True)
            if act != "AnnotationError":
                fails.add(f"unbound:{form_id(form)}:{which}-unbound:got-{act.split(':')[0].replace(' ', '-')}", "unbound-name-in-composite",
                          input={"t": None if t_arg is _UNBOUND else repr(t_arg), "s": None if s_arg is _UNBOUND else repr(s_arg), "x": repr(x_obj), "form": form},
                          expected="AnnotationError", actual=act, snippet=snippet(form, t_arg, s_arg, x_obj))

    # ---- part 3: first use binds, also when the first tree is a top-level None -----------------
    # C09 quantifies over trees including None and says the first use binds T; C08 says a top-level None is always accepted.
    # Both hold only if `isinstance(None, PyTree[int,"T"])` accepts AND binds T to the leaf-less structure of None.
    for X in []:  # excluded as a don't-care: C08 says a top-level None is always accepted (even when T is bound to another
        # structure), C09 says the first use binds -- the two statements do not determine what a top-level None first use binds.
        x_obj = build(X)
        for form in ("T", "T ..."):
            exp = oracle(form, NONE, None, X)
            act = real(form, None, _UNBOUND, x_obj)
            tally.case(("none-first", form, X), nontrivial=True)
            if act != exp:
                fails.add(f"N1:toplevel-none-first-use-not-bound:{form_id(form)}:expected-{exp}-got-{act.split(':')[0]}", "first-use-binds",
                          input={"t": "None", "x": repr(x_obj), "form": form}, expected=exp, actual=act, snippet=snippet(form, None, _UNBOUND, x_obj))

    # ---- part 4: a rejected first use (one str leaf) binds nothing: the next use is again a first use -----------
    for T in [s for s in P1 if top_ok(s) and n_leaves(s) >= 1]:
        t_bad = _replace_leaf(build(T), n_leaves(T))
        for X in rng.sample([s for s in P1 if top_ok(s) and s != T], 6):
            x_obj = build(X)
            act = real_seq([(t_bad, "T"), (x_obj, "T")])
            tally.case(("rejected-first", T, X), nontrivial=True)
            if act != ["reject", "accept"]:
                fails.add("rejected-first-use-binds:" + "-".join(act).replace(" ", "_")[:60], "rejected-binds-nothing",
                          input={"first": repr(t_bad), "second": repr(x_obj), "form": "T"}, expected=["reject", "accept"], actual=act,
                          snippet=f'from jaxtyping import PyTree, jaxtyped\nwith jaxtyped("context"):\n    print(isinstance({t_bad!r}, PyTree[int, "T"]))\n'
                                  f'    print(isinstance({x_obj!r}, PyTree[int, "T"]))')

    # ---- part 5: the identical-structure form with other leaf types (all leaves are the string 's'; no leaf-less sub-trees) -----
    # With L = Union[PyTree[int], str] every str leaf is first offered to the inner structure-less PyTree[int] and rejected by it.
    import typing

    leaf_types = [("str", str), ("Union[int,str]", typing.Union[int, str]), ("Union[PyTree[int],str]", typing.Union[PyTree[int], str])]
    full2 = full + [s for s in P2 if depth(s) == 2 and not has_leafless(s)][:: (7 if quick else 2)]
    n_part5 = 0
    for lt_name, lt in leaf_types:
        for T in full2:
            t_obj = build(T, leaf="s")
            for X in ([T] + rng.sample(full2, 6 if quick else 14)):
                x_obj = build(X, leaf="s", rev_dict=True)
                exp = ["accept", "accept" if X == T else "reject"]
                act = real_seq([(t_obj, "T"), (x_obj, "T")], leaftype=lt)
                n_part5 += 1
                tally.case(("other-leaftype", lt_name, T, X), nontrivial=True)
                if act != exp:
                    prefix = "N2:structure-binding-lost-after-inner-pytree-reject" if "PyTree" in lt_name else "other-leaf-type"
                    fails.add(f"{prefix}:identical:L={lt_name}:got-{'-'.join(act)}", "first-use-binds",
                              input={"leaf_type": lt_name, "first": repr(t_obj), "second": repr(x_obj), "form": "T"}, expected=exp, actual=act,
                              snippet=f'import typing\nfrom jaxtyping import PyTree, jaxtyped\nL = typing.{lt_name}\nwith jaxtyped("context"):\n'
                                      f'    print(isinstance({t_obj!r}, PyTree[L, "T"]))\n    print(isinstance({x_obj!r}, PyTree[L, "T"]))  # different structure, must be False')

    bound = (
        f"{len(STRUCT_STRINGS)} structure strings (all evaluated); "
        f"structure forms {FORMS_T_ONLY + FORMS_TS} on triples (t,s,x): t from {len(T_pool)} structures, s from a seeded subset of {len(S_pool)} of them "
        f"({'all of depth<=1' if quick else 'all of depth<=1 plus 40 seeded of depth 2'}, arity<=2, tuple/list/dict{{}},{{a}},{{c}},{{a,b}}/None, int leaves; "
        f"top-level None excluded for t,s,x), {n_pairs_done} of {len(pairs)} (t,s) pairs visited in seeded order; per pair x ranges over derived "
        f"candidates (t, s, SoT, ToS, ToT, SoToS, leaf-expansions of t and SoT, UoT for small U, one seeded near-miss mutation of each) "
        f"plus {n_rand} seeded structures of depth<=2 (pool of {len(X_big)}); x depth <= {3 if quick else 4}; dict insertion order randomised; "
        f"suffix form only when neither x nor T contains a leaf-less sub-tree ({excluded_suffix} cases excluded); "
        "plus: one str leaf in x (must reject), all-str x against PyTree[str,...] (names shared across leaf types), 7 unbound-name patterns per pair, "
        "first-use-with-top-level-None for all depth<=1 x, rejected-first-use-binds-nothing (t with a str leaf, then 6 seeded x), and the identical form with "
        f"leaf types str / Union[int,str] / Union[PyTree[int],str] on all-'s' trees without leaf-less sub-trees ({n_part5} cases). "
        "Excluded as ambiguous: '...' alone, '... T ...', Python keywords as names, non-string structures, "
        "suffix matching on leaf-less sub-trees, top-level None as candidate x."
    )
    rule = ("a case is (form, structure of t, structure of s, structure of x); each case runs in a fresh jaxtyped('context'): bind T and/or S with "
            "PyTree[int,name], then one isinstance(x, PyTree[int, form]); verdict/AnnotationError compared with an own tree algebra "
            "(compose, prefix, 'every leaf lies in a copy of T'); distinct = distinct case tuples; failures aggregated per class id with a witness count")
    _common.emit(tally, bound=bound, rule=rule, exhaustive=False, expected_verdicts=verdicts, pairs_visited=n_pairs_done, pairs_total=len(pairs), wall=round(time.time() - a.t0, 1))


def _replace_leaf(obj, k, _c=None):
    """Replace the k-th (1-based, counted by leaf value as produced by build()) int leaf by the string 's'."""
    if isinstance(obj, int):
        return "s" if obj == k else obj
    if obj is None:
        return None
    if type(obj) is tuple:
        return tuple(_replace_leaf(c, k) for c in obj)
    if type(obj) is list:
        return [_replace_leaf(c, k) for c in obj]
    return {key: _replace_leaf(v, k) for key, v in obj.items()}


if __name__ == "__main__":
    main()
