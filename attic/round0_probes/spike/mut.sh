set -e
run() { # name, python-snippet transforming source s
  rm -rf M && mkdir -p M/jaxtyping && python3-vt - "$2" <<PY
import sys
s = open('/repo/jaxtyping/_array_types.py').read()
old, new = sys.argv[1].split('|||')
assert s.count(old) == 1, (s.count(old), old)
open('M/jaxtyping/_array_types.py','w').write(s.replace(old, new))
PY
  echo "--- mutant: $1"; python3-vt spike.py M 2>&1 | grep -v WARNING | tail -6 || true
}
run "drop '#'-accepts-1 arm" '        elif cls_dim.broadcastable and obj_size == 1:
            pass
|||'
run "bind under plain name (ignore ? label)" 'single_memo[name] = obj_size|||single_memo[cls_dim.name] = obj_size'
run "compare <= instead of !=" 'if cls_size != obj_size:|||if cls_size > obj_size:'
run "except Exception instead of NameError" 'except NameError as e:|||except Exception as e:'
run "harmless: rename local + flip if/else" '            try:
                cls_size = single_memo[name]
            except KeyError:
                single_memo[name] = obj_size
            else:
                if cls_size != obj_size:|||            try:
                previous = single_memo[name]
            except KeyError:
                single_memo[name] = obj_size
            else:
                if not (previous == obj_size):'
rm -rf M
