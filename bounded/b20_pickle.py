"""Bounded stand-in for C20: annotations survive pickling and copying with their meaning intact.

For every enumerated annotation the acceptance vector over a probe set (numpy / jax / duck arrays, several dtypes and shapes, each
probe in a fresh `jaxtyped("context")`) is taken (a) from the original, (b) from the object that comes back through each
serialisation route, in this process and in a fresh subprocess, and (c) from the original again after the route ran.
(a) == (b) and (a) == (c) are required.  The oracle is the statement itself (round trip = identity on meaning); the only
knowledge used to *label* failures is an own category algebra written from docs/api/array.md.

Run:  PYTHONPATH=<repo>:/verif JAX_PLATFORMS=cpu /venv/bin/python bounded/b20_pickle.py --tier quick --repo <repo>
"""
import base64
import copy
import json
import os
import pickle
import shutil
import subprocess
import sys
import tempfile
import time
import types
import typing
from typing import Union

os.environ.setdefault("JAX_PLATFORMS", "cpu")
sys.path.insert(0, os.path.dirname(os.path.abspath(__file__)))
import _common  # noqa: E402

args = _common.setup("C20 pickling / copying of annotations")

import cloudpickle  # noqa: E402
import numpy as np  # noqa: E402
import jax  # noqa: E402
import jaxtyping  # noqa: E402

THOROUGH = args.tier == "thorough"

# ---------------------------------------------------------------------------------------------------------------
# Shared between this process and the fresh subprocess: the probe set and the acceptance vector
# ---------------------------------------------------------------------------------------------------------------
SHARED_SRC = r'''
import itertools, types, typing
import numpy as np
import jax, jax.numpy as jnp
from jaxtyping import jaxtyped


class Duck:
    def __init__(self, dtype, shape):
        self.dtype, self.shape = dtype, shape


def make_probes():
    out = []
    np_shapes = [()] + [(a,) for a in (1, 2, 3)] + list(itertools.product((1, 2, 3), repeat=2))
    for dt in ("float32", "int32", "bool", "uint8", "complex64"):
        for sh in np_shapes:
            out.append((f"np.zeros({sh}, '{dt}')", np.zeros(sh, dt)))
    jx_shapes = [()] + [(a,) for a in (1, 2)] + list(itertools.product((1, 2), repeat=2)) + [(3, 3)]
    for dt in ("float32", "int32", "bool"):
        for sh in jx_shapes:
            out.append((f"jnp.zeros({sh}, '{dt}')", jnp.zeros(sh, dt)))
    out.append(("jax.random.key(0)", jax.random.key(0)))
    out.append(("jax.random.split(jax.random.key(0), 2)", jax.random.split(jax.random.key(0), 2)))
    out.append(("Duck('float32', (2, 2))", Duck("float32", (2, 2))))
    out.append(("Duck('int32', ())", Duck("int32", ())))
    out.append(("1.0", 1.0))
    return out


def vector(ann, probes):
    """'1' accepted, '0' rejected, 'E' the check raised; unions are probed member-wise, every probe in a fresh context"""
    members = list(typing.get_args(ann)) if typing.get_origin(ann) in (typing.Union, types.UnionType) else [ann]
    out = []
    for _, x in probes:
        r = "0"
        for m in members:
            try:
                with jaxtyped("context"):
                    v = isinstance(x, m)
            except Exception:
                r = "E"
                break
            if v:
                r = "1"
        out.append(r)
    return "".join(out)
'''
_ns = {}
exec(compile(SHARED_SRC, "<b20-shared>", "exec"), _ns)
make_probes, vector = _ns["make_probes"], _ns["vector"]
PROBES = make_probes()

CHILD_SRC = SHARED_SRC + r'''
import base64, json, pickle, sys
blobs = json.load(open(sys.argv[1]))
probes = make_probes()
res = {}
for key, items in blobs.items():
    row = []
    for b in items:
        try:
            obj = pickle.loads(base64.b64decode(b))
        except BaseException as e:
            row.append("load-error:" + type(e).__name__ + ":" + str(e)[:80])
            continue
        row.append(vector(obj, probes))
    res[key] = row
json.dump(res, open(sys.argv[2], "w"))
'''

USERMOD_SRC = '''
import re
import jaxtyping


class MyTwo(jaxtyping.AbstractDtype):
    dtypes = ["float32", "int32"]


class MyRe(jaxtyping.AbstractDtype):
    dtypes = re.compile("u?int(8|32)")
'''

# ---------------------------------------------------------------------------------------------------------------
# Own category algebra, used only to label failures by input class
# ---------------------------------------------------------------------------------------------------------------
K = {"bool": ["bool"], "uint": ["uint2", "uint4", "uint8", "uint16", "uint32", "uint64"], "int": ["int2", "int4", "int8", "int16", "int32", "int64"],
     "float": ["float8_e4m3b11fnuz", "float8_e4m3fn", "float8_e4m3fnuz", "float8_e5m2", "float8_e5m2fnuz", "bfloat16", "float16", "float32", "float64"],
     "complex": ["complex64", "complex128"], "key": ["key"]}


def _names(*kinds):
    return frozenset(n for k in kinds for n in K[k])


MODEL = {"Shaped": None, "Bool": _names("bool"), "Key": _names("key"), "Num": _names("uint", "int", "float", "complex"), "Inexact": _names("float", "complex"),
         "Float": _names("float"), "Complex": _names("complex"), "Integer": _names("uint", "int"), "UInt": _names("uint"), "Int": _names("int"),
         "Real": _names("float", "uint", "int")}
for _cls, _n in {"UInt2": "uint2", "UInt4": "uint4", "UInt8": "uint8", "UInt16": "uint16", "UInt32": "uint32", "UInt64": "uint64",
                 "Int2": "int2", "Int4": "int4", "Int8": "int8", "Int16": "int16", "Int32": "int32", "Int64": "int64",
                 "BFloat16": "bfloat16", "Float16": "float16", "Float32": "float32", "Float64": "float64", "Complex64": "complex64",
                 "Complex128": "complex128", "Float8e4m3b11fnuz": "float8_e4m3b11fnuz", "Float8e4m3fn": "float8_e4m3fn",
                 "Float8e4m3fnuz": "float8_e4m3fnuz", "Float8e5m2": "float8_e5m2", "Float8e5m2fnuz": "float8_e5m2fnuz"}.items():
    MODEL[_cls] = frozenset([_n])
EXPORTED = [n for n in MODEL]
assert len(EXPORTED) == 34 and all(hasattr(jaxtyping, n) for n in EXPORTED), sorted(EXPORTED)
MODEL["MyTwo"] = frozenset(["float32", "int32"])
MODEL["MyRe"] = frozenset(["uint8", "int8", "uint32", "int32"])
QUICK_CATS = ["Shaped", "Float", "Int", "Bool", "Float32", "Num", "Key", "UInt8", "Integer", "Inexact", "Complex", "Int32", "MyTwo"]
CATS = (EXPORTED + ["MyTwo", "MyRe"]) if THOROUGH else QUICK_CATS


def meet(cats):
    out = None
    for c in cats:
        m = MODEL[c]
        if m is not None:
            out = m if out is None else out & m
    return out


def features(dims):
    f = set()
    for w in dims.split():
        if w == "..." or (w.startswith("*") and "_" in w[:3]) or w.startswith("_*"):
            f.add("anonymous-variadic")
        elif w.startswith("_") or w.startswith("#_"):
            f.add("anonymous-axis")
    return f


# ---------------------------------------------------------------------------------------------------------------
tally = _common.Tally(max_failures=200)
tmp = tempfile.mkdtemp(prefix="b20_pickle_")
found = {}  # case -> failure
totals = {}


def add_failure(case, clause, example, expected, actual, route, snippet):
    key = (case, clause)
    totals[case.split(":")[0] + ":" + case.split(":")[1]] = totals.get(case.split(":")[0] + ":" + case.split(":")[1], 0) + 1
    f = found.get(key)
    if f is None:
        found[key] = dict(case=case, clause=clause, input={"annotations": [example], "routes": [route], "count": 1}, expected=expected, actual=actual, snippet=snippet)
    else:
        f["input"]["count"] += 1
        if example not in f["input"]["annotations"] and len(f["input"]["annotations"]) < 6:
            f["input"]["annotations"].append(example)
        if route not in f["input"]["routes"]:
            f["input"]["routes"].append(route)


def diff_desc(v0, v1):
    for i, (a, b) in enumerate(zip(v0, v1)):
        if a != b:
            return {"probe": PROBES[i][0], "original": a, "after": b, "n_differing": sum(1 for x, y in zip(v0, v1) if x != y)}
    return {"len": (len(v0), len(v1))}


try:
    with open(os.path.join(tmp, "b20_usercats.py"), "w") as fh:
        fh.write(USERMOD_SRC)
    with open(os.path.join(tmp, "b20_child.py"), "w") as fh:
        fh.write(CHILD_SRC)
    sys.path.insert(0, tmp)
    import b20_usercats  # noqa: E402

    def cat_obj(name):
        return getattr(b20_usercats, name) if name.startswith("My") else getattr(jaxtyping, name)

    def cat_src(name):
        return ("b20_usercats." if name.startswith("My") else "jaxtyping.") + name

    # array types: (id, source, builder, inner category or None, inner dims)
    ARRS = [
        ("ndarray", "np.ndarray", lambda: np.ndarray, None, ""),
        ("jaxArray", "jax.Array", lambda: jax.Array, None, ""),
        ("Any", "typing.Any", lambda: typing.Any, None, ""),
        ("nested-Float", "jaxtyping.Float[np.ndarray, 'a']", lambda: jaxtyping.Float[np.ndarray, "a"], ["Float"], "a"),
        ("nested-Shaped", "jaxtyping.Shaped[jax.Array, '_ b']", lambda: jaxtyping.Shaped[jax.Array, "_ b"], ["Shaped"], "_ b"),
        ("union", "typing.Union[np.ndarray, jax.Array]", lambda: Union[np.ndarray, jax.Array], None, ""),
    ]
    if THOROUGH:
        ARRS += [
            ("nested-Int32", "jaxtyping.Int32[jax.Array, 'a']", lambda: jaxtyping.Int32[jax.Array, "a"], ["Int32"], "a"),
            ("nested-MyTwo", "b20_usercats.MyTwo[np.ndarray, 'a']", lambda: b20_usercats.MyTwo[np.ndarray, "a"], ["MyTwo"], "a"),
            ("nested2", "jaxtyping.Shaped[jaxtyping.Float[np.ndarray, 'a'], 'b']", lambda: jaxtyping.Shaped[jaxtyping.Float[np.ndarray, "a"], "b"], ["Shaped", "Float"], "b a"),
            ("union-bar", "np.ndarray | jax.Array", lambda: np.ndarray | jax.Array, None, ""),
        ]
    DIMS = ["", "a", "a b", "*c", "... a", "3", "a #a", "_", "...", "_ a"]

    PICKLE_ROUTES = [(f"pickle-p{p}", (lambda o, p=p: pickle.loads(pickle.dumps(o, protocol=p)))) for p in range(pickle.HIGHEST_PROTOCOL + 1)]
    OTHER_ROUTES = [("copy.copy", copy.copy), ("copy.deepcopy", copy.deepcopy),
                    ("cloudpickle", lambda o: cloudpickle.loads(cloudpickle.dumps(o)))]
    ROUTES = PICKLE_ROUTES + OTHER_ROUTES  # cloudpickle last

    def classify(cat, arr, dims, route):
        aid, asrc, _, inner, idims = arr
        alld = (dims + " " + idims).strip()
        cats = [cat] + (inner or [])
        if route.startswith("cloudpickle") or route.startswith("subprocess-cloudpickle"):
            f = set(features(alld))
            if meet(cats) is None:
                f.add("any-dtype")
            if f:
                return "C20:cloudpickle-sentinel:" + "+".join(sorted(f))
        if inner is not None and (route.startswith("pickle") or route.startswith("subprocess-pickle")):
            if meet(cats) != MODEL[cat]:
                return f"F10:nested:{cat}[{asrc.replace('jaxtyping.', '').replace('b20_usercats.', '')}]"
        return f"C20:{aid}:{cat}[{aid}]"

    USER_PRE = ("import sys, tempfile, os\nd = tempfile.mkdtemp(); sys.path.insert(0, d)\n"
                "open(os.path.join(d, 'b20_usercats.py'), 'w').write('''" + USERMOD_SRC + "''')\nimport b20_usercats\n")

    def snippet(cat, arr, dims, route, probe):
        src = f"{cat_src(cat)}[{arr[1]}, {dims!r}]"
        rt = {"copy.copy": "copy.copy(ann)", "copy.deepcopy": "copy.deepcopy(ann)", "cloudpickle": "cloudpickle.loads(cloudpickle.dumps(ann))"}.get(route)
        if rt is None:
            if route.startswith("pickle-p"):
                rt = f"pickle.loads(pickle.dumps(ann, protocol={route[len('pickle-p'):]}))"
            elif route == "subprocess-pickle":
                rt = "pickle.loads(pickle.dumps(ann))  # the harness loads in a fresh subprocess"
            else:
                rt = "cloudpickle.loads(cloudpickle.dumps(ann))  # the harness loads in a fresh subprocess"
        pre = "import pickle, cloudpickle, copy, typing, numpy as np, jax, jax.numpy as jnp, jaxtyping\n"
        pre += "class Duck:\n    def __init__(self, dtype, shape): self.dtype, self.shape = dtype, shape\n"
        if "b20_usercats" in src:
            pre += USER_PRE
        return (pre + f"ann = {src}\nx = {probe}\n"
                "def acc(a):\n    try:\n        return any(isinstance(x, m) for m in (typing.get_args(a) if typing.get_origin(a) is not None else [a]))\n"
                "    except Exception as e:\n        return 'raises ' + type(e).__name__\n"
                f"before = acc(ann)\nback = {rt}\n"
                "print(before, acc(back), acc(ann))  # original before, round-tripped, original after: all three must agree\n")

    blobs = {}
    orig_vec = {}
    specs = {}
    n_built = n_unbuildable = 0
    for cat in CATS:
        for arr in ARRS:
            for dims in DIMS:
                sid = f"{cat}|{arr[0]}|{dims}"
                build = lambda: cat_obj(cat)[arr[2](), dims]  # noqa: E731
                try:
                    ann = build()
                except ValueError:
                    n_unbuildable += 1  # empty dtype intersection / two multi-axis specifiers: not an annotation
                    continue
                n_built += 1
                src = f"{cat}[{arr[1]}, {dims!r}]"
                v0 = vector(ann, PROBES)
                nontrivial = "1" in v0
                orig_vec[sid] = v0
                specs[sid] = (cat, arr, dims)
                # blobs for the fresh process are taken before any in-process load
                row = []
                for dump in (lambda o: pickle.dumps(o, protocol=pickle.HIGHEST_PROTOCOL), lambda o: pickle.dumps(o, protocol=2), cloudpickle.dumps):
                    try:
                        row.append(base64.b64encode(dump(ann)).decode())
                    except Exception as e:
                        row.append(None)
                        add_failure(classify(cat, arr, dims, "subprocess-pickle"), "dumps-raises", src, "serialises", f"{type(e).__name__}: {e}"[:120], "dumps",
                                    snippet(cat, arr, dims, "pickle-p5", PROBES[0][0]))
                blobs[sid] = row
                for route, fn in ROUTES:
                    tally.case((sid, route), nontrivial=nontrivial,
                               sample={"annotation": src, "route": route, "accepted_probes": v0.count("1")} if (tally.evaluations % 3571 == 5) else None)
                    try:
                        back = fn(ann)
                        v1 = vector(back, PROBES)
                    except Exception as e:
                        back, v1 = None, f"raise:{type(e).__name__}:{str(e)[:80]}"
                    if v1 != v0:
                        d = diff_desc(v0, v1) if not v1.startswith("raise") else {"probe": PROBES[0][0]}
                        wid = (not v1.startswith("raise")) and all(a == b or (a == "0" and b == "1") for a, b in zip(v0, v1))
                        add_failure(classify(cat, arr, dims, route), "roundtrip-widened" if wid else "roundtrip-changed", src,
                                    "same acceptance vector as the original", d if not v1.startswith("raise") else v1, route,
                                    snippet(cat, arr, dims, route, d["probe"]))
                    v2 = vector(ann, PROBES)
                    if v2 != v0:
                        d = diff_desc(v0, v2)
                        add_failure(classify(cat, arr, dims, route), "original-changed", src, "the original accepts the same values after the route ran", d, route,
                                    snippet(cat, arr, dims, route, d["probe"]))
                        ann = build()  # continue with a fresh, intact annotation
                        if vector(ann, PROBES) != v0:
                            add_failure(f"C20:rebuild:{src}", "rebuild-differs", src, "rebuilding gives the original meaning", "differs", route, snippet(cat, arr, dims, route, PROBES[0][0]))

    # AbstractArray itself has its own reducer branch
    for route, fn in ROUTES:
        tally.case(("AbstractArray", route), nontrivial=True)
        try:
            ok = fn(jaxtyping.AbstractArray) is jaxtyping.AbstractArray
        except Exception as e:
            ok = f"{type(e).__name__}: {e}"
        if ok is not True:
            add_failure("C20:AbstractArray", "identity", "jaxtyping.AbstractArray", "the same class object", ok, route,
                        "import pickle, jaxtyping\nprint(pickle.loads(pickle.dumps(jaxtyping.AbstractArray)) is jaxtyping.AbstractArray)\n")

    # ---- fresh subprocess: load every blob there and send the acceptance vectors back
    t_sub = time.time()
    keys = sorted(blobs)
    n_proc = 4 if THOROUGH else 2
    procs = []
    for i in range(n_proc):
        part = {k: blobs[k] for k in keys[i::n_proc]}
        fin, fout = os.path.join(tmp, f"in{i}.json"), os.path.join(tmp, f"out{i}.json")
        json.dump(part, open(fin, "w"))
        env = dict(os.environ)
        env["PYTHONPATH"] = os.pathsep.join([args.repo, tmp])
        env["JAX_PLATFORMS"] = "cpu"
        procs.append((subprocess.Popen([sys.executable, os.path.join(tmp, "b20_child.py"), fin, fout], env=env, stdout=subprocess.PIPE, stderr=subprocess.PIPE, cwd=tmp), fout))
    sub_res = {}
    for p, fout in procs:
        out, err = p.communicate(timeout=500)
        if p.returncode != 0 or not os.path.exists(fout):
            raise RuntimeError("subprocess failed: " + err.decode()[-600:])
        sub_res.update(json.load(open(fout)))
    SUB_ROUTES = ["subprocess-pickle", "subprocess-pickle-p2", "subprocess-cloudpickle"]
    for sid in keys:
        cat, arr, dims = specs[sid]
        src = f"{cat}[{arr[1]}, {dims!r}]"
        v0 = orig_vec[sid]
        for route, v1, b in zip(SUB_ROUTES, sub_res[sid], blobs[sid]):
            if b is None:
                continue
            tally.case((sid, route), nontrivial="1" in v0)
            if v1 != v0:
                is_err = v1.startswith("load-error")
                d = {"probe": PROBES[0][0]} if is_err else diff_desc(v0, v1)
                wid = (not is_err) and all(a == b2 or (a == "0" and b2 == "1") for a, b2 in zip(v0, v1))
                add_failure(classify(cat, arr, dims, route), "roundtrip-widened" if wid else ("load-raises" if is_err else "roundtrip-changed"), src,
                            "same acceptance vector in the fresh process", v1 if is_err else d, route, snippet(cat, arr, dims, "subprocess-pickle" if "cloud" not in route else "subprocess-cloudpickle", d["probe"]))
    t_sub = time.time() - t_sub
finally:
    if tmp in sys.path:
        sys.path.remove(tmp)
    sys.modules.pop("b20_usercats", None)
    shutil.rmtree(tmp, ignore_errors=True)

for key in sorted(found):
    if len(tally.failures) < tally.max_failures:
        tally.failures.append(found[key])

bound = (f"{len(CATS)} categories ({'all 34 exported + 2 user categories (string list, regex)' if THOROUGH else '12 representative exported + 1 user category'} defined at module level of an importable temp module) x "
         f"{len(ARRS)} array types ({', '.join(a[1] for a in ARRS)}) x {len(DIMS)} dim strings {DIMS} = {n_built} buildable annotations ({n_unbuildable} combinations are ValueError at construction and are skipped) x "
         f"{len(ROUTES)} in-process routes (pickle protocols 0..{pickle.HIGHEST_PROTOCOL}, copy.copy, copy.deepcopy, cloudpickle) + 3 fresh-subprocess routes (pickle highest protocol, pickle protocol 2, cloudpickle; "
         f"loaded with pickle.loads in a new interpreter) ; every acceptance vector is over {len(PROBES)} probes (numpy float32/int32/bool/uint8/complex64 x shapes rank 0..2 sizes {{1,2,3}}; jax float32/int32/bool x 8 shapes; 2 jax PRNG key arrays; "
         f"2 duck arrays; 1 Python float), each probe in a fresh jaxtyped('context'); plus jaxtyping.AbstractArray identity. Symbolic / f-string dims and Python scalar array types are not enumerated.")
rule = ("full cross product, no sampling; a case is (annotation, route); it is non-trivial when the original accepts at least one probe. Required: vector(original) == vector(round-tripped) and "
        "vector(original) is unchanged after the route ran. Failures are grouped by input class: F10:nested:<outer>[<inner>] = pickle routes on a nested annotation whose inner category restricts the outer one; "
        "C20:cloudpickle-sentinel:<features> = cloudpickle routes on annotations that contain an identity-compared sentinel (any-dtype, anonymous axis '_', anonymous variadic '...'); anything else C20:<array type>:<category>[<array type>] (the dim strings concerned are in input.annotations). "
        "`input.count` is the number of (annotation, route) cases in the group, `input.annotations` up to 6 examples.")
_common.emit(tally, bound=bound, rule=rule, exhaustive=True, tier=args.tier, group_totals=totals, wall=round(time.time() - args.t0, 1), subprocess_wall=round(t_sub, 1))
