"""Regression over the kept seeded changes: applies seeded/<id>/patch.diff to a scratch COPY of /repo/jaxtyping and runs the check of the change's property
(VERIF_OUT redirected). Every change must still be reported (exit 1). Usage: tools_regress_seeded.py [ids...]   (8 at a time)"""
import glob, json, os, shutil, subprocess, sys, tempfile
from concurrent.futures import ThreadPoolExecutor
ids = sys.argv[1:] or sorted(os.path.basename(os.path.dirname(m)) for m in glob.glob("/verif/seeded/*/meta.json"))
def run(i):
    meta = json.load(open(f"/verif/seeded/{i}/meta.json"))
    props = meta["caught_by"] if meta["property"] not in meta["caught_by"] else [meta["property"]]
    w = tempfile.mkdtemp(prefix="rs_")
    try:
        os.makedirs(w + "/tree"); shutil.copytree("/repo/jaxtyping", w + "/tree/jaxtyping")
        p = subprocess.run(["patch", "-p1", "-s", "-i", f"/verif/seeded/{i}/patch.diff"], cwd=w + "/tree", capture_output=True, text=True)
        if p.returncode:
            return i, "APPLY-FAILED", ""
        rcs = []
        first = ""
        for P in props[:1]:
            env = dict(os.environ, VERIF_OUT=w + "/out")
            r = subprocess.run(["/verif/check", P, "--repo", w + "/tree"], capture_output=True, text=True, env=env, cwd="/verif")
            rcs.append(r.returncode)
            first = next((l for l in r.stdout.splitlines() if l.startswith(("VIOLATION", "UNDECIDED", "CHECKER"))), "")
        return i, rcs[0], first[:200]
    finally:
        shutil.rmtree(w, ignore_errors=True)
bad = 0
with ThreadPoolExecutor(6) as ex:
    for i, rc, first in ex.map(run, ids):
        if rc != 1:
            bad += 1
            print("NOT-REPORTED", i, rc, first)
            sys.stdout.flush()
print(f"regression: {len(ids)} seeded changes, {bad} not reported")
