"""Throw-away spike: symbolic execution of the REAL _check_dims (read from source) into z3 VCs.
Purpose: validate DESIGN section 2 (path enumeration, loop cutting against an indexed fold spec,
exceptions as outcomes, opaque eval, replayable counter-models). Not framework code."""
import ast, sys, time, itertools
from z3 import *

REPO = sys.argv[1] if len(sys.argv) > 1 else "/repo"
SRC = open(f"{REPO}/jaxtyping/_array_types.py").read()
MOD = ast.parse(SRC)

# ---------- extraction: dataclass layouts and the function, from the source -------------
def find_fn(name):
    for n in ast.walk(MOD):
        if isinstance(n, ast.FunctionDef) and n.name == name:
            return n
    raise SystemExit(f"undecided: function {name} not found")

def dataclass_fields(name):
    for n in MOD.body:
        if isinstance(n, ast.ClassDef) and n.name == name:
            return [s.target.id for s in n.body if isinstance(s, ast.AnnAssign)]
    raise SystemExit(f"undecided: class {name} not found")

SORTS = {"name": StringSort(), "broadcastable": BoolSort(), "treepath": BoolSort(), "size": IntSort(), "elem": StringSort()}
Dim = Datatype("Dim")
Dim.declare("_anonymous_dim"); Dim.declare("_anonymous_variadic_dim")
CLASSES = ["_NamedDim", "_NamedVariadicDim", "_FixedDim", "_SymbolicDim"]
for c in CLASSES:
    Dim.declare(c, *[(f"{c}.{f}", SORTS[f]) for f in dataclass_fields(c)])
Dim = Dim.create()
def is_cls(d, c): return getattr(Dim, f"is_{c}")(d)
def field(d, c, f): return getattr(Dim, f"{c}.{f}")(d)

# ---------- symbolic values --------------------------------------------------------------
class V:  # tagged symbolic value
    def __init__(s, kind, t=None, **kw): s.kind, s.t = kind, t; s.__dict__.update(kw)
    def __repr__(s): return f"V({s.kind},{s.t})"
def VInt(t): return V("int", t)
def VBool(t): return V("bool", t)
def VStr(t): return V("str", t)
def VDim(t): return V("dim", t)
class Map:  # dict[str,int] as (values, domain) arrays ; mutation = rebinding in the env (single alias)
    def __init__(s, m, d): s.m, s.d = m, d
MEMO_M = ArraySort(StringSort(), IntSort()); MEMO_D = ArraySort(StringSort(), BoolSort())

# opaque externals -------------------------------------------------------------------------
# eval(): outcome tag 0=value, 1=NameError, 2=other exception (any class, possibly not Exception)
EvalTag1 = Function("EvalTag1", StringSort(), IntSort())            # eval of the f-string over arg_memo (arg_memo fixed)
EvalVal1 = Function("EvalVal1", StringSort(), StringSort())
EvalTag2 = Function("EvalTag2", StringSort(), MEMO_M, MEMO_D, IntSort())
EvalVal2 = Function("EvalVal2", StringSort(), MEMO_M, MEMO_D, IntSort())
HasLabel = Bool("HasLabel"); Label = String("Label")               # get_treepath_memo(): raises AnnotationError iff not HasLabel

class Raise(Exception): pass

class State:
    def __init__(s, env, pc, obl=None): s.env, s.pc, s.obl = dict(env), list(pc), obl if obl is not None else []
    def fork(s, cond): return State(s.env, s.pc + [cond], s.obl)

# outcomes: ("normal",) ("return", V) ("raise", clsname, extra) ; extra carries e.g. which eval raised
def truth(v):
    if v.kind == "bool": return v.t
    if v.kind == "str": return Length(v.t) > 0
    if v.kind == "int": return v.t != 0
    raise NotImplementedError(v)

EXC_SUB = {"NameError": {"NameError"}, "KeyError": {"KeyError"}, "Exception": {"NameError","KeyError","AnnotationError","OtherException"},}
# "OtherBase" is a non-Exception BaseException

def ev(e, st):
    """evaluate expression -> list of (state, V | ('raise', cls, info))"""
    if isinstance(e, ast.Name):
        if e.id in st.env: return [(st, st.env[e.id])]
        if e.id in ("_anonymous_dim", "_anonymous_variadic_dim"): return [(st, VDim(getattr(Dim, e.id)))]
        if e.id in CLASSES: return [(st, V("class", e.id))]
        raise NotImplementedError(f"name {e.id}")
    if isinstance(e, ast.Constant):
        if isinstance(e.value, bool): return [(st, VBool(BoolVal(e.value)))]
        if isinstance(e.value, int): return [(st, VInt(IntVal(e.value)))]
        if isinstance(e.value, str): return [(st, VStr(StringVal(e.value)))]
    if isinstance(e, ast.JoinedStr):
        parts = []; sts = [(st, [])]
        for p in e.values:
            nxt = []
            for s0, acc in sts:
                if isinstance(p, ast.Constant): nxt.append((s0, acc + [("lit", p.value)]))
                else:
                    for s1, v in ev(p.value, s0):
                        nxt.append((s1, acc + [("val", v)]))  # (no raising sub-expressions inside f-strings in this function)
            sts = nxt
        out = []
        for s0, acc in sts:
            # faithful only where all interpolated values are strings; otherwise abstract to fresh non-empty-if-literal string
            if all(k == "lit" or v.kind == "str" for k, v in acc):
                t = Concat(*[StringVal(v) if k == "lit" else v.t for k, v in acc]) if len(acc) > 1 else (StringVal(acc[0][1]) if acc[0][0]=="lit" else acc[0][1].t)
                out.append((s0, VStr(t)))
            else:
                fresh = FreshConst(StringSort(), "fstr")
                s1 = s0.fork(Length(fresh) >= sum(len(v) for k, v in acc if k == "lit"))
                out.append((s1, VStr(fresh)))
        return out
    if isinstance(e, ast.Attribute):
        out = []
        for s0, v in ev(e.value, st):
            if is_raise(v): out.append((s0, v)); continue
            if v.kind == "dim":
                # attribute exists on which dataclasses?  -> type-safety obligation
                owners = [c for c in CLASSES if e.attr in dataclass_fields(c)]
                safe = Or(*[is_cls(v.t, c) for c in owners]) if owners else BoolVal(False)
                s0.obl.append((f"attr-safe .{e.attr} L{e.lineno}", list(s0.pc), safe))
                s1 = s0.fork(safe)
                t = None
                for c in owners:
                    ft = field(v.t, c, e.attr)
                    t = ft if t is None else If(is_cls(v.t, c), ft, t)
                srt = SORTS[e.attr]
                out.append((s1, VBool(t) if srt == BoolSort() else VInt(t) if srt == IntSort() else VStr(t)))
            else: raise NotImplementedError(("attr", v, e.attr))
        return out
    if isinstance(e, ast.Compare) and len(e.ops) == 1:
        out = []
        for s0, a in ev(e.left, st):
            if is_raise(a): out.append((s0, a)); continue
            for s1, b in ev(e.comparators[0], s0):
                if is_raise(b): out.append((s1, b)); continue
                op = e.ops[0]
                if isinstance(op, ast.Is):
                    if a.kind == "dim" and b.kind == "dim": out.append((s1, VBool(a.t == b.t)))   # sentinels: identity = constructor equality
                    elif a.kind == "typeof" and b.kind == "class": out.append((s1, VBool(is_cls(a.t, b.t))))
                    else: raise NotImplementedError(("is", a, b))
                elif isinstance(op, (ast.Eq, ast.NotEq)):
                    if a.kind != b.kind: raise NotImplementedError(("eq kinds", a, b))
                    t = a.t == b.t
                    out.append((s1, VBool(t if isinstance(op, ast.Eq) else Not(t))))
                elif isinstance(op, (ast.Gt, ast.Lt, ast.GtE, ast.LtE)) and a.kind == b.kind == "int":
                    t = {ast.Gt: a.t > b.t, ast.Lt: a.t < b.t, ast.GtE: a.t >= b.t, ast.LtE: a.t <= b.t}[type(op)]
                    out.append((s1, VBool(t)))
                else: raise NotImplementedError(op)
        return out
    if isinstance(e, ast.UnaryOp) and isinstance(e.op, ast.Not):
        return [(s0, v if is_raise(v) else VBool(Not(truth(v)))) for s0, v in ev(e.operand, st)]
    if isinstance(e, ast.BoolOp):
        # short circuit, values are bools in this function
        results = []
        def go(i, s0, acc):
            for s1, v in ev(e.values[i], s0):
                if is_raise(v): results.append((s1, v)); continue
                c = truth(v)
                if i == len(e.values) - 1: results.append((s1, VBool(And(*acc, c)) if isinstance(e.op, ast.And) else VBool(Or(*acc, c)))); continue
                if isinstance(e.op, ast.And):
                    results.append((s1.fork(Not(c)), VBool(BoolVal(False))))
                    go(i + 1, s1.fork(c), acc)
                else:
                    results.append((s1.fork(c), VBool(BoolVal(True))))
                    go(i + 1, s1.fork(Not(c)), acc)
        go(0, st, [])
        return results
    if isinstance(e, ast.BinOp) and isinstance(e.op, ast.Add):
        out = []
        for s0, a in ev(e.left, st):
            if is_raise(a): out.append((s0, a)); continue
            for s1, b in ev(e.right, s0):
                if is_raise(b): out.append((s1, b)); continue
                if a.kind == b.kind == "str": out.append((s1, VStr(Concat(a.t, b.t))))
                else: raise NotImplementedError(("add", a, b))
        return out
    if isinstance(e, ast.Call):
        f = e.func
        if isinstance(f, ast.Name) and f.id == "type":
            return [(s0, V("typeof", v.t)) for s0, v in ev(e.args[0], st)]
        if isinstance(f, ast.Name) and f.id == "len":
            return [(s0, VInt(v.n)) for s0, v in ev(e.args[0], st)]
        if isinstance(f, ast.Name) and f.id == "get_treepath_memo":
            return [(st.fork(HasLabel), VStr(Label)), (st.fork(Not(HasLabel)), ("raise", "AnnotationError", "no-label"))]
        if isinstance(f, ast.Attribute) and f.attr == "copy":
            return ev(f.value, st)  # value semantics: copy of a map is the map
        if isinstance(f, ast.Name) and f.id == "eval":
            out = []
            for s0, src in ev(e.args[0], st):
                if is_raise(src): out.append((s0, src)); continue
                for s1, scope in ev(e.args[1], s0):
                    if scope.kind == "argmemo":
                        tag, val = EvalTag1(src.t), VStr(EvalVal1(src.t))
                    else:
                        tag, val = EvalTag2(src.t, scope.t.m, scope.t.d), VInt(EvalVal2(src.t, scope.t.m, scope.t.d))
                    out.append((s1.fork(tag == 0), val))
                    out.append((s1.fork(tag == 1), ("raise", "NameError", "eval")))
                    out.append((s1.fork(And(tag != 0, tag != 1, tag != 3)), ("raise", "OtherException", "eval")))
                    out.append((s1.fork(tag == 3), ("raise", "OtherBase", "eval")))
            return out
        if isinstance(f, ast.Name) and f.id == "AnnotationError":
            return [(st, V("exc", "AnnotationError"))]
        if isinstance(f, ast.Name) and f.id == "zip":
            a = ev(e.args[0], st)[0][1]; b = ev(e.args[1], st)[0][1]
            return [(st, V("zip", (a, b)))]
    if isinstance(e, ast.Subscript):
        out = []
        for s0, m in ev(e.value, st):
            for s1, k in ev(e.slice, s0):
                if is_raise(k): out.append((s1, k)); continue
                if m.kind == "map":
                    out.append((s1.fork(m.t.d[k.t]), VInt(m.t.m[k.t])))
                    out.append((s1.fork(Not(m.t.d[k.t])), ("raise", "KeyError", "subscript")))
                else: raise NotImplementedError(m)
        return out
    raise NotImplementedError(ast.dump(e)[:200])

def is_raise(v): return isinstance(v, tuple) and v[0] == "raise"

def handles(handler_type, cls):
    if handler_type == cls: return True
    if handler_type == "Exception": return cls in EXC_SUB["Exception"]
    return False

def run(stmts, st):
    """-> list of (state, outcome)"""
    if not stmts: return [(st, ("normal",))]
    s, rest = stmts[0], stmts[1:]
    res = []
    def cont(states):
        for s1, o in states:
            if o[0] == "normal": res.extend(run(rest, s1))
            else: res.append((s1, o))
    if isinstance(s, ast.Pass): cont([(st, ("normal",))])
    elif isinstance(s, ast.Expr): cont([(s0, ("normal",)) if not is_raise(v) else (s0, v) for s0, v in ev(s.value, st)])
    elif isinstance(s, ast.Assert):
        outs = []
        for s0, v in ev(s.test, st):
            if is_raise(v): outs.append((s0, v)); continue
            s0.obl.append((f"assert L{s.lineno}", list(s0.pc), truth(v)))
            outs.append((s0.fork(truth(v)), ("normal",)))
        cont(outs)
    elif isinstance(s, ast.Assign) and len(s.targets) == 1:
        tgt = s.targets[0]; outs = []
        for s0, v in ev(s.value, st):
            if is_raise(v): outs.append((s0, v)); continue
            if isinstance(tgt, ast.Name):
                s1 = State(s0.env, s0.pc, s0.obl); s1.env[tgt.id] = v; outs.append((s1, ("normal",)))
            elif isinstance(tgt, ast.Subscript):
                for s1, m in ev(tgt.value, s0):
                    for s2, k in ev(tgt.slice, s1):
                        if is_raise(k): outs.append((s2, k)); continue
                        assert m.kind == "map" and isinstance(tgt.value, ast.Name)
                        s3 = State(s2.env, s2.pc, s2.obl)
                        s3.env[tgt.value.id] = V("map", Map(Store(m.t.m, k.t, v.t), Store(m.t.d, k.t, BoolVal(True))))
                        outs.append((s3, ("normal",)))
            else: raise NotImplementedError(ast.dump(tgt))
        cont(outs)
    elif isinstance(s, ast.If):
        outs = []
        for s0, v in ev(s.test, st):
            if is_raise(v): outs.append((s0, v)); continue
            c = truth(v)
            outs.extend(run(s.body, s0.fork(c))); outs.extend(run(s.orelse, s0.fork(Not(c))))
        cont(outs)
    elif isinstance(s, ast.Return):
        for s0, v in ev(s.value, st): res.append((s0, v if is_raise(v) else ("return", v)))
    elif isinstance(s, ast.Raise):
        for s0, v in ev(s.exc, st): res.append((s0, v if is_raise(v) else ("raise", v.t, "explicit")))
    elif isinstance(s, ast.Try):
        outs = []
        for s0, o in run(s.body, st):
            if o[0] == "raise":
                for h in s.handlers:
                    if handles(h.type.id, o[1]):
                        outs.extend(run(h.body, s0)); break
                else: outs.append((s0, o))
            elif o[0] == "normal": outs.extend(run(s.orelse, s0))
            else: outs.append((s0, o))
        assert not s.finalbody
        cont(outs)
    elif isinstance(s, ast.For):
        raise NotImplementedError("nested loop")
    else: raise NotImplementedError(ast.dump(s)[:100])
    return res

# ---------- the spec (written from the C01 statement), as an indexed fold ------------------
def spec_step(d, s, m, dm):
    """-> (verdict, m', dm')  verdict: 0 accept, 1 reject, 2 AnnotationError, 3 other exception (opaque eval), 4 non-Exception"""
    A = Dim
    bc_named = field(d, "_NamedDim", "broadcastable"); bc_fixed = field(d, "_FixedDim", "broadcastable"); bc_sym = field(d, "_SymbolicDim", "broadcastable")
    key = If(field(d, "_NamedDim", "treepath"), Concat(Label, field(d, "_NamedDim", "name")), field(d, "_NamedDim", "name"))
    e1 = Concat(StringVal("f'"), field(d, "_SymbolicDim", "elem"), StringVal("'"))
    t1 = EvalTag1(e1); s2 = EvalVal1(e1); t2 = EvalTag2(s2, m, dm); v2 = EvalVal2(s2, m, dm)
    def exc_of(t): return If(t == 1, 2, If(t == 3, 4, 3))
    sym_verdict = If(t1 != 0, exc_of(t1), If(t2 != 0, exc_of(t2), If(v2 == s, 0, 1)))
    verdict = If(is_cls(d, "_anonymous_dim"), 0,
              If(is_cls(d, "_FixedDim"), If(Or(And(bc_fixed, s == 1), field(d, "_FixedDim", "size") == s), 0, 1),
              If(is_cls(d, "_SymbolicDim"), If(And(bc_sym, s == 1), 0, sym_verdict),
              # named
              If(And(bc_named, s == 1), 0,
              If(And(field(d, "_NamedDim", "treepath"), Not(HasLabel)), 2,
              If(dm[key], If(m[key] == s, 0, 1), 0))))))
    binds = And(is_cls(d, "_NamedDim"), Not(And(bc_named, s == 1)), Or(Not(field(d, "_NamedDim", "treepath")), HasLabel), Not(dm[key]))
    return verdict, If(binds, Store(m, key, s), m), If(binds, Store(dm, key, BoolVal(True)), dm)

Fm = Function("Fm", IntSort(), MEMO_M); Fd = Function("Fd", IntSort(), MEMO_D); Fv = Function("Fv", IntSort(), IntSort())
# Fv(k): 0 if first k axes all accepted, else the verdict of the first non-accepting axis

def main():
    fn = find_fn("_check_dims")
    params = [a.arg for a in fn.args.args]
    assert params == ["cls_dims", "obj_shape", "single_memo", "arg_memo"], params
    body = fn.body
    # shape of the function: assert ; for ; return ""   (anything else -> undecided)
    assert isinstance(body[0], ast.Assert) and isinstance(body[1], ast.For) and isinstance(body[2], ast.Return) and len(body) == 3, "undecided: unexpected top-level shape"
    loop = body[1]
    dims = Const("dims", SeqSort(Dim)); shape = Const("shape", SeqSort(IntSort())); n = Length(dims)
    k = Int("k")
    d_k, s_k = dims[k], shape[k]
    pre = [Length(dims) == Length(shape), 0 <= k, k < n,
           Not(is_cls(d_k, "_anonymous_variadic_dim")), Not(is_cls(d_k, "_NamedVariadicDim"))]   # requires: no variadic (instantiated at k)
    # unfolding axiom of the fold at k
    v, m1, d1 = spec_step(d_k, s_k, Fm(k), Fd(k))
    unfold = [Fv(k + 1) == If(Fv(k) != 0, Fv(k), v), Implies(And(Fv(k) == 0, v == 0), And(Fm(k + 1) == m1, Fd(k + 1) == d1))]
    inv_k = [Fv(k) == 0]                                        # invariant at loop head: memo == F(k), no reject so far
    env = {"cls_dims": V("seq", dims, n=n), "obj_shape": V("seq", shape, n=Length(shape)),
           "single_memo": V("map", Map(Fm(k), Fd(k))), "arg_memo": V("argmemo", None)}
    # loop targets
    assert ast.unparse(loop.iter) == "zip(cls_dims, obj_shape)", "undecided: loop header changed"
    t0, t1 = [e.id for e in loop.target.elts]
    env[t0] = VDim(d_k); env[t1] = VInt(s_k)
    st0 = State(env, pre + unfold + inv_k)
    t_start = time.time()
    outs = run(loop.body, st0)
    obligations = []
    for i, (s1, o) in enumerate(outs):
        mm = s1.env["single_memo"].t
        if o[0] == "normal":
            goal = And(Fv(k + 1) == 0, Fm(k + 1) == mm.m, Fd(k + 1) == mm.d); kind = "preserve"
        elif o[0] == "return":
            goal = And(o[1].t != StringVal(""), Fv(k + 1) == 1); kind = "reject"
        elif o[0] == "raise":
            want = {"AnnotationError": 2, "OtherException": 3, "OtherBase": 4}.get(o[1])
            goal = (Fv(k + 1) == want) if want else BoolVal(False); kind = f"raise {o[1]}"
        obligations.append((f"loop.path{i}:{kind}", s1.pc, goal))
        for (nm, pc, g) in s1.obl: pass
    # type-safety / assert obligations collected along the way (dedupe by name+pc length)
    seen = set()
    for s1, o in outs:
        for (nm, pc, g) in s1.obl:
            key = (nm, len(pc))
            if key in seen: continue
            seen.add(key); obligations.append((nm, pc, g))
    # entry assert and exit
    obligations.append(("entry.assert-len", [Length(dims) == Length(shape)], Length(dims) == Length(shape)))
    res = {"unsat": 0, "sat": 0, "unknown": 0, "dead": 0}
    failed = []
    for nm, pc, goal in obligations:
        s = Solver(); s.set("timeout", 10000); s.add(*pc)
        if s.check() == unsat: res["dead"] += 1; continue
        s.add(Not(goal)); r = s.check(); res[str(r)] += 1
        if r != unsat: failed.append((nm, r, s.model() if r == sat else None))
    print(f"paths={len(outs)} obligations={len(obligations)} {res} time={time.time()-t_start:.2f}s")
    for nm, r, mdl in failed:
        print("  FAILED", nm, r)
        if mdl is not None:
            ev_ = lambda t: mdl.eval(t, model_completion=True)
            print("    witness: dim_k =", ev_(d_k), " size_k =", ev_(s_k), " HasLabel =", ev_(HasLabel))
            key = ev_(If(field(d_k, "_NamedDim", "treepath"), Concat(Label, field(d_k, "_NamedDim", "name")), field(d_k, "_NamedDim", "name")))
            print("    memo has key", key, ":", ev_(Fd(k)[key]), "value", ev_(Fm(k)[key]))
    return 1 if failed else 0

if __name__ == "__main__":
    sys.exit(main())
