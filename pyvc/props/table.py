"""Which units / lemmas / bounded stand-ins / replayers decide each property, and what is claimed."""

TECH = "contract-based deductive verification: VCs generated on every run from the real source AST (sidecar contracts, loop invariants, callee-by-contract, handle-based heap, exceptions as outcomes), discharged by z3 (cvc5 / z3-4.8 for unknowns); native replay of counter-models; bounded differential stand-ins for assumed dependency contracts (never counted as proved)"

COMMON_NOTE = "Trusted: PyVC's encoding of the Python subset (T1), z3/cvc5 (T2), CPython semantics incl. no asynchronous exceptions (T3), user-code frame (T4), assumed contracts of dependencies listed in evidence.assumptions with their bounded validators (T5), induction meta-step (T6)."

SPECS = {
    "C01": dict(units=["check_dims", "check_shape", "instancecheck", "storage"], bounded=[{"script": "b01_shape_spec.py"}],
                replayers={"check_dims": "check_dims.py", "instancecheck": "instancecheck.py"},
                text="The verdict and post-bindings of an array check are proved equal to the spec written from the statement: loop invariant of _check_dims against the indexed fold of the axis-step spec (all ranks, all prior memos), slice arithmetic and the four variadic/broadcast cases of _check_shape, composition array-type /\\ dtype /\\ shape in __instancecheck_str__, type-safety of every attribute access. eval() and numpy.broadcast_shapes are assumed contracts (bounded validator b01 also cross-checks the spec itself end to end)."),
    "C04": dict(units=["instancecheck", "storage", "check_dims", "check_shape"], bounded=[{"script": "b01_shape_spec.py"}, {"script": "b08_pytree_leaves.py"}],
                replayers={"instancecheck": "instancecheck.py", "check_dims": "check_dims.py"},
                text="For every path through __instancecheck_str__ -- every exception class at every call-out -- a non-accepting or raising check leaves the four memo dicts of the current context equal to their pre-state (handle-based heap: snapshot copies, in-place mutation by _check_shape, set_shape_memo replacing the top frame); accept => post-state is the spec's; idempotence follows from the step spec. PyTree side: bounded (b08) until the pytree unit lands."),
    "C05": dict(units=["wrappers", "storage"], bounded=[{"script": "b05_contexts.py"}], replayers={"wrappers": "wrappers.py"},
                text="push/pop/get/set_shape_memo proved against their contracts on all three stack shapes; both wrapper closures and _JaxtypingContext proved to leave the context stack exactly as found on every exit path and for every exception class (symbolic exception classes narrowed by the except clauses they meet), never popping a frame they did not push; statelessness outside contexts from get_shape_memo's contract."),
    "C07": dict(units=["wrappers"], bounded=[{"script": "b07_transparency.py"}], replayers={"wrappers": "wrappers.py"},
                text="Ghost call log over the real wrapper closures: body runs exactly once on return with the wrapper's own args/kwargs objects, result/exception identity preserved, never after a parameter failure, bind failure => TypeError before anything runs. Signature synthesis (exec of generated def) is an assumed contract validated by b07."),
    "C13": dict(units=["wrappers"], bounded=[{"script": "b13_messages.py"}], replayers={"wrappers": "wrappers.py"},
                text="Exceptional postconditions of wrapped_fn_impl: TypeCheckError iff a checker call failed with a non-AnnotationError Exception, AnnotationError / non-Exception propagate untouched, stage sentence matches the failing stage, `from None` iff the remove-stack switch, and the memo handed to shape_str is the CURRENT top frame at message-building time (handle identity)."),
    "C19": dict(units=["wrappers"], bounded=[{"script": "b19_disable.py"}], replayers={"wrappers": "wrappers.py"},
                text="Disabled branch of the wrappers: only the body is called, nothing pushed, result/exception identity; the switch is read at call time. Config parsing: bounded (b19) until the config unit lands."),
    "C02": dict(units=["wrappers", "check_dims", "check_shape", "instancecheck"], bounded=[{"script": "b02_calls.py"}], replayers={"wrappers": "wrappers.py", "check_dims": "check_dims.py"},
                text="Wrapper protocol (one fresh frame per call; parameters checked before the body, parameters+return after, in the same frame, with the call's own arguments) proved on the real closures; per-check semantics from C01. 'greedy = exists one consistent assignment' and the type-checker discipline are covered by the brute-force stand-in b02 (bounded)."),
}

LEVEL_CATEGORY = {k: "proof" for k in SPECS}


def manifest_entry(pid):
    s = SPECS[pid]
    return {"category": s.get("category", "proof"), "text": s["text"], "level_note": s.get("level_note", COMMON_NOTE), "technique": TECH}
