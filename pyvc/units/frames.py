"""Unit: frame / ownership obligations generated from the real source (C06 confinement, C12 global-state inventory,
C17 read-frame). These are `modifies` / `reads` clauses checked over EVERY statement of the functions on the check and
call paths; they are decided by a conservative flow analysis over the AST (an over-approximation: any write or use it
cannot classify is reported), not by the solver.

C06  every write on a check / call path targets a local, a thread-local root attribute, an object reachable only from a
     thread-local root, a memo dict handed down as a parameter, or an object created in the same call.
C12  the only process-global state written by checks, decorated calls, context blocks and decoration is the listed set of
     documented setters; everything else a check reads is restored (units pytree / instancecheck / wrappers).
C17  the checked object flows only into isinstance / hasattr / static-metadata attribute reads (shape, dtype, ...) and
     into callees analysed the same way; array-valued data never reaches a truth test, a comparison, an iteration, an
     index, a conversion or an unknown callee.
"""
from __future__ import annotations

import ast

import z3

from ..source import Module, NotFound
from ..values import Unsupported

NAME = "frames"

MUTATORS = {"append", "insert", "pop", "remove", "clear", "update", "setdefault", "add", "discard", "extend", "popitem", "sort", "reverse", "__setitem__", "__delitem__"}
THREAD_LOCAL_ROOTS = {"_shape_storage", "_treepath_storage", "_treeflatten_storage"}

# functions on the check / call paths: (file, qualname, memo-dict parameters or locals obtained from get_shape_memo/push_shape_memo)
CHECK_PATH = [
    ("jaxtyping/_storage.py", "_has_shape_memo"), ("jaxtyping/_storage.py", "get_shape_memo"), ("jaxtyping/_storage.py", "set_shape_memo"),
    ("jaxtyping/_storage.py", "push_shape_memo"), ("jaxtyping/_storage.py", "pop_shape_memo"), ("jaxtyping/_storage.py", "shape_str"),
    ("jaxtyping/_storage.py", "clear_treepath_memo"), ("jaxtyping/_storage.py", "set_treepath_memo"), ("jaxtyping/_storage.py", "get_treepath_memo"),
    ("jaxtyping/_storage.py", "clear_treeflatten_memo"), ("jaxtyping/_storage.py", "set_treeflatten_memo"), ("jaxtyping/_storage.py", "get_treeflatten_memo"),
    ("jaxtyping/_array_types.py", "_check_dims"), ("jaxtyping/_array_types.py", "_dtype_is_numpy_struct_array"),
    ("jaxtyping/_array_types.py", "_MetaAbstractArray.__instancecheck__"), ("jaxtyping/_array_types.py", "_MetaAbstractArray.__instancecheck_str__"),
    ("jaxtyping/_array_types.py", "_MetaAbstractArray._check_shape"),
    ("jaxtyping/_pytree_type.py", "_MetaPyTree.__instancecheck__"), ("jaxtyping/_pytree_type.py", "_MetaPyTree._check"),
    ("jaxtyping/_decorator.py", "_JaxtypingContext.__enter__"), ("jaxtyping/_decorator.py", "_JaxtypingContext.__exit__"),
    ("jaxtyping/_decorator.py", "_get_problem_arg"),
]
MEMO_NAMES = {"single_memo", "variadic_memo", "pytree_memo", "arg_memo", "arguments", "memo_stack", "memos", "single_memo_bak", "variadic_memo_bak", "pytree_memo_bak", "arg_memo_bak"}


def walk_shallow(fn):
    """ast.walk that does not descend into nested function / class definitions (they are analysed on their own)."""
    stack = list(ast.iter_child_nodes(fn))
    while stack:
        n = stack.pop()
        yield n
        if isinstance(n, (ast.FunctionDef, ast.AsyncFunctionDef, ast.ClassDef, ast.Lambda)):
            continue
        stack.extend(ast.iter_child_nodes(n))


def locals_of(fn):
    out = {a.arg for a in fn.args.posonlyargs + fn.args.args + fn.args.kwonlyargs}
    if fn.args.vararg:
        out.add(fn.args.vararg.arg)
    if fn.args.kwarg:
        out.add(fn.args.kwarg.arg)
    for n in ast.walk(fn):
        if isinstance(n, ast.Name) and isinstance(n.ctx, ast.Store):
            out.add(n.id)
        elif isinstance(n, (ast.FunctionDef, ast.ClassDef)) and n is not fn:
            out.add(n.name)
        elif isinstance(n, ast.ExceptHandler) and n.name:
            out.add(n.name)
    glob = set()
    for n in ast.walk(fn):
        if isinstance(n, (ast.Global, ast.Nonlocal)):
            glob |= set(n.names)
    return out - glob, glob


def root_name(e):
    while isinstance(e, (ast.Attribute, ast.Subscript, ast.Call)):
        e = e.value if not isinstance(e, ast.Call) else e.func
    return e.id if isinstance(e, ast.Name) else None


def fresh_locals(fn):
    """locals bound (only) to objects created in this call: displays, comprehensions, .copy(), constructor-like calls."""
    fresh, other = set(), set()
    for n in ast.walk(fn):
        if isinstance(n, ast.Assign):
            v = n.value
            is_fresh = isinstance(v, (ast.Dict, ast.List, ast.Set, ast.Tuple, ast.ListComp, ast.DictComp, ast.SetComp, ast.Constant, ast.JoinedStr)) or (
                isinstance(v, ast.Call) and ((isinstance(v.func, ast.Attribute) and v.func.attr in ("copy", "split", "rsplit", "values", "items", "keys")) or (isinstance(v.func, ast.Name) and v.func.id in ("list", "dict", "tuple", "set", "frozenset", "object", "sorted"))))
            for t in n.targets:
                for x in ast.walk(t):
                    if isinstance(x, ast.Name) and isinstance(x.ctx, ast.Store):
                        (fresh if is_fresh else other).add(x.id)
    return fresh - other


def write_sites(fn):
    """-> [(kind, source text, root name, lineno)] for every write that is not a plain local rebinding."""
    loc, glob = locals_of(fn)
    sites = []
    for n in walk_shallow(fn):
        targets = []
        if isinstance(n, ast.Assign):
            targets = n.targets
        elif isinstance(n, (ast.AugAssign, ast.AnnAssign)):
            targets = [n.target]
        elif isinstance(n, ast.Delete):
            targets = n.targets
        for t in targets:
            for x in ([t] if not isinstance(t, (ast.Tuple, ast.List)) else t.elts):
                if isinstance(x, ast.Name):
                    if x.id in glob:
                        sites.append(("global-rebind", ast.unparse(x), x.id, n.lineno))
                elif isinstance(x, (ast.Attribute, ast.Subscript)):
                    sites.append(("store", ast.unparse(x), root_name(x), n.lineno))
        if isinstance(n, ast.Call) and isinstance(n.func, ast.Attribute) and n.func.attr in MUTATORS:
            sites.append(("mutating-call", ast.unparse(n.func), root_name(n.func.value), n.lineno))
    return sites, loc, glob


def classify(site, loc, fresh, fn_name):
    kind, text, root, _ = site
    if root in THREAD_LOCAL_ROOTS:
        return "thread-local root attribute"
    if root in MEMO_NAMES and root in loc:
        return "memo object owned by this thread's context (parameter / obtained from the thread-local stack / fresh copy)"
    if root in fresh:
        return "object created in this call"
    if root in ("kwargs", "args") and root in loc:
        return "the call's own argument containers"
    if kind != "global-rebind" and root in loc and root not in ("cls", "self", "fn", "ann", "node", "module", "obj", "spec"):
        return None  # a local that may alias shared state: not classifiable as confined -> reported
    return None


def build(repo=None):
    obligations, functions = [], []
    mods = {}

    def get(rel):
        if rel not in mods:
            mods[rel] = Module(rel, repo)
        return mods[rel]

    def ob(clause, ok, serves, **meta):
        obligations.append({"clause": clause, "kind": "vc", "pc": [], "goal": z3.BoolVal(bool(ok)), "path": [], "meta": {k: z3.StringVal(str(v)) for k, v in meta.items()}, "serves": serves})

    # ================================================================== C06: confinement of every write on the check paths
    path_fns = []
    from ..source import struct_dtype_helper
    for rel, q in CHECK_PATH:
        if q == "_dtype_is_numpy_struct_array":
            q = struct_dtype_helper(get(rel))  # by role: the helper may have been renamed
        m = get(rel)
        f = m.func(q)
        path_fns.append((rel, q, f))
        functions.append({"qualname": f"{rel[:-3].replace('/', '.')}.{q}", "sha256_16": m.sha(f), "lines": [f.lineno, f.end_lineno]})
    dm = get("jaxtyping/_decorator.py")
    jt = dm.func("jaxtyped")
    for nested in [n for n in ast.walk(jt) if isinstance(n, ast.FunctionDef) and n.name in ("wrapped_fn", "wrapped_fn_impl")]:
        path_fns.append(("jaxtyping/_decorator.py", f"jaxtyped/{nested.name}@{'new' if any('wrapped_fn_impl' in ast.unparse(c) or nested.name == 'wrapped_fn_impl' for c in [nested]) else 'old'}", nested))
    n_sites = 0
    for rel, q, f in path_fns:
        sites, loc, glob = write_sites(f)
        fresh = fresh_locals(f)
        for s in sites:
            n_sites += 1
            why = classify(s, loc, fresh, q)
            ob(f"C06:write-is-thread-confined[{rel.split('/')[-1]}:{q}:{s[1]}]", why is not None, ["C06"], why=why or "UNCONFINED: not a local, thread-local root, context-owned memo or fresh object", line=s[3])
        if glob:
            ob(f"C06:no-global-rebinding-on-a-check-path[{q}]", False, ["C06"], names=sorted(glob))
    ob("C06:write-sites-were-found-and-classified", n_sites >= 10, ["C06"], count=n_sites)
    # reads of process-global mutable state on check paths: the listed, documented ones only
    allowed_global_reads = {"_array_name_format", "config", "_any_dtype", "_anonymous_dim", "_anonymous_variadic_dim", "_not_made", "_union_types", "_tb_flag", "_sentinel", "_spacer"}
    for rel in ("jaxtyping/_array_types.py", "jaxtyping/_pytree_type.py", "jaxtyping/_storage.py"):
        m = get(rel)
        module_mutables = set()
        for n in m.tree.body:
            mutable_ctor = lambda v: isinstance(v, (ast.Dict, ast.List, ast.Set, ast.DictComp, ast.ListComp, ast.SetComp)) or (
                isinstance(v, ast.Call) and ast.unparse(v.func).split(".")[-1] in ("dict", "list", "set", "defaultdict", "OrderedDict", "WeakKeyDictionary", "WeakValueDictionary", "WeakSet", "deque", "Counter"))
            if isinstance(n, ast.Assign) and mutable_ctor(n.value):
                for t in n.targets:
                    if isinstance(t, ast.Name):
                        module_mutables.add(t.id)
            elif isinstance(n, ast.AnnAssign) and n.value is not None and mutable_ctor(n.value) and isinstance(n.target, ast.Name):
                module_mutables.add(n.target.id)
        # module-level mutable containers other than constant tables must not exist in the check modules
        tables = {"bools", "uints", "ints", "float8", "floats", "complexes", "_union_types"}
        ob(f"C06:no-module-level-mutable-container-in-{rel.split('/')[-1]}", module_mutables <= tables, ["C06", "C12", "C17"] + (["C08"] if rel.endswith("_pytree_type.py") else []) + (["C03", "C20"] if rel.endswith("_array_types.py") else []), found=sorted(module_mutables - tables))
    # the vendored checker that PyTree leaf checks run through: its module-level containers are the documented ones (two weak caches keyed by the function /
    # code object, two constant dispatch tables); anything else could carry a verdict from one check to the next
    tg = get("jaxtyping/_typeguard/__init__.py")
    tg_mut = set()
    for n in tg.tree.body:
        v = n.value if isinstance(n, (ast.Assign, ast.AnnAssign)) else None
        if v is not None and (isinstance(v, (ast.Dict, ast.List, ast.Set, ast.DictComp, ast.ListComp, ast.SetComp)) or (
                isinstance(v, ast.Call) and ast.unparse(v.func).split(".")[-1] in ("dict", "list", "set", "defaultdict", "OrderedDict", "WeakKeyDictionary", "WeakValueDictionary", "WeakSet", "deque", "Counter"))):
            for t in (n.targets if isinstance(n, ast.Assign) else [n.target]):
                if isinstance(t, ast.Name):
                    tg_mut.add(t.id)
    tg_tables = {"_type_hints_map", "_functions_map", "BINARY_MAGIC_METHODS", "origin_type_checkers"}
    ob("C12:no-undocumented-module-level-mutable-container-in-the-vendored-checker", tg_mut <= tg_tables, ["C12", "C08", "C06"], found=sorted(tg_mut - tg_tables))
    # class-level mutable state on the metaclasses
    am = get("jaxtyping/_array_types.py")
    meta_cls = am.cls("_MetaAbstractArray")
    cls_state = [ast.unparse(b.target if isinstance(b, ast.AnnAssign) else b.targets[0]) for b in meta_cls.body if isinstance(b, (ast.Assign, ast.AnnAssign))]
    ob("C06:annotation-metaclass-has-no-class-level-state-besides-the-skip-flag", cls_state == ["_skip_instancecheck"], ["C06", "C12"], found=cls_state)

    # ================================================================== C12: process-global writes = documented setters only
    inventory = []
    for rel in ("jaxtyping/_array_types.py", "jaxtyping/_pytree_type.py", "jaxtyping/_storage.py", "jaxtyping/_decorator.py", "jaxtyping/_config.py"):
        m = get(rel)
        for n in ast.walk(m.tree):
            if isinstance(n, ast.FunctionDef):
                sites, loc, glob = write_sites(n)
                fresh = fresh_locals(n)
                for s in sites:
                    if s[0] == "global-rebind" or (s[2] not in loc) or s[2] in ("cls", "self") and s[0] == "store":
                        if s[2] in THREAD_LOCAL_ROOTS:
                            continue
                        if n.name == "__init__" and s[2] == "self":
                            continue  # a constructor initialising its own fresh object
                        inventory.append((rel.split("/")[-1], n.name, s[1]))
    documented = {
        ("_array_types.py", "set_array_name_format", "_array_name_format"): "documented setter of the name format (affects class names only)",
        ("_array_types.py", "make_transparent", "cls._skip_instancecheck"): "old-style generator support: switches an annotation class off process-wide (C12 KNOWN FINDING when reached through decoration)",
        ("_array_types.py", "__init_subclass__", "cls.dtypes"): "normalises a freshly defined dtype category (class creation time)",
        ("_decorator.py", "jaxtyped", "_tb_flag"): "one-time registration of the JAX traceback exclusion",
        ("_decorator.py", "jaxtyped", "fn.__init__"): "dataclass decoration: wraps __init__ of the decorated class (decoration time, the decorated class only)",
        ("_config.py", "update", "self.jaxtyping_disable"): "documented switch setter",
        ("_config.py", "update", "self.jaxtyping_remove_typechecker_stack"): "documented switch setter",
    }
    # the one-time traceback registration may sit in jaxtyped itself or in a private module-level helper that jaxtyped calls: the flag is only ever switched OFF
    dmod = get("jaxtyping/_decorator.py")
    jt_fn = dmod.func("jaxtyped")
    jt_callees = {c.func.id for c in ast.walk(jt_fn) if isinstance(c, ast.Call) and isinstance(c.func, ast.Name)}
    top_fns = {b.name: b for b in dmod.tree.body if isinstance(b, ast.FunctionDef)}
    flag_writes_off = all(isinstance(a.value, ast.Constant) and a.value.value is False for f_ in ast.walk(dmod.tree) if isinstance(f_, ast.FunctionDef)
                          for a in ast.walk(f_) if isinstance(a, ast.Assign) and any(isinstance(t, ast.Name) and t.id == "_tb_flag" for t in a.targets))

    def is_documented(item):
        if item in documented:
            return item != ("_decorator.py", "jaxtyped", "_tb_flag") or flag_writes_off
        return item[0] == "_decorator.py" and item[2] == "_tb_flag" and item[1] in top_fns and item[1] in jt_callees and flag_writes_off

    for item in sorted(set(inventory)):
        ob(f"C12:process-global-write-is-a-documented-setter[{item[0]}:{item[1]}:{item[2]}]", is_documented(item), ["C12"] + (["C03", "C17", "C20"] if item[0] == "_array_types.py" else []), why=documented.get(item, "one-time registration of the JAX traceback exclusion (helper of jaxtyped)" if is_documented(item) else "UNDOCUMENTED process-global write"))
    found = set(inventory) | {("_decorator.py", "jaxtyped", "fn.__init__")}
    if any(i_[0] == "_decorator.py" and i_[2] == "_tb_flag" and is_documented(i_) for i_ in inventory):
        found.add(("_decorator.py", "jaxtyped", "_tb_flag"))
    ob("C12:inventory-found-the-known-setters", {k for k in documented} <= found, ["C12"], missing=sorted(set(documented) - found))
    # memoising decorators = process-global caches: only the documented ones (their keys determine their values)
    caches = []
    for rel in ("jaxtyping/_array_types.py", "jaxtyping/_pytree_type.py", "jaxtyping/_storage.py", "jaxtyping/_decorator.py", "jaxtyping/__init__.py"):
        m = get(rel)
        for n in ast.walk(m.tree):
            if isinstance(n, ast.FunctionDef):
                for d in n.decorator_list:
                    t = ast.unparse(d)
                    if "lru_cache" in t or t.endswith(".cache") or t == "cache" or "cached_property" in t:
                        caches.append((rel.split("/")[-1], n.name))
    known_caches = {("_array_types.py", "_make_array_cached"), ("_pytree_type.py", "__getitem__"), ("__init__.py", "__getattr__")}
    for c in sorted(set(caches)):
        ob(f"C12:memoised-function-is-a-documented-pure-constructor-cache[{c[0]}:{c[1]}]", c in known_caches, ["C12", "C03", "C06", "C08"], why="annotation construction is a pure function of its (hashable) arguments" if c in known_caches else "UNDOCUMENTED cache: a verdict could depend on what was checked earlier in the process")
    # who calls make_transparent: only the old-style generator branch of jaxtyped (the known finding site)
    callers = []
    for rel in ("jaxtyping/_array_types.py", "jaxtyping/_pytree_type.py", "jaxtyping/_storage.py", "jaxtyping/_decorator.py", "jaxtyping/_import_hook.py"):
        m = get(rel)
        for n in ast.walk(m.tree):
            if isinstance(n, ast.FunctionDef):
                for c in ast.walk(n):
                    if isinstance(c, ast.Call) and isinstance(c.func, ast.Attribute) and c.func.attr == "make_transparent":
                        callers.append((rel.split("/")[-1], n.name))
    ob("C12:decoration-writes-nothing-a-check-reads(make_transparent-call-site)", not callers, ["C12"], callers=sorted(set(callers)))

    # ================================================================== C17: read-frame of the checked object
    META_ATTRS = {"shape", "dtype", "ndim", "size", "nbytes", "itemsize", "aval", "weak_type", "sharding", "device", "devices", "__class__"}
    SAFE_CALLEES = {"isinstance", "hasattr", "type", "len"}  # len(array) is static (shape[0]); id()/hash() are NOT: tracing gives every leaf its own tracer object

    def analyse(fn, tainted_params, label, modrel, depth=0):
        """array-valued taint: names bound to the checked object (or data derived from it other than static metadata)."""
        taint = set(tainted_params)
        changed = True
        viol = []

        def is_tainted(e):
            if isinstance(e, ast.Name):
                return e.id in taint
            if isinstance(e, ast.Attribute):
                if is_tainted(e.value):
                    return e.attr not in META_ATTRS  # obj.T, obj.real ...: still array-valued
                return False
            if isinstance(e, ast.Subscript):
                return is_tainted(e.value)
            if isinstance(e, ast.Starred):
                return is_tainted(e.value)
            return False

        while changed:
            changed = False
            for n in ast.walk(fn):
                if isinstance(n, ast.Assign) and is_tainted(n.value):
                    for t in n.targets:
                        for x in ast.walk(t):
                            if isinstance(x, ast.Name) and x.id not in taint:
                                taint.add(x.id)
                                changed = True
        for n in ast.walk(fn):
            if isinstance(n, (ast.If, ast.While, ast.IfExp, ast.Assert)) and is_tainted(n.test):
                viol.append(("truth-test", ast.unparse(n.test), n.lineno))
            elif isinstance(n, ast.BoolOp):
                for v in n.values:
                    if is_tainted(v):
                        viol.append(("truth-test", ast.unparse(v), n.lineno))
            elif isinstance(n, ast.UnaryOp) and isinstance(n.op, ast.Not) and is_tainted(n.operand):
                viol.append(("truth-test", ast.unparse(n), n.lineno))
            elif isinstance(n, ast.Compare):
                for v in [n.left] + n.comparators:
                    if is_tainted(v) and not all(isinstance(o, (ast.Is, ast.IsNot)) for o in n.ops):
                        viol.append(("comparison", ast.unparse(n), n.lineno))
            elif isinstance(n, (ast.For, ast.comprehension)) and is_tainted(n.iter):
                viol.append(("iteration", ast.unparse(n.iter), getattr(n, "lineno", 0)))
            elif isinstance(n, ast.Subscript) and is_tainted(n.value) and isinstance(n.ctx, ast.Load):
                viol.append(("index", ast.unparse(n), n.lineno))
            elif isinstance(n, (ast.BinOp,)) and (is_tainted(n.left) or is_tainted(n.right)):
                viol.append(("arithmetic", ast.unparse(n), n.lineno))
            elif isinstance(n, ast.FormattedValue) and is_tainted(n.value):
                pass  # formatting a tracer does not force it (message text only)
            elif isinstance(n, ast.Call):
                fname = n.func.id if isinstance(n.func, ast.Name) else (n.func.attr if isinstance(n.func, ast.Attribute) else "?")
                if isinstance(n.func, ast.Attribute) and is_tainted(n.func.value):
                    viol.append(("method-call-on-array", ast.unparse(n.func), n.lineno))
                for i, a in enumerate(list(n.args) + [k.value for k in n.keywords]):
                    if not is_tainted(a):
                        continue
                    if fname in SAFE_CALLEES:
                        continue
                    callee = REPO_FUNCS.get(fname)
                    if callee is not None and depth < 4:
                        cf, crel = callee
                        params = [p.arg for p in cf.args.args]
                        off = 1 if params and params[0] in ("cls", "self") and isinstance(n.func, ast.Attribute) else 0
                        if i + off < len(params):
                            viol.extend(analyse(cf, {params[i + off]}, f"{label}->{fname}", crel, depth + 1))
                            continue
                    viol.append(("passed-to-unknown-callee", ast.unparse(n)[:80], n.lineno))
        return [(label, *v) for v in viol]

    REPO_FUNCS = {}
    # every function of the module (top level and methods of the annotation metaclass) is analysed recursively when the object flows into it
    for n in am.tree.body:
        if isinstance(n, ast.FunctionDef):
            REPO_FUNCS[n.name] = (n, "jaxtyping/_array_types.py")
    for n in am.cls("_MetaAbstractArray").body:
        if isinstance(n, ast.FunctionDef):
            REPO_FUNCS[n.name] = (n, "jaxtyping/_array_types.py")
    entry = am.func("_MetaAbstractArray.__instancecheck_str__")
    viol = analyse(entry, {"obj"}, "__instancecheck_str__", "jaxtyping/_array_types.py")
    ob("C17:checked-array-flows-only-into-type/metadata-reads(no-truth-test,comparison,iteration,index,conversion,unknown-callee)", not viol, ["C17"], violations=viol[:6])
    # the metadata that IS read: obj.shape -> len / slices / integer comparisons; obj.dtype -> name extraction
    reads = sorted({n.attr for n in ast.walk(entry) if isinstance(n, ast.Attribute) and isinstance(n.value, ast.Name) and n.value.id == "obj"} |
                   {n.attr for n in ast.walk(am.func("_MetaAbstractArray._check_shape")) if isinstance(n, ast.Attribute) and isinstance(n.value, ast.Name) and n.value.id == "obj"})
    ob("C17:only-static-metadata-attributes-are-read-from-the-checked-object", set(reads) <= META_ATTRS, ["C17"], reads=reads)
    # symbolic axes: call arguments are visible only to the {...} f-string stage; the arithmetic stage sees bound axis sizes only
    cd = am.func("_check_dims")
    cd_params = [a.arg for a in cd.args.args]
    memo_p, arg_p = (cd_params[2], cd_params[3]) if len(cd_params) == 4 else ("single_memo", "arg_memo")
    mod_funcs = {n.name: n for n in am.tree.body if isinstance(n, ast.FunctionDef)}

    def eval_sites(fn, roles, depth=0):
        """eval(...) calls in fn and in the module-level helpers it hands its memos to; roles: local name -> 'memo' | 'args' (followed through parameters)"""
        local_defs = {}
        for n in ast.walk(fn):
            if isinstance(n, ast.Assign) and len(n.targets) == 1 and isinstance(n.targets[0], ast.Name):
                local_defs.setdefault(n.targets[0].id, []).append(n.value)

        def scope_roles(e, d=0):
            out = set()
            for x in ast.walk(e):
                if isinstance(x, ast.Name):
                    if x.id in roles:
                        out.add(roles[x.id])
                    elif x.id in local_defs and d < 3:
                        for v in local_defs[x.id]:
                            out |= scope_roles(v, d + 1)
            return out

        sites = []
        for c in ast.walk(fn):
            if not isinstance(c, ast.Call):
                continue
            if getattr(c.func, "id", "") == "eval" and len(c.args) >= 2:
                sites.append((isinstance(c.args[0], ast.JoinedStr), scope_roles(c.args[1]), ast.unparse(c)))
            elif isinstance(c.func, ast.Name) and c.func.id in mod_funcs and c.func.id != fn.name and depth < 3:
                g = mod_funcs[c.func.id]
                gp = [a.arg for a in g.args.args]
                sub = {}
                for i_, a_ in enumerate(c.args):
                    if i_ < len(gp):
                        r_ = scope_roles(a_)
                        if len(r_) == 1:
                            sub[gp[i_]] = next(iter(r_))
                        elif len(r_) > 1:
                            sub[gp[i_]] = "both"
                for k_ in c.keywords:
                    if k_.arg in gp:
                        r_ = scope_roles(k_.value)
                        if r_:
                            sub[k_.arg] = next(iter(r_)) if len(r_) == 1 else "both"
                if sub:
                    sites += eval_sites(g, sub, depth + 1)
        return sites

    evals = eval_sites(cd, {memo_p: "memo", arg_p: "args"})
    bad_scopes = []
    for fstage, rs, src in evals:
        if fstage and ("memo" in rs or "both" in rs):
            bad_scopes.append(("f-string stage sees the axis memo", src))
        if not fstage and ("args" in rs or "both" in rs):
            bad_scopes.append(("arithmetic stage sees the call arguments", src))
    ob("C17:symbolic-axis-arithmetic-is-evaluated-over-bound-sizes-only(arguments-enter-through-{...}-only)", len(evals) == 2 and not bad_scopes, ["C17", "C01"], evals=len(evals), bad=bad_scopes)
    # in the wrappers the argument objects go only to bind, the checker-wrapped functions, fn, the argument memo and (error paths) the formatter
    for nested in [n for n in ast.walk(jt) if isinstance(n, ast.FunctionDef) and n.name in ("wrapped_fn", "wrapped_fn_impl")]:
        bad = []
        for c in ast.walk(nested):
            if isinstance(c, ast.Call):
                uses_args = any(isinstance(a, ast.Starred) and getattr(a.value, "id", None) == "args" for a in c.args) or any(k.arg is None and getattr(k.value, "id", None) == "kwargs" for k in c.keywords)
                plain = any(getattr(a, "id", None) in ("args", "kwargs") for a in c.args)
                callee = ast.unparse(c.func)
                if (uses_args or plain) and callee not in ("fn", "param_fn", "full_fn", "signature.bind", "param_signature.bind", "wrapped_fn_impl", "_get_problem_arg"):
                    bad.append(callee)
        ob(f"C17:call-arguments-flow-only-to-bind/checkers/fn/error-localisation[{nested.name}@{nested.lineno}]", not bad, ["C17", "C07"], callees=bad)
    # PyTree checks: the tree goes only to tree_flatten (structure is static under tracing) and each leaf only to the leaf-type check;
    # object identity, hashing, truth value or comparison of a tree or leaf is never consulted (one array used twice becomes two tracers)
    pm = get("jaxtyping/_pytree_type.py")
    flow_viol = []
    ALLOWED = {"tree": {"_check", "tree_flatten"}, "list": {"enumerate", "len"}, "leaf": {"is_check_leaftype", "is_flatten_leaftype", "is_leaftype", "accepts_leaftype"}}
    pt_helpers = {b_.name: b_ for b_ in pm.cls("_MetaPyTree").body if isinstance(b_, ast.FunctionDef)}
    pt_helpers.update({b_.name: b_ for b_ in pm.tree.body if isinstance(b_, ast.FunctionDef)})

    def returns_leaf_list(h):
        """a helper that flattens its argument and hands the leaf list back: `x[, s] = <...>.tree_flatten/tree_leaves(..)` and every return is `x` / `(x, ...)`, or a direct `return <...>.tree_flatten(..)`"""
        own = [n for n in ast.walk(h)]
        names = set()
        for n in own:
            if isinstance(n, ast.Assign) and isinstance(n.value, ast.Call) and getattr(n.value.func, "attr", getattr(n.value.func, "id", "")) in ("tree_flatten", "tree_leaves"):
                t = n.targets[0]
                first = t.elts[0] if isinstance(t, ast.Tuple) else t
                if isinstance(first, ast.Name):
                    names.add(first.id)
        rets = [r_ for r_ in own if isinstance(r_, ast.Return)]
        if not rets:
            return False
        for r_ in rets:
            v = r_.value
            if isinstance(v, ast.Call) and getattr(v.func, "attr", "") in ("tree_flatten", "tree_leaves"):
                continue
            first = v.elts[0] if isinstance(v, ast.Tuple) and v.elts else v
            if not (isinstance(first, ast.Name) and first.id in names):
                return False
        return True

    def flow(f, q, roles, depth=0):
        """roles: parameter name -> 'tree' | 'list' | 'leaf' | 'leafcheck' (a callable that receives leaves). Every use of a tree / leaf list / leaf must be one of the allowed ones."""
        nested_fns = [n for n in ast.walk(f) if isinstance(n, ast.FunctionDef) and n is not f]
        inner = {id(x) for nf in nested_fns for x in ast.walk(nf)} | {id(x) for lam in ast.walk(f) if isinstance(lam, ast.Lambda) for x in ast.walk(lam)}
        leafcheck_names = set(ALLOWED["leaf"]) | {k_ for k_, v_ in roles.items() if v_ == "leafcheck"}

        def own_nodes(scope_fn):
            if scope_fn is f:
                return [n for n in ast.walk(f) if id(n) not in inner]
            return [n for n in ast.walk(scope_fn) if not any(id(n) in {id(x) for x in ast.walk(o)} for o in nested_fns if o is not scope_fn and o in list(ast.walk(scope_fn)))]

        scopes = [(f, {k_ for k_, v_ in roles.items() if v_ == "tree"}, {k_ for k_, v_ in roles.items() if v_ == "list"}, {k_ for k_, v_ in roles.items() if v_ == "leaf"})]
        scopes += [(nf, set(), set(), {a.arg for a in nf.args.args}) for nf in nested_fns if nf.name in leafcheck_names]
        for scope_fn, tree_names, list_names, leaf_names in scopes:
            nodes = own_nodes(scope_fn)
            for n in nodes:
                if isinstance(n, ast.Assign) and isinstance(n.value, ast.Call) and n.value.args and isinstance(n.value.args[0], ast.Name) and n.value.args[0].id in tree_names:
                    callee = getattr(n.value.func, "attr", getattr(n.value.func, "id", ""))
                    flat_like = callee in ("tree_flatten", "tree_leaves") or (callee in pt_helpers and callee not in ALLOWED["tree"] and returns_leaf_list(pt_helpers[callee]))
                    if flat_like:
                        t = n.targets[0]
                        first = t.elts[0] if isinstance(t, ast.Tuple) else t
                        if isinstance(first, ast.Name):
                            list_names.add(first.id)
            for n in nodes:
                if isinstance(n, (ast.For, ast.comprehension)):
                    it = n.iter
                    src = it.args[0] if isinstance(it, ast.Call) and getattr(it.func, "id", "") == "enumerate" and it.args else it
                    if isinstance(src, ast.Name) and src.id in list_names:
                        tgt = n.target.elts[-1] if isinstance(n.target, ast.Tuple) else n.target
                        if isinstance(tgt, ast.Name):
                            leaf_names.add(tgt.id)
            accounted = set()
            assigned_calls = {id(a_.value) for a_ in nodes if isinstance(a_, ast.Assign) and len(a_.targets) == 1 and isinstance(a_.targets[0], (ast.Name, ast.Tuple))}
            for n in nodes:
                if isinstance(n, ast.Call):
                    callee = n.func.id if isinstance(n.func, ast.Name) else n.func.attr if isinstance(n.func, ast.Attribute) else "?"
                    if callee in pt_helpers and callee not in ALLOWED["tree"] and pt_helpers[callee] is not f and returns_leaf_list(pt_helpers[callee]) and id(n) not in assigned_calls:
                        flow_viol.append(f"{q}:{n.lineno}:result-of-{callee}")
                    tainted_args = [(i_, a_) for i_, a_ in enumerate(n.args) if isinstance(a_, ast.Name) and a_.id in (tree_names | list_names | leaf_names)]
                    helper = pt_helpers.get(callee) if (isinstance(n.func, ast.Name) or (isinstance(n.func, ast.Attribute) and isinstance(n.func.value, ast.Name) and n.func.value.id in ("cls", "self"))) else None
                    if tainted_args and helper is not None and helper is not f and callee not in ALLOWED["tree"] and depth < 3:
                        # a private helper of this file: analysed with the roles its parameters receive
                        hp = [a.arg for a in helper.args.args]
                        off = 1 if hp and hp[0] in ("cls", "self") and isinstance(n.func, ast.Attribute) else 0
                        sub = {}
                        for i_, a_ in enumerate(n.args):
                            if i_ + off < len(hp) and isinstance(a_, ast.Name):
                                if a_.id in tree_names:
                                    sub[hp[i_ + off]] = "tree"
                                elif a_.id in list_names:
                                    sub[hp[i_ + off]] = "list"
                                elif a_.id in leaf_names:
                                    sub[hp[i_ + off]] = "leaf"
                                elif a_.id in leafcheck_names:
                                    sub[hp[i_ + off]] = "leafcheck"
                        for k_ in n.keywords:
                            if isinstance(k_.value, ast.Name) and k_.value.id in leafcheck_names and k_.arg in hp:
                                sub[k_.arg] = "leafcheck"
                        flow(helper, f"{q}->{callee}", sub, depth + 1)
                        accounted |= {id(a_) for _, a_ in tainted_args}
                        continue
                    for a in n.args:
                        if isinstance(a, ast.Name):
                            kind = "tree" if a.id in tree_names else "list" if a.id in list_names else "leaf" if a.id in leaf_names else None
                            if kind and (callee in ALLOWED[kind] or (kind == "leaf" and callee in leafcheck_names)):
                                accounted.add(id(a))
                elif isinstance(n, ast.Compare) and isinstance(n.left, ast.Name) and n.left.id in tree_names and len(n.ops) == 1 and isinstance(n.ops[0], (ast.Is, ast.IsNot)) \
                        and isinstance(n.comparators[0], ast.Constant) and n.comparators[0].value is None:
                    accounted.add(id(n.left))
                elif isinstance(n, (ast.For, ast.comprehension)) and isinstance(n.iter, ast.Name) and n.iter.id in list_names:
                    accounted.add(id(n.iter))
                elif isinstance(n, ast.Return) and scope_fn is f and depth > 0 and returns_leaf_list(f):
                    # a flattening helper hands the leaf list back to its caller, where it is a leaf list again (the caller must bind it by a plain assignment: checked there)
                    first = n.value.elts[0] if isinstance(n.value, ast.Tuple) and n.value.elts else n.value
                    if isinstance(first, ast.Name) and first.id in list_names:
                        accounted.add(id(first))
            for n in nodes:
                if isinstance(n, ast.Name) and isinstance(n.ctx, ast.Load) and n.id in (tree_names | list_names | leaf_names) and id(n) not in accounted:
                    flow_viol.append(f"{q}:{n.lineno}:{n.id}")

    for q in ("_MetaPyTree.__instancecheck__", "_MetaPyTree._check"):
        flow(pm.func(q), q, {"obj": "tree"})
    ob("C17:pytree:the-tree-goes-only-to-tree_flatten-and-each-leaf-only-to-the-leaf-type-check(no-identity,hash,truth,comparison)", not flow_viol, ["C17", "C08"], uses=flow_viol[:8])
    ob("canary-struct:frames-analysed-functions", len(path_fns) >= 20, ["C06", "C12", "C17"], count=len(path_fns))
    return {"unit": NAME, "functions": functions, "obligations": obligations, "paths": 0, "stats": {"write_sites": n_sites, "functions": len(path_fns)},
            "assumptions": [
                "threading.local gives every thread its own attribute namespace; confinement of all writes (and of all reads of mutable state) implies schedule-independence of each thread's projection (standard non-interference argument; not machine-checked)",
                "these obligations are decided by a conservative syntactic flow analysis over the current source (over-approximation: unclassifiable writes / uses are reported), not by the solver",
                "JAX tracers report their abstract shape/dtype as static metadata and are instances of jax.Array (T5; bounded stand-in b17)",
                "process-global state that the property's workloads do not write: config switches, lru_caches, _array_name_format",
            ]}
