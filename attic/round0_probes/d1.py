import warnings, itertools, numpy as np, sys, random
warnings.simplefilter("ignore")
from jaxtyping import Float, jaxtyped
from jaxtyping._storage import get_shape_memo

# ---- spec twin written from the C01 statement (not from the code) -------------------------
def parse_tok(t):
    if t == "...": return ("var", None, False)
    bc = "#" in t; var = "*" in t; anon = "_" in t[:t.count("#")+t.count("*")+1] and t.lstrip("#*").startswith("_")
    base = t.lstrip("#*_")
    if anon: return ("var", None, False) if var else ("anon",)
    if var: return ("var", base, bc)
    if base.lstrip("-").isdigit(): return ("fixed", int(base), bc)
    if base.isidentifier(): return ("named", base, bc)
    return ("sym", base, bc)
def leq(s, T):  # s broadcasts to T
    if len(s) > len(T): return False
    s = (1,)*(len(T)-len(s)) + tuple(s)
    return all(a == b or a == 1 for a, b in zip(s, T))
def lub(a, b):
    n = max(len(a), len(b)); a = (1,)*(n-len(a)) + tuple(a); b = (1,)*(n-len(b)) + tuple(b)
    out = []
    for x, y in zip(a, b):
        if x == y or y == 1: out.append(x)
        elif x == 1: out.append(y)
        else: return None
    return tuple(out)
def axis_step(d, s, sig):
    if d[0] == "anon": return True
    bc = d[2]
    if bc and s == 1: return True
    if d[0] == "fixed": return d[1] == s
    if d[0] == "named":
        if d[1] in sig: return sig[d[1]] == s
        sig[d[1]] = s; return True
    if d[0] == "sym":
        try: v = eval(d[1], dict(sig))
        except NameError: raise LookupError
        return v == s
def shape_match(dims, shape, sig, nu):
    sig, nu = dict(sig), dict(nu)
    vi = [i for i, d in enumerate(dims) if d[0] == "var"]
    if not vi:
        if len(shape) != len(dims): return False, None
        for d, s in zip(dims, shape):
            if not axis_step(d, s, sig): return False, None
        return True, (sig, nu)
    i = vi[0]; n = len(dims)
    if len(shape) < n - 1: return False, None
    P, M, S = shape[:i], shape[i:len(shape)-(n-i-1)], shape[len(shape)-(n-i-1):]
    for d, s in zip(dims[:i], P):
        if not axis_step(d, s, sig): return False, None
    for d, s in zip(dims[i+1:], S):
        if not axis_step(d, s, sig): return False, None
    _, name, b = dims[i]
    if name is None: return True, (sig, nu)
    if name not in nu: nu[name] = (b, tuple(M)); return True, (sig, nu)
    pb, Pv = nu[name]; M = tuple(M)
    if pb and b:
        l = lub(M, Pv)
        if l is None: return False, None
        nu[name] = (True, l)
    elif pb and not b:
        if not leq(Pv, M): return False, None
        nu[name] = (False, M)
    elif b:
        if not leq(M, Pv): return False, None
    else:
        if M != Pv: return False, None
    return True, (sig, nu)

# ---- declarative satisfiability (C02) by brute force over a small domain ------------------
SIZES = (0, 1, 2, 3)
def sat(checks):  # checks: list of (dims, shape); exists alpha for names and var-names
    names = sorted({d[1] for dims, _ in checks for d in dims if d[0] == "named"})
    vnames = sorted({d[1] for dims, _ in checks for d in dims if d[0] == "var" and d[1] is not None})
    cand_shapes = {()}
    for dims, shape in checks:
        for r in range(len(shape)+1):
            for a in range(len(shape)-r+1): cand_shapes.add(tuple(shape[a:a+r]))
    # close candidate variadic shapes under lub
    cs = set(cand_shapes)
    for a in list(cs):
        for b in list(cs):
            l = lub(a, b)
            if l is not None: cand_shapes.add(l)
    for alpha in itertools.product(SIZES, repeat=len(names)):
        al = dict(zip(names, alpha))
        for valpha in itertools.product(sorted(cand_shapes), repeat=len(vnames)):
            va = dict(zip(vnames, valpha))
            ok = True
            for dims, shape in checks:
                vi = [i for i, d in enumerate(dims) if d[0] == "var"]
                if not vi:
                    if len(shape) != len(dims): ok = False; break
                    pairs = list(zip(dims, shape)); M = None
                else:
                    i = vi[0]; n = len(dims)
                    if len(shape) < n-1: ok = False; break
                    k = len(shape)-(n-i-1)
                    pairs = list(zip(dims[:i], shape[:i])) + list(zip(dims[i+1:], shape[k:])); M = tuple(shape[i:k])
                    _, vn, b = dims[i]
                    if vn is not None and not (leq(M, va[vn]) if b else M == va[vn]): ok = False; break
                for d, s in pairs:
                    if d[0] == "anon": continue
                    if d[2] and s == 1: continue
                    if d[0] == "fixed" and d[1] != s: ok = False; break
                    if d[0] == "named" and al[d[1]] != s: ok = False; break
                if not ok: break
            if ok: return True
    return False

TOKS = ["a", "b", "#a", "#b", "2", "#2", "_", "*v", "*#v", "#*v", "...", "a+1", "#a+1"]
def dimstrs(maxlen):
    for n in range(maxlen+1):
        for ts in itertools.product(TOKS, repeat=n):
            if sum(t in ("*v","*#v","#*v","...") for t in ts) <= 1: yield ts
def shapes(maxrank):
    for r in range(maxrank+1):
        yield from itertools.product(SIZES, repeat=r)

random.seed(int(sys.argv[1]) if len(sys.argv) > 1 else 0)
DS = list(dimstrs(2)); SH = list(shapes(3))
ann = {ts: Float[np.ndarray, " ".join(ts)] for ts in DS}
arr = {s: np.zeros(s) for s in SH}
n = dis = disat = 0
samples = []
# C01: single check under every prior context produced by one accepted check; C02: pairs of checks
pairs = [(d1, s1, d2, s2) for d1 in DS for s1 in SH for d2 in DS for s2 in SH]
random.shuffle(pairs)
for d1, s1, d2, s2 in pairs[:60000]:
    p1 = [parse_tok(t) for t in d1]; p2 = [parse_tok(t) for t in d2]
    with jaxtyped("context"):
        res_real = []
        for d, s in ((d1, s1), (d2, s2)):
            try: res_real.append(isinstance(arr[s], ann[d]))
            except Exception as e: res_real.append(type(e).__name__)
        sm, vm, _, _ = get_shape_memo(); real_memo = (dict(sm), {k: v for k, v in vm.items()})
    sig, nu = {}, {}; res_spec = []
    for p, s in ((p1, s1), (p2, s2)):
        try:
            ok, st = shape_match(p, s, sig, nu)
            if ok: sig, nu = st
            res_spec.append(ok)
        except LookupError: res_spec.append("AnnotationError")
    n += 1
    if res_real != res_spec or (all(r is True for r in res_real) and real_memo != (sig, nu)):
        dis += 1
        if len(samples) < 8: samples.append(("C01", d1, s1, d2, s2, res_real, res_spec, real_memo, (sig, nu)))
    # C02: both accepted  <=>  satisfiable (no symbolic tokens)
    if not any(t.endswith("+1") for t in d1 + d2):
        if (res_real == [True, True]) != sat([(p1, s1), (p2, s2)]):
            disat += 1
            if len(samples) < 8: samples.append(("C02", d1, s1, d2, s2, res_real))
print("cases", n, "C01 disagreements", dis, "C02 disagreements", disat)
for s in samples: print(s)
