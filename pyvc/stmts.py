"""Statement execution: every statement yields outcomes normal|return|break|continue|raise."""
from __future__ import annotations

import ast

import z3

from .engine import Raised, is_raised, mkbool, mkint, mkstr
from .values import (
    U,
    STR,
    NONE,
    NORMAL,
    Cls,
    DictObj,
    Exc,
    Fn,
    ListObj,
    NoneV,
    Obj,
    Opaque,
    Outcome,
    Ref,
    Tup,
    Unsupported,
    Z,
    exc_isinstance,
)


def run(eng, stmts, st):
    """-> [(state, Outcome)]"""
    work = [(st, 0)]
    res = []
    # iterative over statement index to avoid deep recursion on long bodies
    while work:
        s0, i = work.pop()
        if i >= len(stmts):
            res.append((s0, NORMAL))
            continue
        for s1, o in exec_stmt(eng, stmts[i], s0):
            if o.kind == "normal":
                work.append((s1, i + 1))
            else:
                res.append((s1, o))
    return res


def exec_stmt(eng, s, st):
    m = globals().get("st_" + type(s).__name__)
    if m is None:
        raise Unsupported(f"statement {type(s).__name__}: {ast.unparse(s)[:80]}")
    return m(eng, s, st)


def _raise(v):
    return Outcome("raise", v.exc)


def st_Pass(eng, s, st):
    return [(st, NORMAL)]


def st_Expr(eng, s, st):
    if isinstance(s.value, ast.Constant):
        return [(st, NORMAL)]
    return [(s1, _raise(v) if is_raised(v) else NORMAL) for s1, v in eng.ev(s.value, st)]


def st_Assert(eng, s, st):
    outs = []
    for s1, v in eng.ev(s.test, st):
        if is_raised(v):
            outs.append((s1, _raise(v)))
            continue
        c = eng.truth(s1, v)
        eng.oblige(s1, f"assert:{eng.assert_label(s)}", c, lineno=s.lineno, text=z3.StringVal(ast.unparse(s.test)[:80]))
        # semantics: a failing assert raises AssertionError; after the obligation we continue on the true branch
        for s2, b in eng.branch(s1, c):
            if b:
                outs.append((s2, NORMAL))
            else:
                outs.append((s2, Outcome("raise", Exc("AssertionError", origin="assert"))))
    return outs


def assign_target(eng, st, tgt, v):
    """-> [(state, Outcome)]"""
    if isinstance(tgt, ast.Name):
        s1 = st.clone()
        s1.env[tgt.id] = v
        return [(s1, NORMAL)]
    if isinstance(tgt, (ast.Tuple, ast.List)):
        return unpack(eng, st, tgt.elts, v)
    if isinstance(tgt, ast.Subscript):
        outs = []
        if isinstance(tgt.slice, ast.Slice):
            # x[a:b] = ... : an in-place mutation of x (only lists support it); units that state an immutability invariant for x get an obligation
            h = eng.method_models.get("__slice_store__")
            if h is None:
                raise Unsupported("slice assignment")
            for s1, cont in eng.ev(tgt.value, st):
                outs.extend([(s1, _raise(cont))] if is_raised(cont) else h(eng, s1, cont, v, tgt))
            return outs
        for s1, vals in eng.ev_all([tgt.value, tgt.slice], st):
            if is_raised(vals):
                outs.append((s1, _raise(vals)))
                continue
            outs.extend(store_subscript(eng, s1, vals[0], vals[1], v, tgt))
        return outs
    if isinstance(tgt, ast.Attribute):
        outs = []
        for s1, recv in eng.ev(tgt.value, st):
            if is_raised(recv):
                outs.append((s1, _raise(recv)))
                continue
            outs.extend(store_attr(eng, s1, recv, tgt.attr, v, tgt))
        return outs
    raise Unsupported(f"assignment target {ast.unparse(tgt)}")


def store_attr(eng, st, recv, attr, v, node):
    m = eng.method_models.get("__setattr__")
    if m:
        r = m(eng, st, recv, attr, v, node)
        if r is not None:
            return r
    if isinstance(recv, Ref):
        o = st.get(recv)
        if isinstance(o, Obj):
            s1 = st.clone()
            attrs = dict(o.attrs)
            attrs[attr] = v
            s1.put(recv, o.with_(attrs=attrs, absent=o.absent - {attr}))
            return [(s1, NORMAL)]
    raise Unsupported(f"store to attribute .{attr} of {recv}")


def store_subscript(eng, st, cont, key, v, node):
    if isinstance(cont, Ref):
        o = st.get(cont)
        if isinstance(o, DictObj):
            if not isinstance(key, Z) and isinstance(key, Opaque) and o.ksort == STR:
                key = Z("str", z3.FreshConst(STR, "some_key"))  # a key the engine cannot compute (e.g. a computed substring): SOME string
            if not isinstance(key, Z):
                raise Unsupported(f"dict store key {key}")
            s1 = st.clone()
            packed = eng.pack_val(s1, o.vsort, v)
            s1.put(cont, o.with_(z3.Store(o.m, key.t, packed), z3.Store(o.d, key.t, z3.BoolVal(True))))
            hook = eng.method_models.get("__on_dict_store__")
            if hook:
                hook(eng, s1, cont, key, v)
            return [(s1, NORMAL)]
        if isinstance(o, ListObj):
            if isinstance(key, Z) and key.kind == "int" and z3.is_int_value(z3.simplify(key.t)):
                i = z3.simplify(key.t).as_long()
                if i >= 0 and o.lower is not None:
                    # a non-negative index counts from the BOTTOM: with a non-empty (symbolic) lower part it lands there, not in the explicit items on top
                    outs = []
                    below = st.fork(o.lower[1], "list-store:into-lower-part")
                    if eng.feasible(below.pc):
                        below.put(cont, o.with_(lower=(o.lower[0] + "*written", o.lower[1], z3.FreshConst(U, "lower_after_store"))))
                        outs.append((below, NORMAL))
                    top = st.fork(z3.Not(o.lower[1]), "list-store:lower-part-empty")
                    if eng.feasible(top.pc):
                        if i < len(o.items):
                            items = list(o.items)
                            items[i] = v
                            top.put(cont, o.with_(items=items))
                            outs.append((top, NORMAL))
                        else:
                            outs.append((top, Outcome("raise", Exc("IndexError", origin="list store"))))
                    return outs
                if -len(o.items) <= i < len(o.items):
                    s1 = st.clone()
                    items = list(o.items)
                    items[i] = v
                    s1.put(cont, o.with_(items=items))
                    return [(s1, NORMAL)]
                if o.lower is not None and i < 0:
                    mat = eng.method_models.get("__materialise__")
                    if mat:
                        outs = []
                        for s2, r in mat(eng, st, cont, o, i):
                            if is_raised(r):
                                outs.append((s2, _raise(r)))
                            else:
                                outs.extend(store_subscript(eng, s2, cont, key, v, node))
                        return outs
                return [(st, Outcome("raise", Exc("IndexError", origin="list store")))]
        if isinstance(o, Obj) and o.cls == "dictlit":
            return [(st, NORMAL)]
    m = eng.method_models.get("__setitem__")
    if m:
        r = m(eng, st, cont, key, v, node)
        if r is not None:
            return r
    if isinstance(cont, Opaque):
        # store into an unknown local container (e.g. kwargs[name] = out): logged, no modelled effect
        s1 = st.clone()
        s1.log.append(("setitem:" + cont.tag, (key, v), {}))
        return [(s1, NORMAL)]
    raise Unsupported(f"subscript store into {cont}")


def unpack(eng, st, elts, v):
    star = [i for i, e in enumerate(elts) if isinstance(e, ast.Starred)]
    if isinstance(v, Tup):
        items = v.items
        if star:
            i = star[0]
            after = len(elts) - i - 1
            if len(items) < len(elts) - 1:
                return [(st, Outcome("raise", Exc("ValueError", origin="unpack")))]
            parts = items[:i] + [Tup(items[i : len(items) - after], True)] + items[len(items) - after :]
            targets = [e.value if isinstance(e, ast.Starred) else e for e in elts]
        else:
            if len(items) != len(elts):
                return [(st, Outcome("raise", Exc("ValueError", origin="unpack")))]
            parts, targets = items, elts
        outs = [(st, NORMAL)]
        for t, x in zip(targets, parts):
            nxt = []
            for s1, o in outs:
                if o.kind != "normal":
                    nxt.append((s1, o))
                else:
                    nxt.extend(assign_target(eng, s1, t, x))
            outs = nxt
        return outs
    m = eng.method_models.get("__unpack__")
    if m:
        r = m(eng, st, elts, v)
        if r is not None:
            return r
    if isinstance(v, Opaque):
        outs = [(st, NORMAL)]
        for i, t in enumerate(elts):
            t = t.value if isinstance(t, ast.Starred) else t
            nxt = []
            for s1, o in outs:
                nxt.extend(assign_target(eng, s1, t, Opaque(f"{v.tag}[{i}]"))) if o.kind == "normal" else nxt.append((s1, o))
            outs = nxt
        return outs
    raise Unsupported(f"unpack {v}")


def st_Assign(eng, s, st):
    outs = []
    for s1, v in eng.ev(s.value, st):
        if is_raised(v):
            outs.append((s1, _raise(v)))
            continue
        cur = [(s1, NORMAL)]
        for tgt in s.targets:
            nxt = []
            for s2, o in cur:
                if o.kind != "normal":
                    nxt.append((s2, o))
                else:
                    nxt.extend(assign_target(eng, s2, tgt, v))
            cur = nxt
        outs.extend(cur)
    return outs


def st_AnnAssign(eng, s, st):
    if s.value is None:
        return [(st, NORMAL)]
    outs = []
    for s1, v in eng.ev(s.value, st):
        if is_raised(v):
            outs.append((s1, _raise(v)))
        else:
            outs.extend(assign_target(eng, s1, s.target, v))
    return outs


def st_AugAssign(eng, s, st):
    load = ast.copy_location(ast.Name(s.target.id, ast.Load()), s.target) if isinstance(s.target, ast.Name) else None
    if load is None:
        raise Unsupported("augmented assignment to non-name")
    outs = []
    for s1, vals in eng.ev_all([load, s.value], st):
        if is_raised(vals):
            outs.append((s1, _raise(vals)))
            continue
        h = eng.method_models.get("__iadd__")
        if h is not None and isinstance(s.op, ast.Add):
            r_ = h(eng, s1, vals[0], vals[1], s)  # in-place `+=` on a container the unit models (list.__iadd__ mutates, the name keeps its object)
            if r_ is not None:
                outs.extend(r_)
                continue
        for s2, r in eng.binop(s1, s.op, vals[0], vals[1], s):
            if is_raised(r):
                outs.append((s2, _raise(r)))
            else:
                outs.extend(assign_target(eng, s2, s.target, r))
    return outs


def st_Delete(eng, s, st):
    s1 = st.clone()
    for t in s.targets:
        if isinstance(t, ast.Name):
            s1.env.pop(t.id, None)
        elif isinstance(t, ast.Subscript):
            m = eng.method_models.get("__delitem__")
            if m is None:
                raise Unsupported("del subscript")
            return m(eng, st, t)
        else:
            raise Unsupported("del target")
    return [(s1, NORMAL)]


def st_Global(eng, s, st):
    return [(st, NORMAL)]


def st_Nonlocal(eng, s, st):
    return [(st, NORMAL)]


def st_Import(eng, s, st):
    m = eng.method_models.get("__import__")
    if m:
        return m(eng, st, s)
    s1 = st.clone()
    for a in s.names:
        nm = (a.asname or a.name).split(".")[0]
        s1.env[nm] = Opaque(f"module:{a.name}", z3.Const(f"module_{nm}", __import__("pyvc.values", fromlist=["U"]).U))
    return [(s1, NORMAL)]


def st_ImportFrom(eng, s, st):
    m = eng.method_models.get("__import__")
    if m:
        return m(eng, st, s)
    s1 = st.clone()
    for a in s.names:
        nm = a.asname or a.name
        g = eng.globals.get(nm)
        s1.env[nm] = g if g is not None else Opaque(f"import:{a.name}")
    return [(s1, NORMAL)]


def st_If(eng, s, st):
    outs = []
    for s1, v in eng.ev(s.test, st):
        if is_raised(v):
            outs.append((s1, _raise(v)))
            continue
        for s2, b in eng.branch(s1, eng.truth(s1, v)):
            outs.extend(run(eng, s.body if b else s.orelse, s2))
    return outs


def st_Return(eng, s, st):
    if s.value is None:
        return [(st, Outcome("return", NONE))]
    return [(s1, _raise(v) if is_raised(v) else Outcome("return", v)) for s1, v in eng.ev(s.value, st)]


def st_Break(eng, s, st):
    return [(st, Outcome("break"))]


def st_Continue(eng, s, st):
    return [(st, Outcome("continue"))]


def st_Raise(eng, s, st):
    if s.exc is None:
        if not st.exc_stack:
            return [(st, Outcome("raise", Exc("RuntimeError", origin="bare raise")))]
        return [(st, Outcome("raise", st.exc_stack[-1]))]
    exprs = [s.exc] + ([s.cause] if s.cause is not None else [])
    outs = []
    for s1, vals in eng.ev_all(exprs, st):
        if is_raised(vals):
            outs.append((s1, _raise(vals)))
            continue
        e = vals[0]
        if isinstance(e, Cls):
            e = Exc(e.name, origin="explicit")
        if isinstance(e, Opaque):
            e = Exc("OtherException", origin=f"explicit:{e.tag}")
        if not isinstance(e, Exc):
            raise Unsupported(f"raise {e}")
        if e.origin == "constructed":
            e.origin = "explicit"
        if s.cause is not None:
            c = vals[1]
            if isinstance(c, NoneV):
                e.cause, e.suppress = None, True
            else:
                e.cause, e.suppress = c, True
        elif s1.exc_stack and e.cause is None:
            pass  # implicit __context__ (not modelled)
        outs.append((s1, Outcome("raise", e)))
    return outs


def handler_names(h):
    if h.type is None:
        return ["BaseException"]
    names = []
    t = h.type
    for x in t.elts if isinstance(t, ast.Tuple) else [t]:
        if isinstance(x, ast.Name):
            names.append(x.id)
        elif isinstance(x, ast.Attribute):
            names.append(x.attr)
        else:
            raise Unsupported(f"except {ast.unparse(t)}")
    return names


def handler_matches(eng, st, h, exc):
    if h.type is None:
        return True
    names = []
    t = h.type
    for x in t.elts if isinstance(t, ast.Tuple) else [t]:
        if isinstance(x, ast.Name):
            names.append(x.id)
        elif isinstance(x, ast.Attribute):
            names.append(x.attr)
        else:
            raise Unsupported(f"except {ast.unparse(t)}")
    return any(exc_isinstance(exc.cls, n) for n in names)


def st_Try(eng, s, st):
    outs = []
    for s1, o in run(eng, s.body, st):
        if o.kind == "raise":
            remaining = o.val.classes()
            for h in s.handlers:
                names = handler_names(h)
                caught = frozenset(c for c in remaining if any(exc_isinstance(c, n) for n in names))
                if not caught:
                    continue
                remaining = remaining - caught
                ex = o.val if caught == o.val.classes() else o.val.narrow(caught)
                s2 = s1.clone()
                s2.ghost["exc_classes"] = {**s2.ghost.get("exc_classes", {}), ex.id: caught}
                s2.exc_stack.append(ex)
                s2.path.append(f"except {ast.unparse(h.type) if h.type else 'bare'}" + ("" if caught == o.val.classes() else f"[{','.join(sorted(caught))}]"))
                if h.name:
                    s2.env[h.name] = ex
                for s3, o3 in run(eng, h.body, s2):
                    s3 = s3.clone()
                    if s3.exc_stack and s3.exc_stack[-1] is ex:
                        s3.exc_stack.pop()
                    if h.name:
                        s3.env.pop(h.name, None)
                    outs.append((s3, o3))
                if not remaining:
                    break
            if remaining:
                if remaining == o.val.classes():
                    outs.append((s1, o))
                else:
                    s4 = s1.clone()
                    s4.ghost["exc_classes"] = {**s4.ghost.get("exc_classes", {}), o.val.id: remaining}
                    outs.append((s4, Outcome("raise", o.val.narrow(remaining))))
        elif o.kind == "normal" and s.orelse:
            outs.extend(run(eng, s.orelse, s1))
        else:
            outs.append((s1, o))
    if s.finalbody:
        fin = []
        for s1, o in outs:
            for s2, o2 in run(eng, s.finalbody, s1):
                fin.append((s2, o if o2.kind == "normal" else o2))
        outs = fin
    return outs


def _split_contextmanager(fn):
    """a @contextmanager generator with exactly one yield -> (pre, post_protected(finally), post_unprotected) or None"""
    ys = [n for n in ast.walk(fn) if isinstance(n, (ast.Yield, ast.YieldFrom))]
    if len(ys) != 1 or not any("contextmanager" in ast.unparse(d) for d in fn.decorator_list):
        return None
    for i, stt in enumerate(fn.body):
        if isinstance(stt, ast.Expr) and stt.value is ys[0]:
            return fn.body[:i], [], fn.body[i + 1 :]
        if isinstance(stt, ast.Try) and len(stt.body) == 1 and isinstance(stt.body[0], ast.Expr) and stt.body[0].value is ys[0] and not stt.handlers and not stt.orelse:
            return fn.body[:i], stt.finalbody, fn.body[i + 1 :]
    return None


def st_With(eng, s, st):
    m = eng.method_models.get("__with__")
    if m is not None:
        return m(eng, st, s)
    # a context manager written in the file under proof as an @contextmanager generator: executed around the body
    if len(s.items) == 1 and isinstance(s.items[0].context_expr, ast.Call) and isinstance(s.items[0].context_expr.func, ast.Name) and eng.module is not None:
        cm = None
        for modl in [eng.module] + list(getattr(eng, "extra_modules", [])):
            try:
                cand = modl._find_in(modl.tree.body, s.items[0].context_expr.func.id, (ast.FunctionDef,))
            except Exception:
                cand = None
            if cand is not None:
                cm = cand
                break
        parts = _split_contextmanager(cm) if cm is not None else None
        if parts is not None and not s.items[0].context_expr.args and not s.items[0].context_expr.keywords and s.items[0].optional_vars is None:
            pre, fin, post = parts
            outs = []
            for s1, o1 in run(eng, pre, st):
                if o1.kind != "normal":
                    outs.append((s1, o1))
                    continue
                for s2, o2 in run(eng, s.body, s1):
                    if o2.kind == "raise":
                        # the exception is thrown into the generator at its yield: only a `finally` around the yield runs
                        for s3, o3 in run(eng, fin, s2):
                            outs.append((s3, o2 if o3.kind == "normal" else o3))
                    else:
                        for s3, o3 in run(eng, list(fin) + list(post), s2):
                            outs.append((s3, o2 if o3.kind == "normal" else o3))
            return outs
    raise Unsupported("with statement")


def st_FunctionDef(eng, s, st):
    s1 = st.clone()
    fn = Fn(s.name, node=s, closure=None)
    m = eng.method_models.get("__def__")
    if m:
        r = m(eng, s1, s, fn)
        if r is not None:
            return r
    fn.closure = s1.env  # late-binding closure over the defining environment (shared dict snapshot)
    if not s.decorator_list:
        s1.env[s.name] = fn
        return [(s1, NORMAL)]
    # decorators: evaluated top to bottom, applied bottom to top
    from .calls import call_value

    outs = []
    for s2, decs in eng.ev_all(list(s.decorator_list), s1):
        if is_raised(decs):
            outs.append((s2, _raise(decs)))
            continue
        cur = [(s2, fn)]
        for d in reversed(decs):
            nxt = []
            for s3, v in cur:
                if is_raised(v):
                    nxt.append((s3, v))
                else:
                    nxt.extend(call_value(eng, s3, d, [v], {}, s))
            cur = nxt
        for s3, v in cur:
            if is_raised(v):
                outs.append((s3, _raise(v)))
            else:
                s4 = s3.clone()
                s4.env[s.name] = v
                outs.append((s4, NORMAL))
    return outs


def st_ClassDef(eng, s, st):
    m = eng.method_models.get("__classdef__")
    if m:
        return m(eng, st, s)
    raise Unsupported("nested class definition")


def iter_items(eng, st, it):
    """static expansion of an iterable -> list of per-iteration values, or None if not static."""
    if isinstance(it, Tup):
        return list(it.items)
    if isinstance(it, Ref):
        o = st.get(it)
        if isinstance(o, ListObj) and o.lower is None:
            return list(o.items)
    if isinstance(it, Opaque) and it.attrs:
        if "__zip__" in it.attrs:
            cols = [iter_items(eng, st, x) for x in it.attrs["__zip__"].items]
            if all(c is not None for c in cols):
                return [Tup(list(r)) for r in zip(*cols)]
        if "__enumerate__" in it.attrs:
            c = iter_items(eng, st, it.attrs["__enumerate__"])
            if c is not None:
                return [Tup([mkint(i), x]) for i, x in enumerate(c)]
    return None


def st_For(eng, s, st):
    h = eng.loop_specs.get(id(s))
    if h is not None:
        return h(eng, s, st)
    outs = []
    for s1, it in eng.ev(s.iter, st):
        if is_raised(it):
            outs.append((s1, _raise(it)))
            continue
        items = iter_items(eng, s1, it)
        if items is None and eng.approx_opaque_loops and isinstance(it, Opaque) and not s.orelse:
            # the iterable is opaque and the unit gave no invariant: over-approximate by "no iteration" and "one arbitrary iteration",
            # then forget every name the loop assigns (sound for the structural obligations of units that enable it; recorded in stats)
            eng.stats["approx_loops"] = eng.stats.get("approx_loops", 0) + 1
            assigned = sorted({n.id for n in ast.walk(s) if isinstance(n, ast.Name) and isinstance(n.ctx, ast.Store)})
            skip = s1.fork(None, "loop:none")
            outs.append((skip, NORMAL))
            one = s1.clone()
            one.path.append("loop:some")
            item = Opaque("item")
            if it.attrs and isinstance(it.attrs.get("__dict__"), Ref) and isinstance(one.get(it.attrs["__dict__"]), DictObj):
                # an arbitrary entry of a modelled dict: a key of its domain with the value stored there (properly typed)
                dd = one.get(it.attrs["__dict__"])
                kf = z3.FreshConst(dd.ksort, "some_key")
                one.pc.append(dd.d[kf])
                kv = eng.unpack_val(dd.ksort, kf)
                vv = eng.unpack_val(dd.vsort, dd.m[kf])
                item = {"dict.items": Tup([kv, vv]), "dict.keys": kv, "dict.values": vv}.get(it.tag, item)
            for s3, o in unpack(eng, one, s.target.elts, item) if isinstance(s.target, (ast.Tuple, ast.List)) else assign_target(eng, one, s.target, item):
                for s4, o4 in run(eng, s.body, s3):
                    if o4.kind in ("normal", "continue", "break"):
                        s5 = s4.clone()
                        for nme in assigned:
                            if nme in s5.env and not isinstance(s5.env[nme], Ref):
                                s5.env[nme] = Opaque(f"after-loop:{nme}")
                        outs.append((s5, NORMAL))
                    else:
                        outs.append((s4, o4))
            continue
        if items is None:
            raise Unsupported(f"for loop without invariant over {it}: {ast.unparse(s.iter)[:60]}")
        cur = [s1]
        done = []
        for x in items:
            nxt = []
            for s2 in cur:
                for s3, o in assign_target(eng, s2, s.target, x):
                    if o.kind != "normal":
                        outs.append((s3, o))
                        continue
                    for s4, o4 in run(eng, s.body, s3):
                        if o4.kind in ("normal", "continue"):
                            nxt.append(s4)
                        elif o4.kind == "break":
                            done.append((s4, NORMAL))
                        else:
                            outs.append((s4, o4))
            cur = nxt
        for s2 in cur:
            if s.orelse:
                outs.extend(run(eng, s.orelse, s2))
            else:
                outs.append((s2, NORMAL))
        outs.extend(done)
    return outs


def st_While(eng, s, st):
    h = eng.loop_specs.get(id(s))
    if h is not None:
        return h(eng, s, st)
    if eng.approx_opaque_loops and not s.orelse:
        # over-approximation (see st_For): the loop runs an unknown number of times; forget what it assigns
        eng.stats["approx_loops"] = eng.stats.get("approx_loops", 0) + 1
        assigned = sorted({n.id for n in ast.walk(s) if isinstance(n, ast.Name) and isinstance(n.ctx, ast.Store)})
        outs = []
        for s1, o in run(eng, s.body, st.fork(None, "while:some")):
            if o.kind not in ("normal", "continue", "break"):
                outs.append((s1, o))
        s2 = st.fork(None, "while:done")
        for nme in assigned:
            if nme in s2.env and not isinstance(s2.env[nme], Ref):
                s2.env[nme] = Opaque(f"after-loop:{nme}")
        outs.append((s2, NORMAL))
        return outs
    raise Unsupported("while loop without invariant")
