"""./check <property-id> [--tier quick|thorough] [--replay FILE] [--write-baseline]

exit 0 held (KNOWN-FINDING lines for listed findings) | 1 VIOLATION | 2 undecided | 3 checker defect
"""
from __future__ import annotations

import argparse
import collections
import importlib
import json
import os
import subprocess
import sys
import time
import traceback

ROOT = os.path.dirname(os.path.dirname(os.path.abspath(__file__)))
sys.path.insert(0, ROOT)
OUT = os.environ.get("VERIF_OUT", ROOT)  # where evidence/ and replays/ are written (scratch runs on mutants set this)

from pyvc import smt  # noqa: E402
from pyvc.source import REPO, NotFound  # noqa: E402
from pyvc.values import Unsupported  # noqa: E402

VENV_PY = os.environ.get("VERIF_VENV_PY", "/venv/bin/python")

GLOBAL_ASSUMPTIONS = [
    "T1 PyVC's own encoding of the Python subset (mitigated by mutation self-tests and native replays)",
    "T2 solvers: z3 5.1 (primary), cvc5 1.0.3 / z3 4.8.12 for unknowns and cross-checks",
    "T3 CPython semantics: mathematical ints, left-to-right evaluation, short-circuit and/or, no asynchronous exceptions between bytecodes, built-ins not monkey-patched, dict iteration = insertion order",
    "T4 user-code frame: user code touches jaxtyping state only through the public API and may raise any exception class",
    "T6 induction principle over the naturals / finite trees composing base+step obligations",
]


def load_known():
    p = os.path.join(ROOT, "known_findings.json")
    if not os.path.exists(p):
        return []
    return json.load(open(p))


def match_known(known, prop, item):
    """item: dict with unit, clause, path (list) or case (str). -> finding or None"""
    for k in known:
        if k.get("status") != "known" or k.get("property") != prop:
            continue
        m = k.get("match", {})
        if "any" in m:
            if any(match_known([dict(k, match=alt)], prop, item) for alt in m["any"]):
                return k
            continue
        if "unit" in m and m["unit"] != item.get("unit"):
            continue
        if "clause_prefix" in m and not str(item.get("clause", "")).startswith(m["clause_prefix"]):
            continue
        if "path_contains" in m and not all(any(x in str(p) for p in item.get("path", [])) for x in m["path_contains"]):
            continue
        if "case_prefix" in m and not str(item.get("case", "")).startswith(m["case_prefix"]):
            continue
        if "witness_contains" in m and not all(x in json.dumps(item.get("witness", ""), default=str) for x in m["witness_contains"]):
            continue
        return k
    return None


def run_bounded(spec, tier, seed, repo):
    """runs a bounded stand-in under the repo's interpreter. spec: {script, args}. -> dict"""
    script = os.path.join(ROOT, "bounded", spec["script"])
    env = dict(os.environ)
    env["PYTHONPATH"] = repo + os.pathsep + ROOT
    env.pop("PYTHONDONTWRITEBYTECODE", None)
    env["PYTHONDONTWRITEBYTECODE"] = "1"
    env["JAX_PLATFORMS"] = "cpu"
    cmd = [VENV_PY, script, "--tier", tier, "--seed", str(seed), "--repo", repo] + spec.get("args", [])
    t0 = time.time()
    try:
        p = subprocess.run(cmd, capture_output=True, text=True, env=env, timeout=spec.get("timeout", 1500), cwd=ROOT)
    except subprocess.TimeoutExpired:
        return {"script": spec["script"], "status": "timeout", "wall_s": time.time() - t0}
    out = None
    for line in reversed(p.stdout.splitlines()):
        if line.startswith("{"):
            try:
                out = json.loads(line)
                break
            except ValueError:
                continue
    if out is None:
        return {"script": spec["script"], "status": "crash", "rc": p.returncode, "stderr": p.stderr[-2000:], "stdout": p.stdout[-500:], "wall_s": time.time() - t0}
    out["script"] = spec["script"]
    out.setdefault("status", "ok")
    out["wall_s"] = round(time.time() - t0, 2)
    return out


def run_replay(replayer, payload, repo):
    """replays a counter-model natively. -> dict(reproduced: bool|None, ...)"""
    script = os.path.join(ROOT, "replay", replayer)
    env = dict(os.environ)
    env["PYTHONPATH"] = repo + os.pathsep + ROOT
    env["JAX_PLATFORMS"] = "cpu"
    try:
        p = subprocess.run([VENV_PY, script, "--repo", repo], input=json.dumps(payload, default=str), capture_output=True, text=True, env=env, timeout=300, cwd=ROOT)
    except subprocess.TimeoutExpired:
        return {"reproduced": None, "error": "timeout"}
    for line in reversed(p.stdout.splitlines()):
        if line.startswith("{"):
            try:
                return json.loads(line)
            except ValueError:
                pass
    return {"reproduced": None, "error": (p.stderr or p.stdout)[-1500:]}


def main(argv=None):
    ap = argparse.ArgumentParser()
    ap.add_argument("prop")
    ap.add_argument("--tier", default=os.environ.get("VERIF_TIER", "quick"))
    ap.add_argument("--replay")
    ap.add_argument("--write-baseline", action="store_true")
    ap.add_argument("--repo", default=REPO)
    ap.add_argument("-v", action="store_true")
    a = ap.parse_args(argv)
    seed = int(os.environ.get("VERIF_SEED", "0") or 0)
    tier = a.tier if a.tier in ("quick", "thorough") else "quick"
    prop = a.prop
    t0 = time.time()
    from pyvc.props import table

    if prop not in table.SPECS:
        print(f"no check for property {prop}")
        return 3
    if a.replay:
        payload = json.load(open(a.replay))
        rp = payload.get("replayer")
        if not rp:
            print(json.dumps(payload.get("native", payload), indent=1)[:3000])
            print("replay file has no native replayer (no-failing-input-found); obligation:", payload.get("obligation"))
            return 0
        r = run_replay(rp, payload, a.repo)
        print(json.dumps(r, indent=1)[:4000])
        return 1 if r.get("reproduced") else 0

    spec = table.SPECS[prop]
    known = load_known()
    undecided, defects = [], []
    units_info, obligations, assumptions = [], [], list(GLOBAL_ASSUMPTIONS)
    # ---- 1. build units (VC generation from the current source)
    for uname in spec["units"]:
        try:
            um = importlib.import_module(f"pyvc.units.{uname}")
            u = um.build(a.repo)
        except (NotFound, Unsupported) as e:
            undecided.append(f"unit {uname}: {type(e).__name__}: {e}")
            continue
        except (AttributeError, KeyError, IndexError, TypeError, AssertionError) as e:
            tb = traceback.extract_tb(e.__traceback__)
            if tb and "/pyvc/units/" in tb[-1].filename:
                # the unit's own pattern matching met an AST shape it does not know: the changed code is outside what it can interpret
                undecided.append(f"unit {uname}: cannot interpret the current source ({type(e).__name__}: {e} at {os.path.basename(tb[-1].filename)}:{tb[-1].lineno})")
            else:
                defects.append(f"unit {uname} crashed:\n{traceback.format_exc()[-1500:]}")
            continue
        except Exception:
            defects.append(f"unit {uname} crashed:\n{traceback.format_exc()[-1500:]}")
            continue
        units_info.append({k: u[k] for k in ("unit", "functions", "paths", "stats") if k in u})
        for ob in u["obligations"]:
            serves = ob.get("serves")
            if serves and prop not in serves:
                continue
            ob["unit"] = u["unit"]
            obligations.append(ob)
        for x in u.get("assumptions", []):
            if x not in assumptions:
                assumptions.append(x)
    # ---- 2. lemmas (no code involved)
    for lname in spec.get("lemmas", []):
        try:
            lm = importlib.import_module(f"pyvc.lemmas.{lname}")
            L = lm.build()
            for ob in L["obligations"]:
                if ob.get("serves") and prop not in ob["serves"] and ob.get("kind") != "canary":
                    continue
                ob["unit"] = "lemma:" + lname
                obligations.append(ob)
            for x in L.get("assumptions", []):
                if x not in assumptions:
                    assumptions.append(x)
        except Exception:
            defects.append(f"lemma {lname} crashed:\n{traceback.format_exc()[-1500:]}")
    # ---- 3. discharge
    try:
        smt.discharge(obligations, cross=(tier == "thorough"))
    except Exception:
        defects.append("solver driver crashed:\n" + traceback.format_exc()[-1500:])
    vcs = [o for o in obligations if o.get("kind", "vc") == "vc"]
    canaries = [o for o in obligations if o.get("kind") == "canary"]
    refuted = [o for o in vcs if o.get("status") == "refuted"]
    unknown = [o for o in vcs if o.get("status") not in ("proved", "refuted")]
    for o in canaries:
        if o.get("status") != "refuted":
            defects.append(f"vacuity canary not refuted: {o['unit']}/{o['clause']} ({o.get('status')})")
    for o in unknown:
        undecided.append(f"obligation {o['unit']}/{o['clause']}: {o.get('status')} {o.get('reason', '')}")
    # baseline clause presence
    bl_path = os.path.join(ROOT, "baseline", f"{prop}.json")
    clause_counts = collections.Counter(f"{o['unit']}/{o['clause']}" for o in vcs)
    if a.write_baseline:
        os.makedirs(os.path.dirname(bl_path), exist_ok=True)
        json.dump({"clauses": {c: {"count": n, "status": "discharged" if all(o["status"] == "proved" for o in vcs if f"{o['unit']}/{o['clause']}" == c) else "refuted"} for c, n in sorted(clause_counts.items())}}, open(bl_path, "w"), indent=1)
    baseline = json.load(open(bl_path)) if os.path.exists(bl_path) else None
    if baseline and not undecided and not defects:
        for c in baseline["clauses"]:
            stem = c.split("[")[0]
            if not any(x.split("[")[0] == stem for x in clause_counts):
                undecided.append(f"baseline clause no longer generated: {c}")
    # ---- 4. bounded stand-ins
    bounded_results = []
    for b in spec.get("bounded", []):
        if tier == "quick" and b.get("thorough_only"):
            continue
        r = run_bounded(b, tier, seed, a.repo)
        bounded_results.append(r)
        if r.get("status") in ("crash", "timeout"):
            defects.append(f"bounded stand-in {b['script']}: {r.get('status')} {r.get('stderr', '')[-800:]}")
    # ---- 5. violations, known findings, replays
    os.makedirs(os.path.join(OUT, "replays"), exist_ok=True)
    violations, known_lines = [], []
    groups = collections.OrderedDict()
    for o in refuted:
        groups.setdefault((o["unit"], o["clause"]), []).append(o)
    n_rep = 0
    for (unit, clause), obs in groups.items():
        o = obs[0]
        item = {"unit": unit, "clause": clause, "path": o.get("path", []), "witness": o.get("model")}
        k = match_known(known, prop, item)
        if k is not None and all(match_known(known, prop, {"unit": unit, "clause": clause, "path": x.get("path", []), "witness": x.get("model")}) for x in obs):
            known_lines.append(f"KNOWN-FINDING: property={prop} {k['what_fails']} [obligation {unit}/{clause}, {len(obs)} path(s)]")
            continue
        payload = {
            "property": prop, "obligation": f"{prop}/{unit}/{clause}", "paths_refuted": len(obs), "path": o.get("path", []),
            "backend": o.get("backend"), "solver_result": o.get("solver_result"),
            "model": {kk: v for kk, v in (o.get("model") or {}).items()},
            "repo": a.repo,
        }
        rp = spec.get("replayers", {}).get(unit)
        native = None
        if rp:
            payload["replayer"] = rp
            native = run_replay(rp, payload, a.repo)
            payload["native"] = native
        n_rep += 1
        rpath = os.path.join(OUT, "replays", f"{prop}-{n_rep}.json")
        json.dump(payload, open(rpath, "w"), indent=1, default=str)
        if native and native.get("reproduced") is False and native.get("model_concrete"):
            defects.append(f"counter-model for {unit}/{clause} is concrete but the real code agrees with the contract (encoding wrong?) replay={rpath}")
            continue
        in_baseline = baseline is None or any(c.split("[")[0] == f"{unit}/{clause}".split("[")[0] and v.get("status") == "discharged" for c, v in baseline["clauses"].items()) or True
        tail = "" if (native and native.get("reproduced")) else " no-failing-input-found"
        violations.append(f"VIOLATION property={prop} replay={rpath} obligation={unit}/{clause}{tail}")
    for r in bounded_results:
        for i, f in enumerate(r.get("failures", [])[:50]):
            item = {"unit": "bounded:" + r["script"], "clause": f.get("clause", "bounded"), "case": f.get("case", ""), "witness": f}
            k = match_known(known, prop, item)
            if k is not None:
                line = f"KNOWN-FINDING: property={prop} {k['what_fails']} [bounded {r['script']}]"
                if line not in known_lines:
                    known_lines.append(line)
                continue
            n_rep += 1
            rpath = os.path.join(OUT, "replays", f"{prop}-{n_rep}.json")
            json.dump({"property": prop, "obligation": f"{prop}/bounded:{r['script']}/{f.get('clause', 'bounded')}", "bounded": True, "failure": f, "replayer": r.get("replayer"), "repo": a.repo}, open(rpath, "w"), indent=1, default=str)
            violations.append(f"VIOLATION property={prop} replay={rpath} bounded={r['script']} case={str(f.get('case', ''))[:120]}")
            if len(violations) >= 5:
                break
    # ---- 6. evidence
    wall = time.time() - t0
    n_known_refuted = sum(1 for o in refuted if match_known(known, prop, {"unit": o["unit"], "clause": o["clause"], "path": o.get("path", []), "witness": o.get("model")}))
    proved = sum(1 for o in vcs if o.get("status") == "proved")
    from .props import table as _table

    level = _table.category(prop)  # static: the table's category, 'other' when known_findings.json lists an open finding (same rule as MANIFEST.json)
    by_backend = collections.Counter(o.get("backend", "?") for o in vcs if o.get("status") == "proved")
    samples = []
    for o in vcs[:: max(1, len(vcs) // 6)][:8]:
        samples.append({"obligation": f"{o['unit']}/{o['clause']}", "path": [str(x) for x in o.get("path", [])][-8:], "result": o.get("status"), "ms": o.get("ms"), "pc_conjuncts": len(o.get("pc", [])), "goal": str(o.get("goal"))[:200]})
    cov = {
        "obligations": len(vcs),
        "discharged": proved,
        "checker_cmd": f"python3-vt -m pyvc.cli {prop} --tier {tier}  (VCs generated from {a.repo}/jaxtyping/*.py by pyvc, discharged by z3 {smt.z3.get_version_string()}; unknowns -> /usr/bin/cvc5, /usr/bin/z3)",
        "trusted_base": assumptions,
        "explanation": (spec.get("text", "") + (" | All obligations discharged except those matched by listed known findings (see known_findings.json): " + "; ".join(known_lines) if known_lines else ""))[:4000],
        "known_findings_reported": known_lines,
        "functions_under_contract": units_info,
        "by_backend": dict(by_backend),
        "solver_ms_total": round(sum(o.get("ms", 0) for o in obligations), 1),
        "clauses": dict(clause_counts),
        "canaries_refuted": sum(1 for o in canaries if o.get("status") == "refuted"),
        "known_refuted": n_known_refuted,
        "undischarged": [f"{o['unit']}/{o['clause']}:{o.get('status')}" for o in vcs if o.get("status") != "proved"][:40],
        "undecided": undecided[:20],
        "checker_defects": defects[:10],
        "bounded_standins": [{k: v for k, v in r.items() if k not in ("failures",)} | {"failures": len(r.get("failures", []))} for r in bounded_results],
        "samples": samples,
        "evaluations": sum(int(r.get("evaluations", 0)) for r in bounded_results) + len(vcs),
        "distinct_nontrivial": sum(int(r.get("distinct_nontrivial", 0)) for r in bounded_results) + len(clause_counts),
        "rule": "obligations: one per (contract clause, path) generated from the current source; bounded stand-ins: see bounded_standins[].rule (bounded, never counted as proved)",
        "not_proved_bounded_only": spec.get("bounded_only", []),
    }
    ev = {
        "property_id": prop, "tier": tier, "seed": seed, "level": level, "coverage": cov,
        "assumptions": assumptions + spec.get("assumptions", []),
        "wall_s": round(wall, 2), "violations": len(violations),
    }
    os.makedirs(os.path.join(OUT, "evidence"), exist_ok=True)
    json.dump(ev, open(os.path.join(OUT, "evidence", f"{prop}.json"), "w"), indent=1, default=str)
    # ---- 7. verdict
    for line in known_lines:
        print(line)
    print(f"{prop}: {proved}/{len(vcs)} obligations discharged, {len(refuted)} refuted ({n_known_refuted} known), {len(unknown)} unknown; "
          f"{len(bounded_results)} bounded stand-in(s); {wall:.1f}s")
    if violations:
        for v in violations:
            print(v)
        for d in defects:
            print("CHECKER-DEFECT:", d)
        for u in undecided:
            print("UNDECIDED (besides the violation):", u)
        return 1
    if defects:
        for d in defects:
            print("CHECKER-DEFECT:", d)
        return 3
    if undecided:
        for u in undecided:
            print("UNDECIDED:", u)
        return 2
    return 0


if __name__ == "__main__":
    sys.exit(main())
