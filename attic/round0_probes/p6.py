import warnings, numpy as np, sys, ast, textwrap, itertools
warnings.simplefilter("ignore")
import jax, jax.numpy as jnp
import typeguard, beartype
from jaxtyping import *
import jaxtyping
from jaxtyping import jaxtyped, PyTree, print_bindings, config
from jaxtyping._import_hook import JaxtypingTransformer, Typechecker, _JaxtypingFinder
from jaxtyping import _storage
def sec(s): print("\n=== "+s)
def t(label, f):
    try: print(label, "->", f())
    except BaseException as e: print(label, "-> RAISED", type(e).__name__, str(e)[:100].replace("\n"," | "))

sec("C05 stack depth after exits")
depth = lambda: len(getattr(_storage._shape_storage, "memo_stack", []))
@jaxtyped(typechecker=typeguard.typechecked)
def boom(x: Float[np.ndarray, "a"]): raise KeyboardInterrupt
try: boom(np.zeros(3))
except BaseException: pass
print("after BaseException in new-style:", depth())
@jaxtyped
@typeguard.typechecked
def boom2(x: Float[np.ndarray, "a"]): raise SystemExit
try: boom2(np.zeros(3))
except BaseException: pass
print("after BaseException in old-style:", depth())
try:
    with jaxtyped("context"):
        isinstance(np.zeros(3), Float[np.ndarray, "q"]); raise KeyboardInterrupt
except BaseException: pass
print("after ctx exc:", depth())
try: boom(np.zeros(3), 1, 2)
except TypeError as e: print("bind error:", type(e).__name__, depth())
@jaxtyped(typechecker=typeguard.typechecked)
def gen(x: Float[np.ndarray, "a"]):
    print("  in gen depth", depth()); yield x
g = gen(np.zeros(3)); print("after gen creation:", depth()); next(g); print("after next:", depth())

sec("C10 transformer edge cases")
def strip(tree):
    class S(ast.NodeTransformer):
        def visit_Module(self, n):
            self.generic_visit(n)
            n.body = [b for b in n.body if not (isinstance(b, ast.Import) and b.names[0].name=="jaxtyping" and not hasattr(b,"_orig"))]
            return n
    return tree
src = textwrap.dedent('''
    """doc"""
    from __future__ import annotations
    "second string"
    import os
    @dec1
    @dec2
    def f(x):
        def g(): 
            class H:
                def m(self): pass
            return lambda: 1
        return g
    async def af():
        def inner(): pass
    @cdec
    class C:
        @staticmethod
        def s(): pass
    if True:
        def cond(): pass
''')
tree = ast.parse(src)
for n in ast.walk(tree): n._orig = True
before = ast.dump(tree, include_attributes=True)
tree2 = JaxtypingTransformer(typechecker=Typechecker("typeguard.typechecked")).visit(tree)
ast.fix_missing_locations(tree2)
added = [n for n in ast.walk(tree2) if not hasattr(n, "_orig")]
tops = [n for n in tree2.body if not hasattr(n,"_orig")]
print("import pos:", [i for i,n in enumerate(tree2.body) if not hasattr(n,"_orig")], "n added nodes", len(added))
for n in ast.walk(tree2):
    if isinstance(n, (ast.FunctionDef, ast.AsyncFunctionDef, ast.ClassDef)):
        print(" ", type(n).__name__, n.name, ["NEW" if not hasattr(d,"_orig") else ast.unparse(d) for d in n.decorator_list])
compile(tree2, "<x>", "exec"); print("compiles")

sec("C11 should_instrument")
f = _JaxtypingFinder(["foo", "bar.baz"], None, None)
print({n: f.should_instrument(n) for n in ["foo","foo.x","foobar","fo","bar","bar.baz","bar.bazz","bar.baz.q", "foo."]})

sec("C17 tracing")
@jaxtyped(typechecker=typeguard.typechecked)
def mm(x: Float[jax.Array, "a b"], y: Float[jax.Array, "b c"]) -> Float[jax.Array, "a c"]:
    return x @ y
t("jit ok", lambda: jax.jit(mm)(jnp.zeros((2,3)), jnp.zeros((3,4))).shape)
t("jit bad", lambda: jax.jit(mm)(jnp.zeros((2,3)), jnp.zeros((4,4))).shape)
t("vmap ok", lambda: jax.vmap(mm)(jnp.zeros((5,2,3)), jnp.zeros((5,3,4))).shape)
t("eval_shape bad", lambda: jax.eval_shape(mm, jnp.zeros((2,3)), jnp.zeros((4,4))))
t("grad ok", lambda: jax.grad(lambda x,y: mm(x,y).sum())(jnp.zeros((2,3)), jnp.zeros((3,4))).shape)

sec("C02 checker discipline spy")
from jaxtyping import _array_types as A
calls = []
orig = A._MetaAbstractArray.__instancecheck__
def spy(cls, obj):
    r = orig(cls, obj); calls.append((cls.dim_str, getattr(obj,"shape",None), r)); return r
A._MetaAbstractArray.__instancecheck__ = spy
for tc in (typeguard.typechecked, beartype.beartype):
    @jaxtyped(typechecker=tc)
    def h(x: Float[np.ndarray, "a"], y: Float[np.ndarray, "a b"], *, z: Float[np.ndarray, "b"]) -> Float[np.ndarray, "a"]:
        return x
    calls.clear(); h(np.zeros(2), z=np.zeros(3), y=np.zeros((2,3))); print(tc.__name__, "ok call:", calls)
    calls.clear()
    try: h(np.zeros(2), z=np.zeros(4), y=np.zeros((2,3)))
    except Exception as e: print(tc.__name__, "bad call:", type(e).__name__, calls)
A._MetaAbstractArray.__instancecheck__ = orig
