"""Collects confirmed seeded changes from /tmp/wt-out/<P>/<m>/ into /verif/seeded/<P>-<m>/ (patch.diff, demo.py, notes.md, meta.json)."""
import json, os, re, shutil, sys
out_root = os.environ.get("SEED_ROOT", "/tmp/wt-out")
suffix = os.environ.get("SEED_SUFFIX", "")
rows = []
for P in sorted(x for x in os.listdir(out_root) if os.path.isdir(os.path.join(out_root, x))):
    for M in sorted(x for x in os.listdir(os.path.join(out_root, P)) if os.path.isdir(os.path.join(out_root, P, x))):
        d = os.path.join(out_root, P, M)
        summ = os.path.join(d, "eval", "summary")
        if not (os.path.exists(os.path.join(d, "patch.diff")) and os.path.exists(summ)):
            continue
        s = open(summ).read()
        kv = dict(re.findall(r"^(\w+)=(.*)$", s, re.M))
        checks = re.findall(r"^check_(C\d+) rc=(\d+) (\d+) violation-lines; first: (.*)$", s, re.M)
        confirmed = kv.get("demo_clean_rc") == "0" and kv.get("demo_mut_rc") not in (None, "0") and "apply" not in kv
        pytest_line = kv.get("pytest", "")
        fails = set(re.findall(r"(test/\S+)", pytest_line.split("failing:")[-1])) if "failing:" in pytest_line else None
        known = {"test/test_generators.py::test_generators_simple[False-beartype]", "test/test_generators.py::test_generators_return_no_annotations[False-beartype]"}
        suite_ok = ("267 passed" in pytest_line and fails == known) if fails is not None else pytest_line.startswith("FAILED test/test_generators.py::test_generators_return_no_annotations[False-beartype]")
        caught = [c for c, rc, n, first in checks if rc == "1"]
        undecided = [c for c, rc, n, first in checks if rc == "2"]
        dst = f"/verif/seeded/{P}-{M}{suffix}"
        if confirmed:
            os.makedirs(dst, exist_ok=True)
            for f in ("patch.diff", "demo.py", "notes.md"):
                if os.path.exists(os.path.join(d, f)):
                    shutil.copy(os.path.join(d, f), os.path.join(dst, f))
            notes = open(os.path.join(d, "notes.md")).read() if os.path.exists(os.path.join(d, "notes.md")) else ""
            meta = {
                "property": P, "id": f"{P}-{M}{suffix}",
                "breaks": "see notes.md (written by an independent sub-agent that saw only the property text and a scratch worktree)",
                "needs_to_manifest": (re.search(r"(?is)(needs?|trigger|manifest)[^\n]*\n(.{0,600})", notes) or [None, None, ""])[2].strip()[:600] if notes else "",
                "confirmed_by_me": {"demo_on_unchanged_tree_rc": int(kv["demo_clean_rc"]), "demo_with_change_rc": int(kv["demo_mut_rc"]), "existing_suite_with_change": pytest_line,
                                    "suite_same_as_baseline": bool(suite_ok), "how": "tools_eval_seed.sh: patch applied in a scratch worktree of /repo (never in /repo), demo run with and without it, pinned pytest suite run with it, then ./check <property> --repo <worktree>"},
                "checks_run": [{"check": c, "exit": int(rc), "violation_lines": int(n), "first_line": first[:300]} for c, rc, n, first in checks],
                "caught_by": caught, "undecided_in": undecided,
            }
            json.dump(meta, open(os.path.join(dst, "meta.json"), "w"), indent=1)
        rows.append((P, M, confirmed, suite_ok, caught, undecided))
for r in rows:
    print(*r)
