"""Unit: jaxtyping/_storage.py -- the context stack and the two per-check flags.

Every function is executed symbolically on each *shape* of thread-local state
  S1 attribute absent | S2 empty stack | S3 lower ++ [top] (lower arbitrary, possibly empty)
and its post-state is compared structurally (handle identity) with the contract that the
other units use for it (storage_models.py). Also: the three roots are threading.local() (C06).
"""
from __future__ import annotations

import ast

import z3

from ..engine import Engine, Raised, is_raised
from ..source import Module, NotFound
from ..values import BOOL, INT, NONE, STR, U, DictObj, Exc, Fn, ListObj, NoneV, Obj, Opaque, Outcome, Ref, State, Tup, Unsupported, Z

NAME = "storage"
REL = "jaxtyping/_storage.py"
ROOTS = ["_shape_storage", "_treepath_storage", "_treeflatten_storage"]


def Lbl(index_t, structure_t):
    """the '?' label of leaf `index` in structure `structure` (statement of set_treepath_memo)."""
    return z3.Concat(z3.StringVal("(Leaf "), __import__("pyvc.engine", fromlist=["str_int"]).str_int(index_t), z3.StringVal(" in structure "), structure_t, z3.StringVal(") "))


def mk_frame(st, tag):
    return Tup([st.alloc(DictObj(STR, INT, tag=f"{tag}_sigma")), st.alloc(DictObj(STR, U, tag=f"{tag}_nu")), st.alloc(DictObj(STR, U, tag=f"{tag}_pi")), st.alloc(DictObj(STR, U, tag=f"{tag}_A"))])


def shape_state(shape):
    """-> (st, root ref, list ref or None, top frame or None)"""
    st = State()
    lst = top = None
    if shape == "S1":
        root = st.alloc(Obj("threading.local", {}, tag="_shape_storage"))
    elif shape == "S2":
        lst = st.alloc(ListObj([], None, "memo_stack"))
        root = st.alloc(Obj("threading.local", {"memo_stack": lst}, tag="_shape_storage"))
    else:
        top = mk_frame(st, "top")
        lower = ("lower", z3.Bool("lower_nonempty"), z3.Const("lower_id", U))
        lst = st.alloc(ListObj([top], lower, "memo_stack"))
        root = st.alloc(Obj("threading.local", {"memo_stack": lst}, tag="_shape_storage"))
    return st, root, lst, top


def build(repo=None):
    mod = Module(REL, repo)
    obligations = []
    functions = []
    paths = 0

    def ob(clause, ok, st=None, **meta):
        obligations.append({"clause": clause, "pc": list(st.pc) if st is not None else [], "goal": ok if isinstance(ok, z3.ExprRef) else z3.BoolVal(bool(ok)), "path": list(st.path) if st is not None else [], "meta": meta, "kind": "vc"})

    # ---- C06 (i): the storage roots are thread-local objects
    for r in ROOTS:
        good = False
        for n in mod.tree.body:
            if isinstance(n, ast.Assign) and len(n.targets) == 1 and getattr(n.targets[0], "id", None) == r:
                v = n.value
                ctor_names = {"threading.local"} | {(al.asname or al.name) for b in mod.tree.body if isinstance(b, ast.ImportFrom) and b.module == "threading" and not b.level for al in b.names if al.name == "local"} \
                    | {(al.asname or "threading") + ".local" for b in mod.tree.body if isinstance(b, ast.Import) for al in b.names if al.name == "threading"}
                good = isinstance(v, ast.Call) and ast.unparse(v.func) in ctor_names and not v.args and not v.keywords
        ob(f"root:{r}-is-thread-local", good)
    # no other module-level mutable state is introduced
    # (a name bound once to an immutable value -- a constant, a tuple of constants, a type alias such as tuple[dict[str, Any], ...] -- is not state)
    TYPE_CTORS = {"tuple", "dict", "list", "set", "frozenset", "type", "Optional", "Union", "Callable", "Any", "Dict", "List", "Tuple", "Set", "FrozenSet", "Type", "Literal", "Sequence", "Mapping", "Iterable"}
    BUILTIN_TYPES = {"int", "str", "bool", "float", "complex", "bytes", "object", "None", "Any"} | TYPE_CTORS

    def type_expr(v):
        if isinstance(v, ast.Constant):
            return True
        if isinstance(v, ast.Name):
            return v.id in BUILTIN_TYPES
        if isinstance(v, ast.Attribute):
            return isinstance(v.value, ast.Name) and v.value.id in ("typing", "t", "collections", "abc") and v.attr in BUILTIN_TYPES
        if isinstance(v, (ast.Tuple, ast.List)):
            return all(type_expr(x) for x in v.elts)  # (a list inside a subscript, e.g. Callable[[int], str], is an argument of the alias, not a stored list)
        if isinstance(v, ast.Subscript):
            return type_expr(v.value) and not isinstance(v.value, ast.Constant) and type_expr(v.slice)
        if isinstance(v, ast.BinOp) and isinstance(v.op, ast.BitOr):
            return type_expr(v.left) and type_expr(v.right)
        return False

    def immutable_expr(v):
        if isinstance(v, ast.Constant):
            return True
        if isinstance(v, ast.Tuple):
            return all(immutable_expr(x) for x in v.elts)
        return not isinstance(v, (ast.List, ast.Tuple)) and type_expr(v)

    allowed_globals = set(ROOTS)
    extra = []
    bound = {}
    for n in mod.tree.body:
        if isinstance(n, (ast.Assign, ast.AnnAssign, ast.AugAssign)):
            tg = n.targets if isinstance(n, ast.Assign) else [n.target]
            for t in tg:
                nm = getattr(t, "id", None)
                if nm not in allowed_globals:
                    bound.setdefault(nm or ast.unparse(t), []).append(n)
    for nm, ns in bound.items():
        if not (len(ns) == 1 and isinstance(ns[0], (ast.Assign, ast.AnnAssign)) and ns[0].value is not None and immutable_expr(ns[0].value)
                and not any(isinstance(g, (ast.Global, ast.Nonlocal)) and nm in g.names for g in ast.walk(mod.tree))):
            extra.append(nm)
    ob("root:no-other-module-level-state", not extra, extra=z3.StringVal(",".join(map(str, extra))))

    def engine_for(fname, st, root, extra_globals=None):
        eng = Engine(mod)
        eng.globals["_shape_storage"] = root
        for k, v in (extra_globals or {}).items():
            eng.globals[k] = v
        # repo-internal helpers without own contract are inlined
        for helper in ("_has_shape_memo",):
            try:
                eng.globals[helper] = Fn(helper, node=mod.func(helper), closure={})
            except NotFound:
                pass
        return eng

    def run_fn(fname, st, eng, args):
        nonlocal paths
        fn = mod.func(fname)
        if not any(f["qualname"].endswith("." + fname) for f in functions):
            functions.append({"qualname": f"jaxtyping._storage.{fname}", "sha256_16": mod.sha(fn), "lines": [fn.lineno, fn.end_lineno]})
        params = [a.arg for a in fn.args.args]
        n_def = len(fn.args.defaults)
        if not (len(params) - n_def <= len(args) <= len(params)) or fn.args.vararg or fn.args.kwarg or fn.args.kwonlyargs:
            raise Unsupported(f"{fname}: signature {params}")
        st.env = dict(zip(params, args))
        for pn, d in zip(params[len(params) - n_def:], fn.args.defaults):
            if pn not in st.env:
                # an added optional parameter: the callers under contract do not pass it
                (s_d, dv), = eng.ev(d, st)
                st.env[pn] = dv
        outs = eng.run(fn.body, st)
        paths += len(outs)
        return outs

    # ------------------------------------------------------------------ get_shape_memo
    for shape in ("S1", "S2", "S3"):
        st, root, lst, top = shape_state(shape)
        heap0 = dict(st.heap)
        outs = run_fn("get_shape_memo", st, engine_for("get_shape_memo", st, root), [])
        ob(f"get_shape_memo:{shape}:single-path", len(outs) == 1)
        for s1, o in outs:
            ok = o.kind == "return" and isinstance(o.val, Tup) and len(o.val.items) == 4 and all(isinstance(x, Ref) for x in o.val.items)
            ob(f"get_shape_memo:{shape}:returns-4-dicts", ok, s1)
            if not ok:
                continue
            if shape == "S3":
                ob("get_shape_memo:S3:returns-the-top-frame-dicts-by-reference", all(a.h == b.h for a, b in zip(o.val.items, top.items)), s1)
            else:
                fresh = all(x.h not in heap0 for x in o.val.items) and len({x.h for x in o.val.items}) == 4
                ob(f"get_shape_memo:{shape}:returns-four-fresh-dicts", fresh, s1)
                if fresh:
                    for x in o.val.items:
                        d = s1.get(x)
                        k = z3.FreshConst(STR, "k")
                        ob(f"get_shape_memo:{shape}:fresh-dicts-are-empty", z3.Not(d.d[k]), s1)
            ob(f"get_shape_memo:{shape}:modifies-nothing", all(s1.heap.get(h) is o0 for h, o0 in heap0.items()), s1)

    # ------------------------------------------------------------------ set_shape_memo
    # contract (what the callers rely on): afterwards the top frame holds exactly the CONTENTS the four arguments had at the call --
    # either because the frame tuple now is the four argument objects, or because the frame's own dicts were restored in place; the
    # arguments may be fresh snapshots or (some of) the frame's own dicts (aliasing); lower frames untouched; no-op without a context
    CL_S3 = "set_shape_memo:S3:top-frame-holds-exactly-the-four-arguments'-contents(frame-replaced-or-restored-in-place)-lower-frames-untouched"
    for shape, alias in (("S1", "fresh"), ("S2", "fresh"), ("S3", "fresh"), ("S3", "args-are-the-frame's-own-dicts"), ("S3", "structure-memo-argument-is-the-frame's-own-dict")):
        st, root, lst, top = shape_state(shape)
        new = mk_frame(st, "new")
        if alias.startswith("args-are"):
            new = Tup(list(top.items))
        elif alias.startswith("structure-memo"):
            new = Tup([new.items[0], new.items[1], top.items[2], new.items[3]])
        heap0 = dict(st.heap)
        entry = [st.get(r) for r in new.items]
        outs = run_fn("set_shape_memo", st, engine_for("set_shape_memo", st, root), list(new.items))
        ob(f"set_shape_memo:{shape}:single-path", len(outs) == 1)
        for s1, o in outs:
            ob(f"set_shape_memo:{shape}:returns-normally", o.kind in ("normal", "return"), s1)
            if shape == "S3":
                l1 = s1.get(lst)
                framed = isinstance(l1, ListObj) and len(l1.items) == 1 and isinstance(l1.items[0], Tup) and len(l1.items[0].items) == 4 and all(isinstance(x, Ref) for x in l1.items[0].items) and l1.lower is heap0[lst.h].lower
                now = [x.h for x in l1.items[0].items] if framed else []
                replaced = framed and now == [x.h for x in new.items]
                in_place = framed and now == [x.h for x in top.items]
                if not (replaced or in_place):
                    ob(CL_S3, False, s1, aliasing=z3.StringVal(alias))
                    continue
                kk = z3.FreshConst(STR, "k")
                goals = []
                for cur_ref, ent in zip(l1.items[0].items, entry):
                    cur = s1.get(cur_ref)
                    goals.append(z3.And(cur.d[kk] == ent.d[kk], z3.Implies(ent.d[kk], cur.m[kk] == ent.m[kk])) if isinstance(cur, DictObj) and cur.vsort == ent.vsort else z3.BoolVal(False))
                ob(CL_S3, z3.And(*goals), s1, aliasing=z3.StringVal(alias), how=z3.StringVal("replaced" if replaced else "in-place"))
                touched = {lst.h} | ({x.h for x in top.items} if in_place and not replaced else set())
                ob("set_shape_memo:S3:modifies-only-the-stack-list(and-the-frame's-own-dicts-when-restoring-in-place)", all(s1.heap.get(h) is o0 for h, o0 in heap0.items() if h not in touched), s1)
            else:
                ob(f"set_shape_memo:{shape}:no-op-without-a-context", all(s1.heap.get(h) is o0 for h, o0 in heap0.items()), s1)

    # ------------------------------------------------------------------ push_shape_memo
    for shape in ("S1", "S2", "S3"):
        st, root, lst, top = shape_state(shape)
        args_ref = st.alloc(DictObj(STR, U, tag="arguments"))
        a0 = st.get(args_ref)
        heap0 = dict(st.heap)
        outs = run_fn("push_shape_memo", st, engine_for("push_shape_memo", st, root), [args_ref])
        ob(f"push_shape_memo:{shape}:single-path", len(outs) == 1)
        for s1, o in outs:
            r1 = s1.get(root)
            l_ref = r1.attrs.get("memo_stack")
            ok = o.kind == "return" and isinstance(o.val, Tup) and len(o.val.items) == 4 and isinstance(l_ref, Ref)
            ob(f"push_shape_memo:{shape}:returns-the-new-frame", ok, s1)
            if not ok:
                continue
            l1 = s1.get(l_ref)
            before = heap0[lst.h].items if lst is not None else []
            grown = len(l1.items) == len(before) + 1 and all(a is b for a, b in zip(l1.items, before)) and l1.items[-1] is o.val
            ob(f"push_shape_memo:{shape}:stack-is-old-stack-plus-exactly-the-returned-frame", grown and (lst is None or l_ref.h == lst.h), s1)
            fresh = all(isinstance(x, Ref) and x.h not in heap0 for x in o.val.items) and len({x.h for x in o.val.items}) == 4
            ob(f"push_shape_memo:{shape}:frame-dicts-are-fresh-objects", fresh, s1)
            if fresh:
                k = z3.FreshConst(STR, "k")
                for x in o.val.items[:3]:
                    ob(f"push_shape_memo:{shape}:axis-and-structure-memos-start-empty", z3.Not(s1.get(x).d[k]), s1)
                A = s1.get(o.val.items[3])
                ob(f"push_shape_memo:{shape}:argument-memo-is-a-copy-of-the-arguments", z3.And(A.m == a0.m, A.d == a0.d), s1)
            ob(f"push_shape_memo:{shape}:caller-arguments-dict-untouched", s1.get(args_ref) is a0, s1)

    # ------------------------------------------------------------------ pop_shape_memo
    for shape in ("S3", "S2", "S1"):
        st, root, lst, top = shape_state(shape)
        heap0 = dict(st.heap)
        outs = run_fn("pop_shape_memo", st, engine_for("pop_shape_memo", st, root), [])
        for s1, o in outs:
            if shape == "S3":
                l1 = s1.get(lst)
                ok = o.kind in ("normal", "return") and l1.items == [] and l1.lower is heap0[lst.h].lower
                ob("pop_shape_memo:S3:removes-exactly-the-top-frame", ok, s1)
                ob("pop_shape_memo:S3:modifies-only-the-stack-list", all(s1.heap.get(h) is o0 for h, o0 in heap0.items() if h != lst.h), s1)
            else:
                ob(f"pop_shape_memo:{shape}:requires-a-pushed-frame(raises-otherwise-without-effect)", o.kind == "raise" and all(s1.heap.get(h) is o0 for h, o0 in heap0.items()), s1)

    # ------------------------------------------------------------------ treepath label
    def tp_state(kind):
        st = State()
        if kind == "absent":
            root = st.alloc(Obj("threading.local", {}, tag="_treepath_storage"))
        elif kind == "none":
            root = st.alloc(Obj("threading.local", {"value": NONE}, tag="_treepath_storage"))
        else:
            root = st.alloc(Obj("threading.local", {"value": Z("str", z3.String("cur_label"))}, tag="_treepath_storage"))
        return st, root

    for kind in ("absent", "none", "set"):
        # get
        st, root = tp_state(kind)
        eng = Engine(mod)
        eng.globals["_treepath_storage"] = root
        for s1, o in run_fn("get_treepath_memo", st, eng, []):
            if kind == "set":
                ob("get_treepath_memo:set:returns-the-label", o.kind == "return" and isinstance(o.val, Z) and o.val.t.eq(z3.String("cur_label")), s1)
            else:
                ob(f"get_treepath_memo:{kind}:raises-AnnotationError", o.kind == "raise" and o.val.cls == "AnnotationError", s1)
        # set(index, structure) and set(None, structure)
        for idx_kind in ("int", "none"):
            st, root = tp_state(kind)
            eng = Engine(mod)
            eng.globals["_treepath_storage"] = root
            idx = Z("int", z3.Int("leaf_index")) if idx_kind == "int" else NONE
            structure = Z("str", z3.String("structure"))
            r0 = st.get(root)
            for s1, o in run_fn("set_treepath_memo", st, eng, [idx, structure]):
                if kind == "set":
                    ob("set_treepath_memo:set:raises-AnnotationError-and-keeps-the-label", o.kind == "raise" and o.val.cls == "AnnotationError" and s1.get(root) is r0, s1)
                else:
                    v = s1.get(root).attrs.get("value")
                    ok = o.kind in ("normal", "return") and isinstance(v, Z) and v.kind == "str"
                    ob(f"set_treepath_memo:{kind}:{idx_kind}:sets-a-label", ok, s1)
                    if ok and idx_kind == "int":
                        ob(f"set_treepath_memo:{kind}:label-is-Lbl(index,structure)", v.t == Lbl(z3.Int("leaf_index"), z3.String("structure")), s1)
                    if ok and idx_kind == "none":
                        ob(f"set_treepath_memo:{kind}:none-index-label-starts-with-delete-marker", z3.PrefixOf(z3.StringVal("~~delete~~"), v.t), s1)
        # clear
        st, root = tp_state(kind)
        eng = Engine(mod)
        eng.globals["_treepath_storage"] = root
        for s1, o in run_fn("clear_treepath_memo", st, eng, []):
            ob(f"clear_treepath_memo:{kind}:label-is-None-afterwards", o.kind in ("normal", "return") and isinstance(s1.get(root).attrs.get("value"), NoneV), s1)

    # ------------------------------------------------------------------ flatten flag
    def tf_state(kind):
        st = State()
        attrs = {} if kind == "absent" else {"value": Z("bool", z3.BoolVal(kind == "true"))}
        root = st.alloc(Obj("threading.local", attrs, tag="_treeflatten_storage"))
        return st, root

    for kind in ("absent", "true", "false"):
        st, root = tf_state(kind)
        eng = Engine(mod)
        eng.globals["_treeflatten_storage"] = root
        for s1, o in run_fn("get_treeflatten_memo", st, eng, []):
            want = kind == "true"
            ok = o.kind == "return" and isinstance(o.val, Z) and o.val.kind == "bool" and z3.is_true(z3.simplify(o.val.t)) == want and (z3.is_true(z3.simplify(o.val.t)) or z3.is_false(z3.simplify(o.val.t)))
            ob(f"get_treeflatten_memo:{kind}:returns-{want}", ok, s1)
        for fname, want in (("set_treeflatten_memo", True), ("clear_treeflatten_memo", False)):
            st, root = tf_state(kind)
            eng = Engine(mod)
            eng.globals["_treeflatten_storage"] = root
            for s1, o in run_fn(fname, st, eng, []):
                v = s1.get(root).attrs.get("value")
                ok = o.kind in ("normal", "return") and isinstance(v, Z) and v.kind == "bool" and (z3.is_true(z3.simplify(v.t)) if want else z3.is_false(z3.simplify(v.t)))
                ob(f"{fname}:{kind}:flag-is-{want}-afterwards", ok, s1)

    # string lemmas about labels (C16): distinct positions give distinct keys; a label never equals an identifier-initial key
    i, j = z3.Ints("i j")
    T, x = z3.Strings("T x")
    from ..engine import str_int
    obligations.append({"clause": "lemma:label-injective-in-leaf-index", "kind": "vc", "path": [], "meta": {},
                        "pc": [z3.Concat(Lbl(i, T), x) == z3.Concat(Lbl(j, T), x),
                               # str(int) is injective and contains no blank (assumed property of int.__str__)
                               z3.Implies(str_int(i) == str_int(j), i == j), z3.Not(z3.Contains(str_int(i), z3.StringVal(" "))), z3.Not(z3.Contains(str_int(j), z3.StringVal(" ")))],
                        "goal": i == j})
    y = z3.String("y")
    obligations.append({"clause": "lemma:labelled-key-never-equals-a-plain-identifier", "kind": "vc", "path": [], "meta": {},
                        "pc": [y == z3.Concat(Lbl(i, T), x), z3.Length(y) > 0, z3.SubString(y, 0, 1) != z3.StringVal("(")],  # identifiers do not start with '('
                        "goal": z3.BoolVal(False)})
    obligations.append({"clause": "canary:label-lemma-assumptions-satisfiable", "kind": "canary", "path": [], "meta": {},
                        "pc": [y == z3.Concat(Lbl(i, T), x)], "goal": z3.BoolVal(False)})
    return {
        "unit": NAME,
        "functions": functions,
        "obligations": obligations,
        "paths": paths,
        "stats": {},
        "assumptions": [
            "threading.local gives every thread its own attribute namespace (T5)",
            "structural (handle-identity) obligations of this unit are decided by the executor's heap bookkeeping; the solver only decides their path conditions and the content equalities",
            "int.__str__ is injective and blank-free; identifiers do not start with '('",
        ],
    }
