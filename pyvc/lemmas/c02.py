"""C02 lemma layer (no code involved): the greedy left-to-right check (spec.c01.axis_step, the function the real
_check_dims is proved equal to) accepts exactly when ONE assignment alpha of sizes to axis names satisfies every axis
seen so far -- for single-axis specifiers (anonymous, fixed, named incl. '#' and '?', symbolic under the property's own
side condition). Multi-axis ('*name') specifiers are NOT covered here (bounded stand-ins b01/b02).

Declarative side:   AxisSat(d, s, alpha):  '_' true | fixed n: s == n or (# and s == 1) | named x: s == alpha(key(x)) or (# and s == 1)
                    | symbolic e: s == EvalA(e, alpha) or (# and s == 1)
State meaning:      alpha extends memo  :=  forall k. memo has k  ==>  memo[k] == alpha(k)
Obligations (quantifier-free after Skolemising alpha as an uninterpreted function and the universally quantified key):
  soundness     step accepts with memo'  /\\  alpha extends memo'   ==>  AxisSat(d, s, alpha)  /\\  alpha extends memo
  completeness  alpha extends memo  /\\  AxisSat(d, s, alpha)       ==>  step accepts  /\\  alpha extends memo'
  monotone      step accepts ==> memo subset memo'          base: every alpha extends the empty memo
Order independence then needs no commutation proof: 'exists alpha satisfying a SET of axis events' does not mention an order;
by induction over the events (meta-step T6) greedy acceptance of any order  <=>  Sat of the set.
"""
from __future__ import annotations

import z3

from ..spec import c01
from ..units import arrays_common as AC
from ..source import Module
from ..values import BOOL, INT, STR


def build(repo=None):
    mod = Module("jaxtyping/_array_types.py", repo)
    dt = AC.dim_datatype(mod)
    ops = AC.Z3Ops(dt)
    d = z3.Const("d", dt.sort)
    s = z3.Int("s")
    m, dm = z3.Const("memo_m", AC.MEMO_M), z3.Const("memo_d", AC.MEMO_D)
    alpha = z3.Function("alpha", STR, INT)
    EvalA = z3.Function("EvalUnderAssignment", STR, INT)  # value of a symbolic expression under the total assignment alpha
    verdict, (m2, d2) = c01.axis_step(ops, d, s, (m, dm))
    key = c01.axis_key(ops, d)
    k = z3.String("k")  # Skolem key
    ext = lambda mm, dd, kk: z3.Implies(dd[kk], mm[kk] == alpha(kk))
    is_named, is_fixed, is_sym, is_anon = dt.is_cls(d, "_NamedDim"), dt.is_cls(d, "_FixedDim"), dt.is_cls(d, "_SymbolicDim"), dt.is_cls(d, "_anonymous_dim")
    bc = z3.If(is_named, dt.field(d, "_NamedDim", "broadcastable"), z3.If(is_fixed, dt.field(d, "_FixedDim", "broadcastable"), dt.field(d, "_SymbolicDim", "broadcastable")))
    # the symbolic axis under the property's side condition: its expression evaluates (tags 0) and mentions only bound names, so
    # its value over the memo equals its value under every alpha extending the memo
    t1, src = ops.eval_fstring(dt.field(d, "_SymbolicDim", "elem"))
    t2, val = ops.eval_expr(src, (m, dm))
    sym_side = z3.Implies(is_sym, z3.And(t1 == 0, t2 == 0, val == EvalA(src)))
    label_ok = z3.Implies(z3.And(is_named, dt.field(d, "_NamedDim", "treepath")), AC.HasLabel)  # '?' axes are used inside a structured PyTree (C16)
    single = z3.Or(is_named, is_fixed, is_sym, is_anon)
    sat = z3.Or(is_anon, z3.And(bc, s == 1),
                z3.And(is_fixed, dt.field(d, "_FixedDim", "size") == s),
                z3.And(is_named, alpha(key) == s),
                z3.And(is_sym, EvalA(src) == s))
    pre = [single, sym_side, label_ok]
    obl = []

    def ob(clause, pc, goal):
        obl.append({"clause": clause, "kind": "vc", "pc": pre + pc, "goal": goal, "path": [], "meta": {"d": d, "s": s}, "serves": ["C02"]})

    # soundness: hypotheses instantiated at the Skolem key k and at the axis key
    ob("C02:lemma:greedy-step-sound(accept => every assignment extending the new memo satisfies the axis and extends the old memo)",
       [verdict == 0, ext(m2, d2, k), ext(m2, d2, key)], z3.And(sat, ext(m, dm, k)))
    # completeness
    ob("C02:lemma:greedy-step-complete(an assignment extending the memo that satisfies the axis => accept, and it extends the new memo)",
       [ext(m, dm, k), ext(m, dm, key), sat], z3.And(verdict == 0, ext(m2, d2, k)))
    ob("C02:lemma:accepting-step-only-adds-bindings(monotone)", [verdict == 0, dm[k]], z3.And(d2[k], m2[k] == m[k]))
    v3, (m3, d3) = c01.axis_step(ops, d, s, (m2, d2))
    obl.append({"clause": "C04:lemma:accepting-step-is-idempotent(repeating a passed check passes again and changes no binding)", "kind": "vc", "pc": pre + [verdict == 0],
                "goal": z3.And(v3 == 0, m3 == m2, d3 == d2), "path": [], "meta": {"d": d, "s": s}, "serves": ["C02", "C04"]})
    ob("C02:lemma:every-assignment-extends-the-empty-memo(base)", [dm == z3.K(STR, z3.BoolVal(False))], ext(m, dm, k))
    # a non-accepting verdict under the side conditions is a plain reject (no AnnotationError / propagated exception)
    ob("C02:lemma:under-the-side-conditions-the-step-either-accepts-or-rejects", [], z3.Or(verdict == 0, verdict == 1))
    obl.append({"clause": "canary:c02-lemma-preconditions-satisfiable", "kind": "canary", "pc": pre + [verdict == 0, is_named], "goal": z3.BoolVal(False), "path": [], "meta": {}})
    return {"obligations": obl, "assumptions": [
        "lemma layer: the value of a symbolic axis expression depends only on the names it mentions (EvalVal over the memo == value under any assignment extending it), the property's own side condition",
        "the induction over the sequence of axis events that lifts the step lemmas to whole calls is the meta-step T6; multi-axis specifiers are outside this lemma (bounded stand-ins b01/b02)",
    ]}
