"""Replays refuted obligations of unit storage natively. The counter-models of this unit are structural (handle identities, stack
shapes), so the witness is searched natively: the concrete contract checks of every _storage function (bounded/b00, quick bounds)
are run against the same tree and the first failing case -- a concrete call sequence with its reproducing snippet -- is the witness."""
import json, os, subprocess, sys, argparse
ap = argparse.ArgumentParser(); ap.add_argument("--repo"); a = ap.parse_args()
payload = json.load(sys.stdin)
here = os.path.dirname(os.path.dirname(os.path.abspath(__file__)))
p = subprocess.run([sys.executable, os.path.join(here, "bounded", "b00_storage_contracts.py"), "--tier", "quick", "--repo", a.repo], capture_output=True, text=True, timeout=280,
                   env=dict(os.environ, PYTHONPATH=a.repo + os.pathsep + here))
res = None
for line in reversed(p.stdout.splitlines()):
    if line.startswith("{"):
        try:
            res = json.loads(line)
            break
        except ValueError:
            pass
if res is None:
    print(json.dumps({"reproduced": None, "error": (p.stderr or p.stdout)[-800:]}))
else:
    f = res.get("failures", [])
    print(json.dumps({"reproduced": bool(f), "model_concrete": False, "searched": res.get("evaluations"), "failures": f[:3], "snippet": (f[0].get("snippet") if f else None)}, default=str))
