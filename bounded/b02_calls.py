"""Bounded stand-in for C02: a checked call is accepted iff ONE consistent axis assignment exists.

Also hosts the generator / reference matcher shared with b13_messages.py and b17_tracing.py.

Everything in the "reference semantics" section is written from the property statement and
/repo/docs/api/array.md; it never calls into jaxtyping and does not mimic its greedy bind-or-compare
walk: satisfiability is decided by brute-force enumeration of whole assignments.
"""
import itertools
import os
import random
import re
import sys
import time
import warnings

_HERE = os.path.dirname(os.path.abspath(__file__))
if _HERE not in sys.path:
    sys.path.insert(0, _HERE)

# --------------------------------------------------------------------------------------
# reference semantics (own dim-string parser + brute-force matcher)
# --------------------------------------------------------------------------------------

TOKENS = ("a", "b", "#a", "_", "2", "*c", "*#c", "...", "a+1")
MULTI_TOKENS = ("*c", "*#c", "...")
SYMBOLIC_TOKENS = ("a+1",)
SIZES = (1, 2, 3)
ALL_SHAPES = tuple([()] + [(i,) for i in SIZES] + [(i, j) for i in SIZES for j in SIZES])  # 13 shapes
RANK1_SHAPES = tuple(s for s in ALL_SHAPES if len(s) <= 1)  # 4 shapes
SIZE_DOMAIN = (0, 1, 2, 3, 4)  # candidate values of an axis name
SHAPE_DOMAIN = tuple(  # candidate values of a '*name'
    [()] + [(i,) for i in SIZE_DOMAIN] + [(i, j) for i in SIZE_DOMAIN for j in SIZE_DOMAIN]
)

_IDENT = re.compile(r"[A-Za-z_][A-Za-z_0-9]*")


def parse_dims(dim_str):
    """docs/api/array.md: space separated symbols; modifiers '*', '#', '_', '?' may be prepended in any
    order; 'name=' is documentation only; '...' == '*_'; anything else that is neither an int nor an
    identifier is a symbolic expression.  -> tuple of token tuples:
       ('anon',) ('anyvar',) ('fixed', n, bcast) ('named', name, bcast) ('var', name, bcast) ('sym', expr, bcast)"""
    out = []
    for raw in dim_str.split():
        if raw == "...":
            out.append(("anyvar",))
            continue
        tok = raw
        variadic = bcast = anon = False
        while tok and tok[0] in "*#_?":
            if tok[0] == "*":
                variadic = True
            elif tok[0] == "#":
                bcast = True
            elif tok[0] == "_":
                anon = True
            else:
                raise ValueError("'?' axes are outside the modelled grammar")
            tok = tok[1:]
        if "=" in tok and not any(ch in tok for ch in "<>!") and tok.count("=") == 1:
            tok = tok.split("=", 1)[1]
        if anon:
            out.append(("anyvar",) if variadic else ("anon",))
        elif variadic:
            if not tok.isidentifier():
                raise ValueError(f"bad variadic token {raw!r}")
            out.append(("var", tok, bcast))
        elif tok.isdigit():
            out.append(("fixed", int(tok), bcast))
        elif tok.isidentifier():
            out.append(("named", tok, bcast))
        else:
            out.append(("sym", tok, bcast))
    if sum(1 for t in out if t[0] in ("var", "anyvar")) > 1:
        raise ValueError("more than one multi-axis token")
    return tuple(out)


_PARSE_CACHE = {}


def parsed(dim_str):
    try:
        return _PARSE_CACHE[dim_str]
    except KeyError:
        r = _PARSE_CACHE[dim_str] = parse_dims(dim_str)
        return r


def broadcastable_to(shape, target):
    """numpy broadcasting: `shape` can be broadcast TO `target` (right aligned, each axis equal or 1)."""
    if len(shape) > len(target):
        return False
    for s, t in zip(reversed(shape), reversed(target)):
        if s != t and s != 1:
            return False
    return True


def _single_ok(tok, size, sigma):
    kind = tok[0]
    if kind == "anon":
        return True
    if tok[2] and size == 1:  # '#': "can be that size or equal to one"
        return True
    if kind == "fixed":
        return size == tok[1]
    if kind == "named":
        return size == sigma[tok[1]]
    if kind == "sym":
        return size == eval(tok[1], {"__builtins__": {}}, dict(sigma))
    raise AssertionError(tok)


def match_array(tokens, shape, sigma, tau):
    """does `shape` match the parsed dims under the assignment (sigma: name->size, tau: name->shape)?"""
    multi = [i for i, t in enumerate(tokens) if t[0] in ("var", "anyvar")]
    if not multi:
        if len(shape) != len(tokens):
            return False
        return all(_single_ok(t, s, sigma) for t, s in zip(tokens, shape))
    i = multi[0]
    n_after = len(tokens) - i - 1
    if len(shape) < i + n_after:
        return False
    head, mid, tail = shape[:i], shape[i:len(shape) - n_after], shape[len(shape) - n_after:]
    if not all(_single_ok(t, s, sigma) for t, s in zip(tokens[:i], head)):
        return False
    if not all(_single_ok(t, s, sigma) for t, s in zip(tokens[i + 1:], tail)):
        return False
    vt = tokens[i]
    if vt[0] == "anyvar":
        return True
    target = tau[vt[1]]
    if vt[2]:  # '*#c': broadcasting is acceptable
        return broadcastable_to(mid, target)
    return tuple(mid) == tuple(target)


# annotation model nodes: ("arr", dims_str) | ("union", (node, ...)) | ("tree", leaf node, structure name or None)
# values: arr/union -> shape tuple ; tree -> (structure key, tuple of leaf values)


def holds(node, value, sigma, tau):
    k = node[0]
    if k == "arr":
        return match_array(parsed(node[1]), tuple(value), sigma, tau)
    if k == "union":
        return any(holds(alt, value, sigma, tau) for alt in node[1])
    if k == "tree":
        return all(holds(node[1], leaf, sigma, tau) for leaf in value[1])
    raise AssertionError(node)


def structure_bindings(constraints):
    """structure name -> set of structure keys demanded by the (top-level) PyTree annotations."""
    out = {}
    for node, value in constraints:
        if node[0] == "tree" and node[2] is not None:
            out.setdefault(node[2], set()).add(value[0])
    return out


def structures_consistent(constraints):
    return all(len(v) == 1 for v in structure_bindings(constraints).values())


def node_names(node, singles, variadics):
    k = node[0]
    if k == "arr":
        for t in parsed(node[1]):
            if t[0] == "named":
                singles.add(t[1])
            elif t[0] == "var":
                variadics.add(t[1])
            elif t[0] == "sym":
                singles.update(_IDENT.findall(t[1]))
    elif k == "union":
        for alt in node[1]:
            node_names(alt, singles, variadics)
    elif k == "tree":
        node_names(node[1], singles, variadics)


def solutions(constraints):
    """all assignments (sigma, tau) over the bounded domain under which every (node, value) holds."""
    singles, variadics = set(), set()
    for node, _ in constraints:
        node_names(node, singles, variadics)
    singles, variadics = sorted(singles), sorted(variadics)
    for svals in itertools.product(SIZE_DOMAIN, repeat=len(singles)):
        sigma = dict(zip(singles, svals))
        for tvals in itertools.product(SHAPE_DOMAIN, repeat=len(variadics)):
            tau = dict(zip(variadics, tvals))
            if all(holds(n, v, sigma, tau) for n, v in constraints):
                yield sigma, tau


_SAT_CACHE = {}


def satisfiable(constraints):
    key = tuple(constraints)
    try:
        return _SAT_CACHE[key]
    except KeyError:
        pass
    r = False
    if structures_consistent(constraints):
        for _ in solutions(constraints):
            r = True
            break
    if len(_SAT_CACHE) > 400000:
        _SAT_CACHE.clear()
    _SAT_CACHE[key] = r
    return r


# --------------------------------------------------------------------------------------
# generator
# --------------------------------------------------------------------------------------


def all_dim_strings(max_tokens=2):
    out = [""]
    for n in range(1, max_tokens + 1):
        for combo in itertools.product(TOKENS, repeat=n):
            if sum(1 for t in combo if t in MULTI_TOKENS) <= 1:
                out.append(" ".join(combo))
    return out


DIM_STRINGS = tuple(all_dim_strings(2))  # 82


def uses_symbolic(dim_str):
    return any(t in SYMBOLIC_TOKENS for t in dim_str.split())


def binds_plain_a(dim_str):
    """a parameter 'binds a' only through a plain `a` token (a `#a` axis of size 1 determines nothing; excluded)."""
    return "a" in dim_str.split()


def order_is_valid(param_dims):
    """symbolic tokens only where `a` was bound by an EARLIER parameter."""
    bound = False
    for d in param_dims:
        if uses_symbolic(d) and not bound:
            return False
        bound = bound or binds_plain_a(d)
    return True


def signature_is_valid(param_dims, ret_dims):
    if not order_is_valid(param_dims):
        return False
    if uses_symbolic(ret_dims) and not any(binds_plain_a(d) for d in param_dims):
        return False
    return True


def valid_permutations(param_dims):
    n = len(param_dims)
    out = []
    for perm in itertools.permutations(range(n)):
        if order_is_valid([param_dims[i] for i in perm]):
            out.append(perm)
    return out


def random_signature(rng, n_params, dim_pool=DIM_STRINGS):
    while True:
        params = []
        for _ in range(n_params):
            params.append(rng.choice(dim_pool))
        ret = rng.choice(dim_pool)
        if signature_is_valid(params, ret):
            return tuple(params), ret


def _guided_shape(dim_str, sigma, tau, rng):
    """a shape that matches dim_str under (sigma, tau) when one exists within rank<=2 / sizes 1..3, else None."""
    toks = parsed(dim_str)
    n_single = sum(1 for t in toks if t[0] not in ("var", "anyvar"))
    out = []
    for t in toks:
        k = t[0]
        if k == "anon":
            out.append(rng.choice(SIZES))
        elif k == "anyvar":
            r = rng.randint(0, max(0, 2 - n_single))
            out.extend(rng.choice(SIZES) for _ in range(r))
        elif k == "var":
            sh = list(tau[t[1]])
            if t[2]:
                if sh and rng.random() < 0.3:
                    sh = sh[1:]
                sh = [1 if rng.random() < 0.3 else s for s in sh]
            out.extend(sh)
        else:
            if k == "fixed":
                v = t[1]
            elif k == "named":
                v = sigma[t[1]]
            else:
                v = eval(t[1], {"__builtins__": {}}, dict(sigma))
            if t[2] and rng.random() < 0.4:
                v = 1
            out.append(v)
    if len(out) > 2 or any(s not in SIZES for s in out):
        return None
    return tuple(out)


def sample_shape_tuples(rng, dims_list, n_guided, n_random):
    """shape tuples for a list of dim strings: guided (drawn from a random assignment, so mostly satisfiable),
    one-shape mutations of guided ones (mostly near-miss), and uniformly random ones."""
    out, seen = [], set()

    def add(t):
        t = tuple(t)
        if t not in seen:
            seen.add(t)
            out.append(t)

    for _ in range(n_guided):
        sigma = {"a": rng.choice(SIZES), "b": rng.choice(SIZES)}
        r = rng.choice((0, 1, 1, 2))
        tau = {"c": tuple(rng.choice(SIZES) for _ in range(r))}
        shapes = []
        for d in dims_list:
            s = _guided_shape(d, sigma, tau, rng)
            shapes.append(s if s is not None else rng.choice(ALL_SHAPES))
        add(shapes)
        mutated = list(shapes)
        j = rng.randrange(len(mutated))
        s = list(mutated[j])
        if s and rng.random() < 0.7:
            k = rng.randrange(len(s))
            s[k] = rng.choice([x for x in SIZES if x != s[k]])
            mutated[j] = tuple(s)
        else:
            mutated[j] = rng.choice(ALL_SHAPES)
        add(mutated)
    for _ in range(n_random):
        add([rng.choice(ALL_SHAPES) for _ in dims_list])
    return out


def is_nontrivial(dims_list):
    """cross-annotation consistency is in play: some axis name / '*name' is used by >= 2 annotations,
    or a symbolic axis is present."""
    seen, shared = set(), False
    for d in dims_list:
        s, v = set(), set()
        node_names(("arr", d), s, v)
        names = {("s", x) for x in s} | {("v", x) for x in v}
        if names & seen:
            shared = True
        seen |= names
    return shared


# --------------------------------------------------------------------------------------
# building real functions / dataclasses
# --------------------------------------------------------------------------------------

GEN_MODULE = "b02gen"


def ann_expr(dims, array="np.ndarray"):
    return f'Float[{array}, "{dims}"]'


def function_source(name, order, ann_exprs, ret_expr, body="return RET"):
    """order: parameter names in signature order; ann_exprs: name -> annotation source."""
    args = ", ".join(f"{p}: {ann_exprs[p]}" for p in order)
    ret = f" -> {ret_expr}" if ret_expr is not None else ""
    return f"def {name}({args}){ret}:\n    {body}\n"


def dataclass_source(name, order, ann_exprs):
    fields = "\n".join(f"    {p}: {ann_exprs[p]}" for p in order)
    return f"@dataclasses.dataclass\nclass {name}:\n{fields}\n"


def base_globals():
    import dataclasses
    import typing

    import numpy as np

    import jaxtyping

    g = {
        "__name__": GEN_MODULE,
        "np": np,
        "Float": jaxtyping.Float,
        "PyTree": jaxtyping.PyTree,
        "Union": typing.Union,
        "dataclasses": dataclasses,
        "RET": None,
    }
    return g


VARIANTS = (("new", "typeguard"), ("new", "beartype"), ("old", "typeguard"), ("old", "beartype"))


def get_checker(name):
    if name == "typeguard":
        import typeguard

        return typeguard.typechecked
    import beartype

    return beartype.beartype


def decorate(raw, style, checker):
    from jaxtyping import jaxtyped

    tc = get_checker(checker)
    with warnings.catch_warnings():
        warnings.simplefilter("ignore")
        if style == "new":
            return jaxtyped(typechecker=tc)(raw)
        return jaxtyped(tc(raw))


def decorator_source(style, checker):
    tc = "typeguard.typechecked" if checker == "typeguard" else "beartype.beartype"
    if style == "new":
        return f"f = jaxtyped(typechecker={tc})(f)"
    return f"f = jaxtyped({tc}(f))  # old spelling (DeprecationWarning)"


def call(fn, args, kwargs):
    """-> ('accept', None) | (exception class name, exception)"""
    try:
        with warnings.catch_warnings():
            warnings.simplefilter("ignore")
            fn(*args, **kwargs)
    except Exception as e:  # results, never harness crashes
        return type(e).__name__, e
    return "accept", None


def snippet_for(form, style, checker, order, dims, ret_dims, shapes, ret_shape, passing):
    lines = [
        "import numpy as np, typeguard, beartype, dataclasses",
        "from jaxtyping import Float, jaxtyped",
    ]
    anns = {p: ann_expr(dims[p]) for p in order}
    tc = "typeguard.typechecked" if checker == "typeguard" else "beartype.beartype"
    if form == "dataclass":
        lines.append(f"@jaxtyped(typechecker={tc})")
        lines.append(dataclass_source("f", order, anns).rstrip())
    else:
        lines.append(f"RET = np.zeros({tuple(ret_shape)!r})")
        lines.append(function_source("f", order, anns, ann_expr(ret_dims)).rstrip())
        lines.append(decorator_source(style, checker))
    if passing == "pos":
        a = ", ".join(f"np.zeros({tuple(shapes[p])!r})" for p in order)
    else:
        a = ", ".join(f"{p}=np.zeros({tuple(shapes[p])!r})" for p in sorted(order))
    lines.append(f"f({a})")
    return "\n".join(lines)


# --------------------------------------------------------------------------------------
# the C02 harness
# --------------------------------------------------------------------------------------


def make_specs(tier, seed):
    """deterministic list of work items: dict(params, ret, cases=[(param shapes..., ret shape)], perms, dataclass, stratum)"""
    rng = random.Random(seed * 7919 + (1 if tier == "quick" else 2))
    specs = []
    # stratum A (exhaustive): single-token dims, shapes of rank <= 1
    if tier == "quick":
        for t0, t1 in itertools.product(TOKENS, repeat=2):
            if not signature_is_valid((t0, t1), "..."):
                continue
            cases = [(s0, s1, ()) for s0 in RANK1_SHAPES for s1 in RANK1_SHAPES]
            specs.append(dict(params=(t0, t1), ret="...", cases=cases, perms="all", dataclass=True, stratum="A"))
    else:
        for t0, t1, tr in itertools.product(TOKENS, repeat=3):
            if not signature_is_valid((t0, t1), tr):
                continue
            cases = [(s0, s1, sr) for s0 in RANK1_SHAPES for s1 in RANK1_SHAPES for sr in RANK1_SHAPES]
            specs.append(dict(params=(t0, t1), ret=tr, cases=cases, perms="all", dataclass=(tr == "..."), stratum="A"))
    # stratum B (sampled): <=2-token dims, 1..3 (thorough: 1..4) parameters, shapes of rank 0..2
    if tier == "quick":
        plan = {1: 60, 2: 220, 3: 220}
        n_guided, n_random, max_perms = 3, 2, 3
    else:
        plan = {1: 400, 2: 1300, 3: 1300, 4: 500}
        n_guided, n_random, max_perms = 5, 2, 6
    seen = set()
    for n_params, count in plan.items():
        made = 0
        while made < count:
            params, ret = random_signature(rng, n_params)
            if (params, ret) in seen:
                continue
            seen.add((params, ret))
            made += 1
            cases = sample_shape_tuples(rng, list(params) + [ret], n_guided, n_random)
            perms = valid_permutations(params)
            ident = tuple(range(n_params))
            others = [p for p in perms if p != ident]
            rng.shuffle(others)
            perms = [ident] + others[: max_perms - 1]
            specs.append(dict(params=params, ret=ret, cases=cases, perms=perms, dataclass=(made % 3 == 0), stratum="B"))
    return specs


def run_spec(spec):
    """runs the real code on one work item; returns dict(evals, keys, failures, sample)"""
    import numpy as np

    import jaxtyping

    params, ret = spec["params"], spec["ret"]
    n = len(params)
    names = [f"p{i}" for i in range(n)]
    dims = dict(zip(names, params))
    perms = valid_permutations(params) if spec["perms"] == "all" else spec["perms"]
    anns = {p: ann_expr(dims[p]) for p in names}
    nontrivial_fn = is_nontrivial(list(params) + [ret])
    nontrivial_dc = is_nontrivial(list(params))
    evals = 0
    keys = []
    failures = []
    sample = None

    # expected verdicts
    exp_fn, exp_dc = {}, {}
    for case in spec["cases"]:
        cons = tuple((("arr", d), s) for d, s in zip(list(params) + [ret], case))
        exp_fn[case] = satisfiable(cons)
        exp_dc[case[:-1]] = satisfiable(cons[:-1])

    def record(form, style, checker, order, passing, case, expected, got, exc):
        if form == "function":
            ok = (got == "accept") if expected else (got != "accept")
            clause = "accept-iff-satisfiable"
            if ok and not expected and style == "new" and not isinstance(exc, jaxtyping.TypeCheckError):
                ok, clause = False, "error-class"
            if ok and not expected and not isinstance(exc, TypeError) and style == "new":
                ok, clause = False, "error-class"
        else:
            ok = (got == "accept") if expected else (got != "accept")
            clause = "accept-iff-satisfiable"
            if ok and not expected and not isinstance(exc, jaxtyping.TypeCheckError):
                ok, clause = False, "error-class"
        if ok:
            return
        shapes = dict(zip(names, case))
        failures.append(
            dict(
                case=f"{clause}:{form}:{style}-{checker}:expected-{'accept' if expected else 'reject'}:got-{got}",
                clause=clause,
                input=dict(
                    form=form, style=style, checker=checker, signature_order=list(order), passing=passing,
                    annotations={p: dims[p] for p in names}, return_annotation=(ret if form == "function" else None),
                    shapes={p: list(shapes[p]) for p in names},
                    return_shape=(list(case[-1]) if form == "function" else None),
                ),
                expected="accept" if expected else "reject (jaxtyping.TypeCheckError)" if style == "new" else "reject",
                actual=got if exc is None else f"{got}: {str(exc)[:300]}",
                snippet=snippet_for(form, style, checker, order, dims, ret, shapes, case[-1] if form == "function" else (), passing),
            )
        )

    per_case_verdicts = {}  # (form, case) -> {variant id: accept?}
    for perm in perms:
        order = [names[i] for i in perm]
        for style, checker in VARIANTS:
            g = base_globals()
            exec(function_source("f", order, anns, ann_expr(ret)), g)
            fn = decorate(g["f"], style, checker)
            for case in spec["cases"]:
                g["RET"] = np.zeros(case[-1])
                arrs = {p: np.zeros(s) for p, s in zip(names, case)}
                for passing in ("pos", "kw"):
                    if passing == "pos":
                        got, exc = call(fn, [arrs[p] for p in order], {})
                    else:
                        got, exc = call(fn, [], dict(arrs))
                    evals += 1
                    record("function", style, checker, order, passing, case, exp_fn[case], got, exc)
                    per_case_verdicts.setdefault(("function", case), {})[(tuple(order), style, checker, passing)] = got == "accept"
                    if sample is None and nontrivial_fn:
                        sample = dict(
                            signature=function_source("f", order, anns, ann_expr(ret)).splitlines()[0],
                            shapes=[list(s) for s in case], oracle="accept" if exp_fn[case] else "reject",
                            actual=got, variant=f"{style}-{checker}-{passing}",
                        )
        if spec["dataclass"]:
            for checker in ("typeguard", "beartype"):
                g = base_globals()
                exec(dataclass_source("C", order, anns), g)
                from jaxtyping import jaxtyped

                with warnings.catch_warnings():
                    warnings.simplefilter("ignore")
                    cls = jaxtyped(typechecker=get_checker(checker))(g["C"])
                for pcase in exp_dc:
                    arrs = {p: np.zeros(s) for p, s in zip(names, pcase)}
                    for passing in ("pos", "kw"):
                        if passing == "pos":
                            got, exc = call(cls, [arrs[p] for p in order], {})
                        else:
                            got, exc = call(cls, [], dict(arrs))
                        evals += 1
                        record("dataclass", "new", checker, order, passing, pcase + ((),), exp_dc[pcase], got, exc)
                        per_case_verdicts.setdefault(("dataclass", pcase), {})[(tuple(order), "new", checker, passing)] = got == "accept"

    # independence clauses: the verdict must not vary with order / passing / checker / spelling
    for (form, case), verdicts in per_case_verdicts.items():
        if len(set(verdicts.values())) > 1:
            dims_varying = []
            for idx, label in ((0, "parameter-order"), (3, "positional-vs-keyword"), (2, "typechecker"), (1, "decorator-spelling")):
                groups = {}
                for k, v in verdicts.items():
                    rest = tuple(x for i, x in enumerate(k) if i != idx)
                    groups.setdefault(rest, set()).add(v)
                if any(len(v) > 1 for v in groups.values()):
                    dims_varying.append(label)
            acc = sorted(str(k) for k, v in verdicts.items() if v)
            rej = sorted(str(k) for k, v in verdicts.items() if not v)
            k_acc = min(k for k, v in verdicts.items() if v)
            k_rej = min(k for k, v in verdicts.items() if not v)
            shapes = dict(zip(names, case))
            two = []
            for (k_order, k_style, k_checker, k_passing), verdict in ((k_acc, "accepted"), (k_rej, "rejected")):
                two.append(f"# variant that is {verdict}:\n" + snippet_for(form, k_style, k_checker, list(k_order), dims, ret, shapes,
                                                                          case[-1] if form == "function" else (), k_passing))
            failures.append(
                dict(
                    case=f"verdict-independence:{form}:varies-with-{'+'.join(dims_varying) or 'combination'}",
                    clause="verdict-independence",
                    input=dict(form=form, annotations=dims, return_annotation=ret if form == "function" else None, shapes=[list(s) for s in case]),
                    expected="same verdict for every (order, spelling, checker, passing)",
                    actual=dict(accepting=acc[:4], rejecting=rej[:4], n_accepting=len(acc), n_rejecting=len(rej)),
                    snippet="\n".join(two),
                )
            )
    for case in spec["cases"]:
        if nontrivial_fn:
            keys.append(("function", params, ret, case))
    if spec["dataclass"] and nontrivial_dc:
        for pcase in exp_dc:
            keys.append(("dataclass", params, pcase))
    n_acc = sum(1 for v in exp_fn.values() if v)
    return dict(evals=evals, keys=keys, failures=failures, sample=sample, n_accept=n_acc, n_reject=len(exp_fn) - n_acc)


def _worker(chunk):
    out = []
    for spec in chunk:
        out.append(run_spec(spec))
    return out


def _init_worker(repo):
    import jaxtyping

    real = os.path.realpath(os.path.dirname(os.path.dirname(jaxtyping.__file__)))
    assert real == os.path.realpath(repo), (real, repo)
    warnings.simplefilter("ignore")


def run_parallel(worker, items, repo, procs, chunk=8):
    """ordered, deterministic map over chunks of items using <= procs spawned processes."""
    import multiprocessing as mp

    chunks = [items[i:i + chunk] for i in range(0, len(items), chunk)]
    if procs <= 1 or len(chunks) <= 1:
        _init_worker(repo)
        return [r for c in chunks for r in worker(c)]
    # the workers' str hashes are pinned: beartype orders Union members through sets, so which alternative it tries
    # first (and hence how often a stale-binding message shows up) would otherwise vary from run to run
    os.environ["PYTHONHASHSEED"] = "0"
    ctx = mp.get_context("spawn")
    with ctx.Pool(min(procs, len(chunks)), initializer=_init_worker, initargs=(repo,)) as pool:
        res = pool.map(worker, chunks, chunksize=1)
    return [r for c in res for r in c]


def merge_failures(tally, failures):
    """one reported failure per stable case id (first witness in deterministic order) + occurrence count.
    A failure carrying a 'dedupe' key is counted once per distinct value of it (distinct inputs)."""
    by_case, seen = {}, {}
    for f in failures:
        c = f["case"]
        f = dict(f)
        d = f.pop("dedupe", None)
        if c not in by_case:
            f["occurrences"] = 0
            by_case[c] = f
            seen[c] = set()
        if d is None:
            by_case[c]["occurrences"] += 1
        elif d not in seen[c]:
            seen[c].add(d)
            by_case[c]["occurrences"] += 1
    for c in by_case:
        f = by_case[c]
        tally.fail(f.pop("case"), f.pop("clause"), **f)


def main():
    import _common

    a = _common.setup("C02 bounded stand-in: accepted iff one consistent assignment exists")
    procs = max(1, min(6, (os.cpu_count() or 3) - 2))  # workers; + this parent + the spawn resource tracker = at most 8 processes
    specs = make_specs(a.tier, a.seed)
    results = run_parallel(_worker, specs, a.repo, procs)
    tally = _common.Tally()
    failures = []
    n_acc = n_rej = 0
    sampled_arity = set()
    for spec, r in zip(specs, results):
        tally.evaluations += r["evals"]
        tally.distinct.update(r["keys"])
        failures.extend(r["failures"])
        n_acc += r["n_accept"]
        n_rej += r["n_reject"]
        if r["sample"] is not None and len(tally.samples) < 5 and spec["stratum"] == "B" and len(spec["params"]) not in sampled_arity:
            sampled_arity.add(len(spec["params"]))
            tally.samples.append(r["sample"])
    merge_failures(tally, failures)
    nA = sum(1 for s in specs if s["stratum"] == "A")
    nB = len(specs) - nA
    ncases = sum(len(s["cases"]) for s in specs)
    max_cases = max(len(s["cases"]) for s in specs if s["stratum"] == "B")
    max_perms = max(len(s["perms"]) for s in specs if s["stratum"] == "B")
    if a.tier == "quick":
        bound = (
            f"stratum A (exhaustive): all {nA} two-parameter functions whose dims are ONE token of "
            "{a,b,#a,_,2,*c,*#c,...,a+1} (a+1 only after a plain `a` parameter), return annotation '...', x all 16 pairs of argument shapes "
            "of rank<=1 over sizes {1,2,3}; "
            f"stratum B (seeded sample): {nB} distinct functions with 1..3 parameters + return annotation, dims = <=2 tokens of the same alphabet "
            "(<=1 multi-axis token; a+1 only in a parameter after one holding a plain `a`, or in the return annotation if some parameter holds a plain `a`), "
            f"<={max_cases} argument/return shape tuples each of rank 0..2 over sizes {{1,2,3}}; every case x <={max_perms} valid parameter orders (all orders in A) x "
            "{new,old spelling} x {typeguard 2.13,beartype} x {positional,keyword}; every third B function and all A functions also as a jaxtyped dataclass "
            f"(fields = the parameters, no return) x both checkers x orders x passing. {ncases} (function, shapes) cases in total."
        )
    else:
        bound = (
            f"stratum A (exhaustive): all {nA} functions (p0, p1) -> r whose three dims are ONE token of "
            "{a,b,#a,_,2,*c,*#c,...,a+1} (a+1 only after a plain `a` parameter) x all 64 triples of shapes of rank<=1 over sizes {1,2,3}; "
            f"stratum B (seeded sample): {nB} distinct functions with 1..4 parameters + return annotation, dims = <=2 tokens of the same alphabet "
            "(<=1 multi-axis token; a+1 only in a parameter after one holding a plain `a`, or in the return annotation if some parameter holds a plain `a`), "
            f"<={max_cases} argument/return shape tuples each of rank 0..2 over sizes {{1,2,3}}; every case x <={max_perms} valid parameter orders (all orders in A) x "
            "{new,old spelling} x {typeguard 2.13,beartype} x {positional,keyword}; every third B function (and A functions returning '...') also as a jaxtyped "
            f"dataclass x both checkers x orders x passing. {ncases} (function, shapes) cases in total."
        )
    rule = (
        "Oracle: brute-force search over ALL assignments axis-name->size in 0..4, '*name'->shape of rank<=2 over 0..4 (complete for argument sizes 1..3) for "
        "one assignment under which every argument and the return value match (own dim parser/matcher from docs/api/array.md: `#`=size may also be 1, "
        "`*#c`=matched axes numpy-broadcastable TO the value of c, `*c`=equal to it, `_`/`...` unchecked, `a+1` evaluated under the assignment). "
        "Expected: accept iff such an assignment exists; new spelling must raise jaxtyping.TypeCheckError (a TypeError), old spelling any exception. "
        "Shape tuples in B: drawn from a random assignment (satisfiable), one-axis/one-shape mutations of those (near misses), and uniform. "
        "Excluded as ambiguous in the statement: a+1 whose only earlier binder is `#a` or a token of the same annotation. "
        "A (function, shapes) case counts as distinct/non-trivial when some axis name or '*name' occurs in >=2 of its annotations or it has a symbolic axis; "
        "re-runs of it under other orders/checkers/spellings/passing are evaluations, not new cases."
    )
    _common.emit(tally, bound=bound, rule=rule, exhaustive=False, wall_s=round(time.time() - a.t0, 1), processes=procs + 2,
                 oracle_accept_cases=n_acc, oracle_reject_cases=n_rej)


if __name__ == "__main__":
    main()
