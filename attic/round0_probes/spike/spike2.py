"""Throw-away spike 2: rollback region of the REAL __instancecheck_str__ with object handles,
exceptions as outcomes, callee-by-contract.  Expect: 'binds nothing on failure/raise' proved for
result!="" and for Exception subclasses, REFUTED for a non-Exception BaseException (finding F4)."""
import ast, sys, itertools
from z3 import *
REPO = sys.argv[1] if len(sys.argv) > 1 else "/repo"
MOD = ast.parse(open(f"{REPO}/jaxtyping/_array_types.py").read())
fn = next(n for n in ast.walk(MOD) if isinstance(n, ast.FunctionDef) and n.name == "__instancecheck_str__")
# region = from the statement that calls get_shape_memo() to the end of the function
start = next(i for i, s in enumerate(fn.body) if isinstance(s, ast.Assign) and isinstance(s.value, ast.Call) and getattr(s.value.func, "id", "") == "get_shape_memo")
region = fn.body[start:]
M = DeclareSort("MapVal")                    # abstract dict contents (any of the four memos)
EMPTY = Const("EMPTY", M)
class Handle:                                # executor-level object identity, symbolic content
    n = itertools.count()
    def __init__(s, content, tag): s.content, s.tag, s.id = content, tag, next(Handle.n)
class St:
    def __init__(s, env, pc, top, log): s.env, s.pc, s.top, s.log, s.mut, s.cur_exc = dict(env), list(pc), top, list(log), {}, None
    def clone(s, **kw):
        t = St(s.env, s.pc, s.top, s.log); t.mut = dict(s.mut); t.cur_exc = s.cur_exc; t.__dict__.update(kw); return t
has_stack = Bool("has_stack")
EXC = ["ExceptionSub", "NonExceptionBase"]   # symbolic classes an opaque callee may raise

def call(name, args, st):
    """contracts of callees -> list of (state, value | ('raise', cls))"""
    if name == "get_shape_memo":
        a = st.clone(pc=st.pc + [has_stack]); ra = tuple(a.top)
        fresh = tuple(Handle(EMPTY, f"fresh{i}") for i in range(4))
        b = st.clone(pc=st.pc + [Not(has_stack)])
        return [(a, ra), (b, fresh)]
    if name == "copy":
        return [(st, Handle(args[0].content, "copy-of-" + args[0].tag))]
    if name == "_check_shape":
        outs = []
        obj, sm, vm, am = args
        def havoc(s0):
            s1 = s0.clone(); sm.content = FreshConst(M, "sigma"); vm.content = FreshConst(M, "nu"); return s1
        # handles are mutable objects shared by reference: emulate by forking *copies of handle contents* per outcome
        for kind in ["ok", "fail"] + EXC:
            s1 = st.clone()
            s1.mut[sm.id] = FreshConst(M, "sigma_" + kind); s1.mut[vm.id] = FreshConst(M, "nu_" + kind)
            r = FreshConst(StringSort(), "check")
            if kind == "ok": outs.append((s1.clone(pc=s1.pc + [r == StringVal("")], mut=s1.mut), ("str", r)))
            elif kind == "fail": outs.append((s1.clone(pc=s1.pc + [r != StringVal("")], mut=s1.mut), ("str", r)))
            else: outs.append((s1.clone(mut=s1.mut), ("raise", kind)))
        return outs
    if name == "set_shape_memo":
        a = st.clone(pc=st.pc + [has_stack], top=tuple(args))
        b = st.clone(pc=st.pc + [Not(has_stack)])
        return [(a, None), (b, None)]
    raise NotImplementedError(name)

def content(st, h): return st.mut.get(h.id, h.content)

def ev(e, st):
    if isinstance(e, ast.Name): return [(st, st.env[e.id])]
    if isinstance(e, ast.Constant): return [(st, ("str", StringVal(e.value)))]
    if isinstance(e, ast.Call):
        f = e.func
        name = f.id if isinstance(f, ast.Name) else f.attr
        argsets = [(st, [])]
        recv = [f.value] if isinstance(f, ast.Attribute) and name == "copy" else []
        for a in recv + list(e.args):
            argsets = [(s1, acc + [v]) for s0, acc in argsets for s1, v in ev(a, s0)]
        out = []
        for s0, acc in argsets:
            for s1, v in call(name, acc, s0):
                out.append((s1, v))
        return out
    if isinstance(e, ast.Compare):
        out = []
        for s0, a in ev(e.left, st):
            for s1, b in ev(e.comparators[0], s0):
                t = a[1] == b[1]
                out.append((s1, ("bool", t if isinstance(e.ops[0], ast.Eq) else Not(t))))
        return out
    raise NotImplementedError(ast.dump(e)[:120])

def carry(s_from, s_to): return s_to

def run(stmts, st):
    if not stmts: return [(st, ("normal",))]
    s, rest = stmts[0], stmts[1:]; res = []
    def cont(outs):
        for s1, o in outs:
            if o[0] == "normal": res.extend(run(rest, s1))
            else: res.append((s1, o))
    if isinstance(s, ast.Assign):
        outs = []
        for s1, v in ev(s.value, st):
            carry(st, s1)
            if isinstance(v, tuple) and v and v[0] == "raise": outs.append((s1, v)); continue
            s2 = s1.clone(); carry(s1, s2)
            tgt = s.targets[0]
            if isinstance(tgt, ast.Tuple):
                for t, x in zip(tgt.elts, v): s2.env[t.id] = x
            else: s2.env[tgt.id] = v
            outs.append((s2, ("normal",)))
        cont(outs)
    elif isinstance(s, ast.Expr):
        cont([(carry(st, s1), v if isinstance(v, tuple) and v and v[0] == "raise" else ("normal",)) for s1, v in ev(s.value, st)])
    elif isinstance(s, ast.Try):
        outs = []
        for s1, o in run(s.body, st):
            if o[0] == "raise":
                for h in s.handlers:
                    hname = h.type.id if h.type is not None else "BaseException"
                    catches = hname == "BaseException" or (hname == "Exception" and o[1] == "ExceptionSub")
                    if catches:
                        s1.cur_exc = o; outs.extend(run(h.body, s1)); break
                else: outs.append((s1, o))
            else: outs.append((s1, o))
        cont(outs)
    elif isinstance(s, ast.Raise):
        assert s.exc is None; res.append((st, st.cur_exc))
    elif isinstance(s, ast.If):
        outs = []
        for s1, v in ev(s.test, st):
            carry(st, s1)
            a = s1.clone(pc=s1.pc + [v[1]]); carry(s1, a); b = s1.clone(pc=s1.pc + [Not(v[1])]); carry(s1, b)
            outs.extend(run(s.body, a)); outs.extend(run(s.orelse, b))
        cont(outs)
    elif isinstance(s, ast.Return):
        for s1, v in ev(s.value, st): res.append((carry(st, s1), ("return", v)))
    else: raise NotImplementedError(ast.dump(s)[:100])
    return res

top0 = tuple(Handle(Const(n, M), n) for n in ["sigma0", "nu0", "pi0", "A0"])
st0 = St({"cls": None, "obj": None}, [], top0, [])
# make `cls._check_shape(...)` resolvable: Attribute call on cls handled by name
outs = run(region, st0)
failed = 0; total = 0
for i, (s1, o) in enumerate(outs):
    view_after = [If(has_stack, content(s1, h), EMPTY) for h in s1.top]
    view_before = [If(has_stack, h.content, EMPTY) for h in top0]
    unchanged = And(*[a == b for a, b in zip(view_after, view_before)])
    if o[0] == "return":
        name = f"path{i}: return -> (result != '' ==> View' == old(View))"; goal = Implies(o[1][1] != StringVal(""), unchanged)
    else:
        name = f"path{i}: raise {o[1]} -> View' == old(View)"; goal = unchanged
    s = Solver(); s.add(*s1.pc)
    if s.check() == unsat: continue
    total += 1; s.add(Not(goal)); r = s.check()
    print(("PROVED " if r == unsat else "REFUTED" if r == sat else "UNKNOWN"), name)
    failed += r != unsat
print(f"obligations={total} failed={failed}")
