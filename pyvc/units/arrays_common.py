"""Shared set-up for units over jaxtyping/_array_types.py: the Dim datatype generated from the
@dataclass field lists in the source, the Eval / label / broadcast externals, Z3Ops."""
from __future__ import annotations

import z3

from ..engine import DatatypeInfo, Engine, Raised, TupleSort, mkbool
from ..source import Module, NotFound
from ..values import BOOL, INT, STR, U, SEQ_INT, Cls, DictObj, Exc, Fn, Opaque, Ref, Tup, Unsupported, Z, ANY_EXC

FIELD_KIND = {"name": "str", "broadcastable": "bool", "treepath": "bool", "size": "int", "elem": "str"}
DIM_CLASSES = ["_NamedDim", "_NamedVariadicDim", "_FixedDim", "_SymbolicDim"]
SENTINELS = ["_anonymous_dim", "_anonymous_variadic_dim"]

_cache = {}


def dim_datatype(mod: Module) -> DatatypeInfo:
    """Built from the source: a changed field list changes the sort (and hence the VCs)."""
    key = tuple((c, tuple(f for f, _ in mod.dataclass_fields(c))) for c in DIM_CLASSES)
    if key in _cache:
        return _cache[key]
    import ast as _ast

    def identity_class(name):
        """object, or a class of this module that keeps identity comparison (defines no __eq__/__hash__)."""
        if name == "object":
            return True
        try:
            c = mod.cls(name)
        except NotFound:
            return False
        return not any(isinstance(b, (_ast.FunctionDef,)) and b.name in ("__eq__", "__hash__") for b in c.body)

    for s in SENTINELS:
        # sentinel must still be a module-level singleton compared by identity: `name = object()` / `name = _Sentinel("...")`
        ok = any(
            isinstance(n, _ast.Assign)
            and len(n.targets) == 1
            and getattr(n.targets[0], "id", None) == s
            and isinstance(n.value, _ast.Call)
            and isinstance(n.value.func, _ast.Name)
            and identity_class(n.value.func.id)
            and all(isinstance(a, _ast.Constant) for a in n.value.args)
            for n in mod.tree.body
        )
        if not ok:
            raise NotFound(f"sentinel {s} is not a module-level identity-compared singleton")
    Dim = z3.Datatype("Dim")
    for s in SENTINELS:
        Dim.declare(s)
    classes = {}
    for c, fields in key:
        for f in fields:
            if f not in FIELD_KIND:
                raise NotFound(f"dataclass {c} has unknown field {f}")
        Dim.declare(c, *[(f"{c}.{f}", {"str": STR, "bool": BOOL, "int": INT}[FIELD_KIND[f]]) for f in fields])
        classes[c] = list(fields)
    sort = Dim.create()
    info = DatatypeInfo("dim", sort, classes, SENTINELS, FIELD_KIND)
    _cache[key] = info
    return info


MEMO_M = z3.ArraySort(STR, INT)
MEMO_D = z3.ArraySort(STR, BOOL)

# Eval externals: tag 0 = value, 1 = NameError, 2+i = EVAL_OTHER[i]
EVAL_OTHER = [c for c in ANY_EXC if c != "NameError"]
EvalTag1 = z3.Function("EvalTag1", STR, INT)  # eval of the f-string over the (fixed) argument memo
EvalVal1 = z3.Function("EvalVal1", STR, STR)
EvalTag2 = z3.Function("EvalTag2", STR, MEMO_M, MEMO_D, INT)  # eval of the expression over the axis memo
EvalVal2 = z3.Function("EvalVal2", STR, MEMO_M, MEMO_D, INT)
HasLabel = z3.Bool("HasLabel")
Label = z3.String("Label")


def eval_tag_class(tag_term):
    """-> [(cond, cls or None)] partition of Eval outcomes"""
    outs = [(tag_term == 0, None), (tag_term == 1, "NameError")]
    for i, c in enumerate(EVAL_OTHER):
        outs.append((tag_term == 2 + i, c))
    return outs


def eval_tag_range(tag_term):
    return z3.And(tag_term >= 0, tag_term < 2 + len(EVAL_OTHER))


class Z3Ops:
    def __init__(self, dt):
        self.dt = dt

    def int(self, n):
        return z3.IntVal(n)

    def add(self, a, b):
        return a + b

    def eq(self, a, b):
        return a == b

    seq_eq = eq

    def and_(self, *xs):
        return z3.And(*xs)

    def or_(self, *xs):
        return z3.Or(*xs)

    def not_(self, x):
        return z3.Not(x)

    def ite(self, c, a, b):
        return z3.If(c, a, b)

    ite_seq = ite

    def ite_memo(self, c, a, b):
        return (z3.If(c, a[0], b[0]), z3.If(c, a[1], b[1]))

    def concat(self, a, b):
        return z3.Concat(a, b)

    def is_cls(self, d, c):
        return self.dt.is_cls(d, c)

    def field(self, d, c, f):
        return self.dt.field(d, c, f)

    def has_label(self):
        return HasLabel

    def label(self):
        return Label

    def has(self, m, k):
        return m[1][k]

    def get(self, m, k):
        return m[0][k]

    def put(self, m, k, v):
        return (z3.Store(m[0], k, v), z3.Store(m[1], k, z3.BoolVal(True)))

    def eval_fstring(self, elem):
        src = z3.Concat(z3.StringVal("f'"), elem, z3.StringVal("'"))
        return EvalTag1(src), EvalVal1(src)

    def eval_expr(self, src, memo):
        return EvalTag2(src, memo[0], memo[1]), EvalVal2(src, memo[0], memo[1])


# ---------------------------------------------------------------------------- models
def model_eval(eng, st, args, kwargs, node):
    """eval(src, scope): opaque, deterministic in (src, scope contents)."""
    src, scope = args
    if not (isinstance(src, Z) and src.kind == "str"):
        raise Unsupported("eval of non-string")
    if not isinstance(scope, Ref):
        raise Unsupported("eval scope")
    o = st.get(scope)
    if o.vsort == INT:
        tag, val = EvalTag2(src.t, o.m, o.d), Z("int", EvalVal2(src.t, o.m, o.d), tag="number")  # the value of a user expression: any number (5/2 is 2.5)
    else:
        tag, val = EvalTag1(src.t), Z("str", EvalVal1(src.t))
    outs = []
    for cond, cls in eval_tag_class(tag):
        s1 = st.fork(z3.And(cond, eval_tag_range(tag)), f"eval:{cls or 'ok'}")
        if not eng.feasible(s1.pc):
            continue
        # eval() inserts '__builtins__' into the dict it is given: the scope object's contents are havocked
        s1.put(scope, DictObj(o.ksort, o.vsort, tag="eval_scope_after"))
        outs.append((s1, val if cls is None else Raised(Exc(cls, origin="eval"))))
    return outs


def model_get_treepath_memo(eng, st, args, kwargs, node):
    """contract of _storage.get_treepath_memo (proved in the storage unit): returns the label, or
    raises AnnotationError iff no label is set."""
    a = st.fork(HasLabel, "label")
    b = st.fork(z3.Not(HasLabel), "nolabel")
    return [(a, Z("str", Label)), (b, Raised(Exc("AnnotationError", origin="get_treepath_memo")))]


def arrays_engine(mod: Module) -> Engine:
    eng = Engine(mod)
    dt = dim_datatype(mod)
    eng.datatypes["dim"] = dt
    eng.seq_elem["seq:dim"] = "dim"
    eng.globals["eval"] = Fn("eval", model=model_eval)
    eng.globals["get_treepath_memo"] = Fn("get_treepath_memo", model=model_get_treepath_memo)
    return eng


def is_variadic(dt, d):
    return z3.Or(dt.is_cls(d, "_anonymous_variadic_dim"), dt.is_cls(d, "_NamedVariadicDim"))
