"""Unit: the dim-string parser and annotation constructor (C14, C15) -- _make_array_cached, _check_scalar,
_MetaAbstractDtype.__getitem__ (jaxtyping/_array_types.py).  Regions of _make_array_cached are selected from the AST:

 R1  one iteration of the modifier loop (`while True:`) as a step function on (flags, remaining text):
       first char '#','*','_','?' sets exactly that flag, drops exactly one char, leaves the other flags, ValueError iff the flag
       was already set;  else exactly one '=' drops everything up to and including it;  else / empty text: stop.
     + commutation lemma over these step contracts: steps for two distinct modifiers commute  => modifier order is free.
 R2  one iteration of the token loop with the modifier loop cut by its post-state (arbitrary flags, a base on which the loop
     stops): documented illegal forms <=> ValueError, otherwise the appended dim is the documented one and index_variadic is
     the index of the unique multi-axis token.  Totality: nothing but ValueError is ever raised (dim_str is a Dyn).
 R3  the nesting tail (C15): dtypes intersection, dims2 ++ dims1, index_variadic shift, both-variadic / empty-intersection
     errors, WellFormed preserved.
 _check_scalar: True iff every dim is multi-axis and (any dtype or some dtype name starts with the scalar's prefix).
 __getitem__: 2-tuple, string spec, TypeVar -> bound | Union[constraints] | Any, unions member-wise with _not_made filtered.
"""
from __future__ import annotations

import ast

import z3

from ..engine import DatatypeInfo, Engine, Raised, is_raised, mkbool, mkint
from ..source import Module
from ..stmts import assign_target
from ..values import ANY_EXC, BOOL, INT, NONE, NORMAL, STR, U, Cls, DictObj, Exc, Fn, ListObj, NoneV, Obj, Opaque, Outcome, Ref, State, Tup, Unsupported, Z
from . import arrays_common as AC

NAME = "parser"
REL = "jaxtyping/_array_types.py"
MODS = {"#": "broadcastable", "*": "variadic", "_": "anonymous", "?": "treepath"}
Count = z3.Function("py_str_count", STR, STR, INT)
IsIdent = z3.Function("py_str_isidentifier", STR, BOOL)
IntOk = z3.Function("py_int_ok", STR, BOOL)
IntVal = z3.Function("py_int_val", STR, INT)


def S(x):
    return z3.StringVal(x)


def build(repo=None):
    mod = Module(REL, repo)
    fn = mod.func("_make_array_cached")
    obligations, functions = [], []
    functions.append({"qualname": "jaxtyping._array_types._make_array_cached", "sha256_16": mod.sha(fn), "lines": [fn.lineno, fn.end_lineno]})
    paths = 0

    def collect(st_obl, serves, hints=None):
        for ob in st_obl:
            ob = dict(ob)
            ob.setdefault("kind", "vc")
            ob.setdefault("serves", serves)
            if hints:
                ob["hints"] = hints
            obligations.append(ob)

    is_token_loop = lambda x: isinstance(x, ast.For) and ".split(" in ast.unparse(x.iter)  # by role: the loop over the pieces of the specification string
    token_loops = [x for x in fn.body if is_token_loop(x)]
    if not token_loops:
        # ... or, when the pieces are computed beforehand, the one top-level loop that contains the modifier-stripping `while` (what it iterates over is then judged below)
        token_loops = [x for x in fn.body if isinstance(x, ast.For) and any(isinstance(w, ast.While) for w in ast.walk(x))]
    parse_fn = fn
    if not token_loops:
        # the token loop may have been moved into a private module-level helper called on the specification string: `dims, index_variadic = <helper>(dim_str)`
        helpers = {b_.name: b_ for b_ in mod.tree.body if isinstance(b_, ast.FunctionDef)}
        cand = [(a_, helpers[a_.value.func.id]) for a_ in fn.body if isinstance(a_, ast.Assign) and isinstance(a_.value, ast.Call) and isinstance(a_.value.func, ast.Name) and a_.value.func.id in helpers
                and any(is_token_loop(x) for x in helpers[a_.value.func.id].body)]
        if len(cand) == 1:
            call_stmt, parse_fn = cand[0]
            token_loops = [x for x in parse_fn.body if is_token_loop(x)]
            hp = [a.arg for a in parse_fn.args.args]
            rets = [r_ for r_ in ast.walk(parse_fn) if isinstance(r_, ast.Return)]
            glue = (len(hp) == 1 and not parse_fn.decorator_list and len(call_stmt.value.args) == 1 and not call_stmt.value.keywords and ast.unparse(call_stmt.value.args[0]) == fn.args.args[1].arg
                    and hp[0] == fn.args.args[1].arg  # the regions below read the specification under the parameter's own name
                    and isinstance(call_stmt.targets[0], ast.Tuple) and [ast.unparse(t_) for t_ in call_stmt.targets[0].elts] == ["dims", "index_variadic"]
                    and len(rets) == 1 and rets[0] is parse_fn.body[-1] and ast.unparse(rets[0].value).replace(" ", "") in ("(tuple(dims),index_variadic)", "tuple(dims),index_variadic")
                    and fn.body.index(call_stmt) == 1)
            obligations.append({"clause": "C14:the-parsing-helper-receives-the-specification-and-hands-back-(tuple(dims),index_variadic)-right-after-the-string-guard", "kind": "vc", "pc": [], "goal": z3.BoolVal(bool(glue)), "path": [], "meta": {"helper": z3.StringVal(parse_fn.name)}, "serves": ["C14", "C15", "C01"]})
            functions.append({"qualname": "jaxtyping._array_types." + parse_fn.name, "sha256_16": mod.sha(parse_fn), "lines": [parse_fn.lineno, parse_fn.end_lineno]})
    if len(token_loops) != 1:
        raise Unsupported("_make_array_cached: expected exactly one top-level token loop")
    tloop = token_loops[0]
    whiles = [x for x in ast.walk(tloop) if isinstance(x, ast.While)]
    if len(whiles) != 1:
        raise Unsupported("_make_array_cached: expected exactly one modifier loop")
    wloop = whiles[0]
    flag_names = ["broadcastable", "variadic", "anonymous", "treepath"]

    def split_model(e, s, recv, args, kwargs, node):
        # elem.split("=") under count("=") == 1 : [before, after] with elem == before + "=" + after
        if isinstance(recv, Z) and recv.kind == "str" and len(args) == 1 and isinstance(args[0], Z) and z3.is_string_value(args[0].t):
            sep = args[0].t
            a, b = z3.FreshConst(STR, "before"), z3.FreshConst(STR, "after")
            s1 = s.fork(z3.Implies(Count(recv.t, sep) == 1, z3.And(recv.t == z3.Concat(a, sep, b), z3.Not(z3.Contains(a, sep)), z3.Not(z3.Contains(b, sep)))))
            s1.ghost["split_parts"] = (a, b)
            # (for other counts the result has another length; callers guard with count == 1: obligation)
            e.oblige(s, "C14:modifier-step:split('=')-is-used-only-when-there-is-exactly-one-'='", Count(recv.t, sep) == 1)
            return [(s1, Tup([Z("str", a), Z("str", b)], True))]
        return None

    # ================================================================== R1: one step of the modifier loop
    eng = AC.arrays_engine(mod)
    eng.method_models["split"] = split_model
    text = z3.String("text")
    f0 = {n: z3.Bool(f"{n}0") for n in flag_names}
    st = State()
    st.env = {"elem": Z("str", text), **{n: Z("bool", f0[n]) for n in flag_names}}
    # Count facts used by the engine's str.count model are added there; here: count >= 0
    first = z3.SubString(text, 0, 1)
    rest = z3.SubString(text, 1, z3.Length(text) - 1)
    def one_step(e, s):
        """one iteration of the modifier loop: its test (leaving the loop when it is false counts as a `break`), then its body"""
        from ..values import Outcome

        outs = []
        for s_t, tv in e.ev(wloop.test, s):
            if is_raised(tv):
                outs.append((s_t, Outcome("raise", tv.exc)))
                continue
            for s_b, holds in e.branch(s_t, e.truth(s_t, tv)):
                if holds:
                    outs.extend(e.run(wloop.body, s_b))
                else:
                    outs.append((s_b, Outcome("break")))
        return outs

    for s1, o in one_step(eng, st):
        paths += 1
        cur = {n: s1.env[n].t for n in flag_names}
        elem1 = s1.env["elem"]
        nonempty = z3.Length(text) > 0
        ismod = z3.Or(*[first == S(c) for c in MODS])
        if o.kind == "break":
            eng.oblige(s1, "C14:modifier-step:stops-exactly-on-empty-text-or-a-non-modifier-without-a-single-'='", z3.And(z3.Or(z3.Not(nonempty), z3.And(z3.Not(ismod), Count(text, S("=")) != 1)), elem1.t == text, *[cur[n] == f0[n] for n in flag_names]), text=text)
        elif o.kind in ("normal", "continue"):
            cases = []
            for c, fl in MODS.items():
                cases.append(z3.And(nonempty, first == S(c), z3.Not(f0[fl]), cur[fl], elem1.t == rest, *[cur[n] == f0[n] for n in flag_names if n != fl]))
            parts = s1.ghost.get("split_parts")
            if parts is not None:
                cases.append(z3.And(nonempty, z3.Not(ismod), Count(text, S("=")) == 1, elem1.t == parts[1], *[cur[n] == f0[n] for n in flag_names]))
            eng.oblige(s1, "C14:modifier-step:sets-exactly-one-flag-and-drops-exactly-one-char(or-drops-the-'name='-prefix)", z3.Or(*cases), text=text)
        elif o.kind == "raise":
            eng.oblige(s1, "C14:modifier-step:only-ValueError", z3.BoolVal(o.val.classes() == {"ValueError"}), text=text)
            eng.oblige(s1, "C14:modifier-step:ValueError-exactly-for-a-repeated-modifier", z3.And(nonempty, z3.Or(*[z3.And(first == S(c), f0[fl]) for c, fl in MODS.items()])), text=text)
        else:
            eng.oblige(s1, f"C14:modifier-step:unexpected-exit[{o.kind}]", z3.BoolVal(False))
    collect(st.obl, ["C14", "C01"], hints=[[z3.Length(text) <= 3]])
    # commutation lemma over the step contract (spec level): two distinct modifiers in either order give the same flags and rest
    def spec_step(flags, t):
        """-> (error, flags', text') for a text that starts with a modifier char"""
        fch = z3.SubString(t, 0, 1)
        err = z3.Or(*[z3.And(fch == S(c), flags[fl]) for c, fl in MODS.items()])
        new = {fl: z3.If(fch == S(c), z3.BoolVal(True), flags[fl]) for c, fl in MODS.items()}
        return err, new, z3.SubString(t, 1, z3.Length(t) - 1)

    a, b, r = z3.Strings("mod_a mod_b rest_text")
    fl0 = {n: z3.Bool(f"lem_{n}") for n in flag_names}
    ismodc = lambda x: z3.Or(*[x == S(c) for c in MODS])
    e1, g1, t1 = spec_step(fl0, z3.Concat(a, b, r))
    e2, g2, t2 = spec_step(g1, t1)
    e3, h1, u1 = spec_step(fl0, z3.Concat(b, a, r))
    e4, h2, u2 = spec_step(h1, u1)
    obligations.append({"clause": "C14:lemma:steps-for-two-distinct-modifiers-commute(order-is-free)", "kind": "vc", "serves": ["C14"], "path": [], "meta": {},
                        "pc": [ismodc(a), ismodc(b), a != b, z3.Length(a) == 1, z3.Length(b) == 1],
                        "goal": z3.And(z3.Or(e1, e2) == z3.Or(e3, e4), z3.Implies(z3.Not(z3.Or(e1, e2)), z3.And(t2 == u2, *[g2[n] == h2[n] for n in flag_names])))})

    # ================================================================== R2: one iteration of the token loop
    eng = AC.arrays_engine(mod)
    dt = eng.datatypes["dim"]
    DimType = {k: Opaque(f"_DimType.{k}", z3.Const(f"DimType_{k}", U)) for k in ("named", "fixed", "symbolic")}
    eng.globals["_DimType"] = Opaque("enum:_DimType", attrs=DimType)
    tok = z3.String("token")
    base = z3.String("base")
    fl = {n: z3.Bool(f"{n}_after") for n in flag_names}
    k = z3.Int("token_index")
    iv_old = z3.Int("index_variadic_old")
    stops = z3.Or(z3.Length(base) == 0, z3.And(*[z3.SubString(base, 0, 1) != S(c) for c in MODS], Count(base, S("=")) != 1))

    def while_cut(e, node, s0):
        # post-state of the modifier loop (R1 + its ValueError exits are proved above): arbitrary flags, a base on which it stops
        s1 = s0.clone()
        s1.env["elem"] = Z("str", base)
        for n in flag_names:
            s1.env[n] = Z("bool", fl[n])
        s1.pc.append(stops)
        s1.ghost["went_through_modifier_loop"] = True
        s2 = s0.clone()
        s2.path.append("modifier-loop:ValueError")
        return [(s1, NORMAL), (s2, Outcome("raise", Exc("ValueError", origin="modifier-loop")))]

    eng.loop_specs[id(wloop)] = while_cut
    for iv_none in (True, False):
        st = State()
        dims_ref = st.alloc(ListObj([], ("dims", z3.Bool("dims_nonempty"), z3.Const("dims_id", U)), "dims"))
        d0 = st.get(dims_ref)
        st.env = {"dims": dims_ref, "index_variadic": NONE if iv_none else Z("int", iv_old), "dim_str": Z("str", z3.String("dim_str"))}
        st.pc = [z3.Length(tok) > 0, k >= 0, z3.Distinct(*[v.t for v in DimType.values()])] + ([] if iv_none else [0 <= iv_old, iv_old < k])
        st.path = ["iv=None" if iv_none else "iv=set"]
        for s0, o0 in assign_target(eng, st, tloop.target, Tup([Z("int", k), Z("str", tok)])):
            for s1, o in eng.run(tloop.body, s0):
                paths += 1
                is_dots = tok == S("...")
                pre_bad = z3.Or(z3.And(z3.Contains(tok, S(",")), z3.Not(z3.Contains(tok, S("(")))), z3.SuffixOf(S("#"), tok), z3.And(z3.Contains(tok, S("...")), z3.Not(is_dots)))
                through = bool(s1.ghost.get("went_through_modifier_loop"))
                B = fl["broadcastable"] if through else z3.BoolVal(False)
                V = fl["variadic"] if through else z3.BoolVal(True)
                An = fl["anonymous"] if through else z3.BoolVal(True)
                T = fl["treepath"] if through else z3.BoolVal(False)
                named = z3.Or(z3.Length(base) == 0, IsIdent(base)) if through else z3.BoolVal(True)
                fixed = z3.And(z3.Not(named), IntOk(base)) if through else z3.BoolVal(False)
                symbolic = z3.And(z3.Not(named), z3.Not(IntOk(base))) if through else z3.BoolVal(False)
                second_var = z3.And(V, z3.BoolVal(not iv_none))
                illegal = z3.Or(second_var, z3.And(fixed, z3.Or(V, An, T)), z3.And(named, An, B), z3.And(symbolic, z3.Or(An, V, T)))
                if o.kind == "raise":
                    eng.oblige(s1, "C14:token:building-never-fails-with-anything-but-ValueError", z3.BoolVal(o.val.classes() == {"ValueError"}), token=tok, base=base)
                    if o.val.origin != "modifier-loop":
                        eng.oblige(s1, "C14:token:ValueError-only-for-the-documented-illegal-forms", z3.Or(pre_bad, illegal), token=tok, base=base)
                    continue
                if o.kind not in ("normal", "continue"):
                    eng.oblige(s1, f"C14:token:unexpected-exit[{o.kind}]", z3.BoolVal(False))
                    continue
                eng.oblige(s1, "C14:token:accepted-only-when-no-documented-illegal-form-applies", z3.And(z3.Not(pre_bad), z3.Not(illegal), is_dots == z3.BoolVal(not through)), token=tok, base=base)
                d1 = s1.get(dims_ref)
                ok_app = d1.lower is d0.lower and len(d1.items) == 1 and isinstance(d1.items[0], Z) and d1.items[0].kind == "dim"
                eng.oblige(s1, "C14:token:exactly-one-dim-is-appended", z3.BoolVal(ok_app))
                if ok_app:
                    d = d1.items[0].t
                    want = z3.If(fixed, dt.sort._FixedDim(IntVal(base), B),
                                 z3.If(symbolic, dt.sort._SymbolicDim(base, B),
                                       z3.If(An, z3.If(V, dt.sort._anonymous_variadic_dim, dt.sort._anonymous_dim),
                                             z3.If(V, dt.sort._NamedVariadicDim(base, B, T), dt.sort._NamedDim(base, B, T)))))
                    eng.oblige(s1, "C14:token:appended-dim-has-the-documented-meaning", d == want, token=tok, base=base)
                ivn = s1.env.get("index_variadic")
                if iv_none:
                    good = z3.If(V, z3.BoolVal(isinstance(ivn, Z)) if not isinstance(ivn, Z) else ivn.t == k, z3.BoolVal(isinstance(ivn, NoneV)))
                else:
                    good = z3.And(z3.Not(V), (ivn.t == iv_old) if isinstance(ivn, Z) else z3.BoolVal(False))
                eng.oblige(s1, "C14:token:index_variadic-is-the-index-of-the-unique-multi-axis-token", good)
        collect(st.obl, ["C14", "C15", "C01"], hints=[[z3.Length(tok) <= 4, z3.Length(base) <= 3]])
    # the entry guard: a non-string specification is ValueError
    first_stmt = fn.body[0]
    guard_ok = isinstance(first_stmt, ast.If) and ast.unparse(first_stmt.test) == "not isinstance(dim_str, str)" and isinstance(first_stmt.body[0], ast.Raise) and "ValueError" in ast.unparse(first_stmt.body[0])
    obligations.append({"clause": "C14:non-string-spec-is-rejected-with-ValueError-before-any-string-operation", "kind": "vc", "pc": [], "goal": z3.BoolVal(guard_ok), "path": [], "meta": {}, "serves": ["C14"]})
    it_ok = ast.unparse(tloop.iter).replace(" ", "") == "enumerate(dim_str.split())"
    obligations.append({"clause": "C14:tokens-are-the-whitespace-separated-pieces(whitespace-insignificant)", "kind": "vc", "pc": [], "goal": z3.BoolVal(it_ok), "path": [], "meta": {}, "serves": ["C14"]})

    # ================================================================== __getitem__ : item shape, string test, TypeVar / union structure
    gi = mod.func("_MetaAbstractDtype.__getitem__")
    functions.append({"qualname": "jaxtyping._array_types._MetaAbstractDtype.__getitem__", "sha256_16": mod.sha(gi), "lines": [gi.lineno, gi.end_lineno]})
    Dyn = z3.Datatype("SpecDyn")
    Dyn.declare("str", ("str.s", STR))
    Dyn.declare("other", ("other.u", U))
    Dyn = Dyn.create()
    strip = z3.Function("py_str_strip", STR, STR)
    for item_kind in ("not-a-tuple", "tuple-of-3", "pair"):
        for at_kind in ("plain", "typevar-bound", "typevar-constraints", "typevar-free", "union2", "union1-survivor", "union-none-left"):
            if item_kind != "pair" and at_kind != "plain":
                continue
            eng = Engine(mod)
            eng.datatypes["specdyn"] = DatatypeInfo("specdyn", Dyn, {"str": ["s"], "other": ["u"]}, [], {"s": "str", "u": "u"})
            spec = z3.Const("dim_spec", Dyn)
            not_made = Opaque("sentinel:_not_made", z3.Const("not_made", U))
            AnyT = Opaque("sentinel:Any", z3.Const("typing_Any", U))
            eng.globals.update({"_not_made": not_made, "Any": AnyT, "TypeVar": Cls("TypeVar"), "_union_types": Opaque("union-types")})
            made = {}

            def m_make_array(e, s, a, kw, nd):
                s = s.clone()
                s.ghost["calls"] = s.ghost.get("calls", []) + [a]
                tag = getattr(a[0], "tag", "?")
                if at_kind == "union-none-left" or (at_kind == "union1-survivor" and tag == "member1"):
                    return [(s, not_made)]
                r = made.setdefault(tag, Opaque(f"made:{tag}"))
                s.pc.append(r.t != not_made.t)
                if at_kind in ("union2", "union1-survivor"):
                    return [(s, r)]
                return [(s.fork(None, "made"), r), (s.fork(None, "not-made"), not_made)]

            eng.globals["_make_array"] = Fn("_make_array", model=m_make_array)

            def isinst(e, s, v, c):
                if isinstance(c, Cls) and c.name == "tuple":
                    return z3.BoolVal(isinstance(v, Tup))
                if isinstance(c, Cls) and c.name == "str" and isinstance(v, Z) and v.kind == "specdyn":
                    return Dyn.is_str(v.t)
                if isinstance(c, Cls) and c.name == "TypeVar":
                    return z3.BoolVal(isinstance(v, Opaque) and v.tag.startswith("typevar"))
                return None

            eng.method_models["__isinstance__"] = isinst

            def m_strip(e, s, recv, args, kw, nd):
                if isinstance(recv, Z) and recv.kind == "specdyn":
                    ok = s.fork(Dyn.is_str(recv.t), "spec:str")
                    bad = s.fork(z3.Not(Dyn.is_str(recv.t)), "spec:not-str")
                    outs = []
                    if e.feasible(ok.pc):
                        outs.append((ok, Z("str", strip(getattr(Dyn, "str.s")(recv.t)))))
                    if e.feasible(bad.pc):
                        outs.append((bad, Raised(Exc("AttributeError", origin=".strip() on a non-string"))))
                    return outs
                return None

            eng.method_models["strip"] = m_strip
            members = [Opaque("member0"), Opaque("member1")]
            union_t = Opaque("a-union")
            eng.globals["get_origin"] = Fn("get_origin", model=lambda e, s, a, kw, nd: [(s, Opaque("origin:union" if a[0] is union_t or (isinstance(a[0], Opaque) and a[0].tag == "Union[constraints]") else "origin:none"))])
            eng.globals["get_args"] = Fn("get_args", model=lambda e, s, a, kw, nd: [(s, Tup(members))])
            eng.globals["Union"] = Opaque("typing.Union")

            def m_getitem(e, s, v, args, kw, nd):
                if isinstance(v, Opaque) and v.tag == "typing.Union":
                    arg = args[0]
                    if isinstance(arg, Opaque) and arg.tag == "constraints":
                        return [(s, Opaque("Union[constraints]"))]
                    return [(s, Opaque("Union[out]", attrs={"__members__": arg}))]
                return None

            eng.method_models["__getitem__"] = m_getitem

            def contains_hook(e, s, a, b):
                return None

            orig_contains = eng.contains

            def contains(s, container, item):
                if isinstance(container, Opaque) and container.tag == "union-types":
                    return z3.BoolVal(isinstance(item, Opaque) and item.tag == "origin:union")
                return orig_contains(s, container, item)

            eng.contains = contains

            def listcomp(e, s, node):
                # [_make_array(x, dim_str, cls) for x in get_args(array_type)] : static expansion over the (2) members
                outs = [(s, [])]
                gen = node.generators[0]
                for s0, it in e.ev(gen.iter, s):
                    cur = [(s0, [])]
                    for mbr in it.items:
                        nxt = []
                        for s1, acc in cur:
                            s1 = s1.clone()
                            s1.env[gen.target.id] = mbr
                            # the comprehension's own filters decide, member by member, whether the element is produced at all
                            keep_states = [(s1, True)]
                            for cnd in gen.ifs:
                                ks2 = []
                                for s_k, keep in keep_states:
                                    if not keep:
                                        ks2.append((s_k, False))
                                        continue
                                    for s_c, cv in e.ev(cnd, s_k):
                                        if is_raised(cv):
                                            raise Unsupported("a comprehension filter that raises")
                                        for s_b, holds in e.branch(s_c, e.truth(s_c, cv)):
                                            ks2.append((s_b, bool(holds)))
                                keep_states = ks2
                            for s_k, keep in keep_states:
                                if not keep:
                                    nxt.append((s_k, acc))
                                    continue
                                for s2, v in e.ev(node.elt, s_k):
                                    nxt.append((s2, acc + [v]))
                        cur = nxt
                    return [(s1, Tup(acc, True)) for s1, acc in cur]
                return []

            eng.method_models["__listcomp__"] = listcomp

            def m_tuple(e, s, v):
                # tuple(x for x in out if x is not _not_made)
                if isinstance(v, Fn) and isinstance(v.node, ast.GeneratorExp):
                    g = v.node
                    src = v.closure.get(g.generators[0].iter.id) if isinstance(g.generators[0].iter, ast.Name) else None
                    if isinstance(src, Tup):
                        cond_ok = len(g.generators[0].ifs) == 1 and ast.unparse(g.generators[0].ifs[0]).replace(" ", "") == f"{g.generators[0].target.id}isnot_not_made" and ast.unparse(g.elt) == g.generators[0].target.id
                        if not cond_ok:
                            e.oblige(s, "C15:union:members-that-are-not-made-are-filtered-out", z3.BoolVal(False))
                        return [(s, Tup([x for x in src.items if x is not not_made]))]
                return None

            eng.method_models["tuple()"] = m_tuple
            the_bound = Opaque("bound")
            tv_attrs = {"typevar-bound": {"__bound__": the_bound, "__constraints__": Tup([])}, "typevar-constraints": {"__bound__": NONE, "__constraints__": Opaque("constraints")}, "typevar-free": {"__bound__": NONE, "__constraints__": Tup([])}}
            if at_kind in tv_attrs:
                at = Opaque("typevar", attrs=tv_attrs[at_kind])
            elif at_kind.startswith("union"):
                at = union_t
            else:
                at = Opaque("plain-array-type")
            item = {"not-a-tuple": Opaque("item"), "tuple-of-3": Tup([at, Z("specdyn", spec), Opaque("third")]), "pair": Tup([at, Z("specdyn", spec)])}[item_kind]
            st = State()
            cls = Opaque("the-category")
            st.env = {gi.args.args[0].arg: cls, gi.args.args[1].arg: item}
            st.path = [item_kind, at_kind]
            st.pc.append(the_bound.t != z3.Const("PyNone", U))
            orig_eq = eng.equal

            def equal(s, a_, b_):
                if isinstance(a_, Opaque) and a_.tag == "constraints" and isinstance(b_, Tup) and not b_.items:
                    return z3.BoolVal(False)
                return orig_eq(s, a_, b_)

            eng.equal = equal
            for s1, o in eng.run(gi.body, st):
                paths += 1
                calls = s1.ghost.get("calls", [])
                if item_kind != "pair":
                    eng.oblige(s1, "C14:getitem:item-must-be-a-2-tuple-else-ValueError", z3.BoolVal(o.kind == "raise" and o.val.classes() == {"ValueError"} and not calls))
                    continue
                if o.kind == "raise":
                    eng.oblige(s1, "C14:getitem:only-ValueError-is-raised", z3.BoolVal(o.val.classes() == {"ValueError"}), origin=z3.StringVal(str(o.val.origin)))
                    if "spec:not-str" in s1.path or not any("spec:" in str(p) for p in s1.path):
                        eng.oblige(s1, "C14:getitem:a-non-string-spec-is-ValueError", z3.Not(Dyn.is_str(spec)))
                    else:
                        n_nm = sum(1 for p_ in s1.path if p_ == "not-made")
                        want = at_kind == "union-none-left" or (n_nm > 0 and n_nm == len(calls))
                        eng.oblige(s1, "C15:getitem:ValueError-exactly-when-no-member-could-be-made", z3.BoolVal(want))
                    continue
                if o.kind != "return":
                    eng.oblige(s1, f"C14:getitem:unexpected-exit[{o.kind}]", z3.BoolVal(False))
                    continue
                v = o.val
                used = [c for c in calls]
                shape_ok = bool(used) and all(len(c) == 3 and isinstance(c[1], Z) and c[1].kind == "str" and c[2] is cls for c in used)
                # (this is also C20's rebuild step: x.dtype[x._subscript_item] calls _make_array(member, item[1].strip(), x.dtype) -- the very arguments of the original call)
                eng.oblige(s1, "C14:getitem:constructor-gets-the-stripped-string-spec-and-this-category",
                           z3.And(*[c[1].t == strip(getattr(Dyn, "str.s")(spec)) for c in used]) if shape_ok else z3.BoolVal(False))
                s1.obl[-1]["serves"] = ["C14", "C15", "C20"]
                if at_kind == "plain":
                    eng.oblige(s1, "C15:getitem:plain-array-type-is-made-directly", z3.BoolVal(used[-1][0] is at and v is made.get("plain-array-type")))
                elif at_kind == "typevar-bound":
                    eng.oblige(s1, "C15:getitem:a-bound-TypeVar-stands-for-its-bound", z3.BoolVal(used[-1][0].tag == "bound"))
                elif at_kind == "typevar-free":
                    eng.oblige(s1, "C15:getitem:an-unconstrained-TypeVar-stands-for-Any", z3.BoolVal(used[-1][0] is AnyT))
                elif at_kind == "typevar-constraints":
                    eng.oblige(s1, "C15:getitem:a-constrained-TypeVar-stands-for-the-union-of-its-constraints", z3.BoolVal({c[0].tag for c in used[-2:]} == {"member0", "member1"}))
                elif at_kind == "union2":
                    okk = isinstance(v, Opaque) and v.tag == "Union[out]" and isinstance(v.attrs["__members__"], Tup) and [x.tag for x in v.attrs["__members__"].items] == ["made:member0", "made:member1"]
                    eng.oblige(s1, "C15:getitem:D[Union[A,B],s]-is-Union[D[A,s],D[B,s]]-member-wise-in-order", z3.BoolVal(okk and [c[0].tag for c in used[-2:]] == ["member0", "member1"]))
                elif at_kind == "union1-survivor":
                    eng.oblige(s1, "C15:getitem:a-single-surviving-member-is-returned-unwrapped", z3.BoolVal(v is made.get("member0")))
                    eng.oblige(s1, "C15:union:members-that-are-not-made-are-filtered-out", z3.BoolVal(v is not not_made and [c[0].tag for c in used[-2:]] == ["member0", "member1"]))
            collect(st.obl, ["C14", "C15"])

    # ================================================================== R3: the nesting tail (C15)
    tails = [s for s in fn.body if isinstance(s, ast.If) and "issubclass(array_type, AbstractArray)" in ast.unparse(s.test)]
    if len(tails) != 1:
        raise Unsupported("_make_array_cached: nesting tail not found")
    tail = tails[0]
    SD = z3.SeqSort(AC.dim_datatype(mod).sort)
    for iv2_none in (True, False):
        for iv1_none in (True, False):
            for dt2_any in (True, False):
                for dt1_any in (True, False):
                    eng = AC.arrays_engine(mod)
                    dtp = eng.datatypes["dim"]
                    any_dt = Opaque("sentinel:_any_dtype", z3.Const("sentinel_any_dtype", U))
                    AnyT = Opaque("sentinel:Any", z3.Const("typing_Any", U))
                    eng.globals.update({"_any_dtype": any_dt, "Any": AnyT, "AbstractArray": Cls("AbstractArray")})
                    eng.globals["issubclass"] = Fn("issubclass", model=lambda e, s, a, kw, nd: [(s, mkbool(True))])
                    dims2, dims1 = z3.Const("dims_outer", SD), z3.Const("dims_inner", SD)
                    iv2, iv1 = z3.Int("iv_outer"), z3.Int("iv_inner")
                    D2, D1 = Opaque("dtypes-outer"), Opaque("dtypes-inner")
                    inter = Opaque("intersection")
                    NonEmpty = z3.Bool("intersection_nonempty")

                    def m_tuple(e, s, v):
                        if isinstance(v, Fn) and isinstance(v.node, ast.GeneratorExp):
                            g = v.node
                            gen = g.generators[0]
                            shape_ok = ast.unparse(g.elt) == gen.target.id and isinstance(gen.iter, ast.Name) and v.closure.get(gen.iter.id) is D2 and len(gen.ifs) == 1
                            c0 = gen.ifs[0] if gen.ifs else None
                            if shape_ok and isinstance(c0, ast.Compare) and len(c0.ops) == 1 and isinstance(c0.ops[0], ast.In) and isinstance(c0.left, ast.Name) and c0.left.id == gen.target.id:
                                # `x in <the inner category's dtypes>`, however that collection is spelled (array_type.dtypes, a parameter of a helper ...)
                                s_c = s.clone()
                                s_c.env = dict(v.closure or s.env)
                                rs_ = e.ev(c0.comparators[0], s_c)
                                shape_ok = len(rs_) == 1 and rs_[0][1] is D1
                            else:
                                shape_ok = False
                            e.oblige(s, "C15:nesting:dtypes-are-the-outer-names-that-also-occur-in-the-inner-category(in-outer-order)", z3.BoolVal(shape_ok))
                            return [(s, inter)]
                        return None

                    eng.method_models["tuple()"] = m_tuple

                    def b_len(e, s, a, kw, nd):
                        if a and a[0] is inter:
                            n_ = z3.Int("len_intersection")
                            return [(s.fork(z3.And(n_ >= 0, (n_ > 0) == NonEmpty)), Z("int", n_))]
                        from ..builtins_model import b_len as real

                        return real(e, s, a, kw, nd)

                    eng.globals["len"] = Fn("len", model=b_len)
                    inner_at = Opaque("innermost-array-type")
                    st = State()
                    inner = st.alloc(Obj("inner-annotation", {"dtypes": any_dt if dt1_any else D1, "index_variadic": NONE if iv1_none else Z("int", iv1), "dims": Z("seq:dim", dims1),
                                                              "dim_str": Z("str", z3.String("dim_str_inner")), "array_type": inner_at}, tag="array_type"))
                    st.env = {"array_type": inner, "dtypes": any_dt if dt2_any else D2, "index_variadic": NONE if iv2_none else Z("int", iv2), "dims": Z("seq:dim", dims2), "dim_str": Z("str", z3.String("dim_str_outer"))}
                    n2, n1 = z3.Length(dims2), z3.Length(dims1)
                    j = z3.Int("j")
                    isvar = lambda d: AC.is_variadic(dtp, d)
                    wf2 = z3.Implies(z3.And(0 <= j, j < n2, z3.BoolVal(True) if iv2_none else j != iv2), z3.Not(isvar(dims2[j])))
                    jj = j - n2
                    wf1 = z3.Implies(z3.And(0 <= jj, jj < n1, z3.BoolVal(True) if iv1_none else jj != iv1), z3.Not(isvar(dims1[jj])))
                    st.pc = ([] if iv2_none else [0 <= iv2, iv2 < n2, isvar(dims2[iv2])]) + ([] if iv1_none else [0 <= iv1, iv1 < n1, isvar(dims1[iv1])]) + [D2.t != any_dt.t, D1.t != any_dt.t]
                    st.path = [f"iv_outer={'None' if iv2_none else 'int'}", f"iv_inner={'None' if iv1_none else 'int'}", f"dt_outer={'any' if dt2_any else 'names'}", f"dt_inner={'any' if dt1_any else 'names'}"]
                    for s1, o in eng.run([tail], st):
                        paths += 1
                        both = (not iv2_none) and (not iv1_none)
                        if o.kind == "raise":
                            eng.oblige(s1, "C15:nesting:only-ValueError", z3.BoolVal(o.val.classes() == {"ValueError"}))
                            allowed = z3.BoolVal(both)
                            if not dt2_any and not dt1_any:
                                allowed = z3.Or(allowed, z3.Not(NonEmpty))
                            eng.oblige(s1, "C15:nesting:error-exactly-for-an-empty-intersection-or-two-multi-axis-specifiers", allowed)
                            continue
                        eng.oblige(s1, "C15:nesting:accepted-only-without-two-multi-axis-specifiers-and-with-a-non-empty-intersection", z3.And(z3.BoolVal(not both), NonEmpty if (not dt2_any and not dt1_any) else z3.BoolVal(True)))
                        dv, ivv, dts, ds, atv = s1.env["dims"], s1.env["index_variadic"], s1.env["dtypes"], s1.env["dim_str"], s1.env["array_type"]
                        eng.oblige(s1, "C15:nesting:dims-are-outer-dims-followed-by-inner-dims", (dv.t == z3.Concat(dims2, dims1)) if isinstance(dv, Z) else z3.BoolVal(False))
                        if iv2_none and iv1_none:
                            good = z3.BoolVal(isinstance(ivv, NoneV))
                        elif iv1_none:
                            good = (ivv.t == iv2) if isinstance(ivv, Z) else z3.BoolVal(False)
                        elif iv2_none:
                            good = (ivv.t == iv1 + n2) if isinstance(ivv, Z) else z3.BoolVal(False)
                        else:
                            good = z3.BoolVal(False)
                        eng.oblige(s1, "C15:nesting:index_variadic-is-the-outer-one-or-the-inner-one-shifted-by-len(outer-dims)", good)
                        want_dt = any_dt if (dt2_any and dt1_any) else (D1 if dt2_any else (D2 if dt1_any else inter))
                        eng.oblige(s1, "C15:nesting:dtypes-are-the-intersection(any-is-neutral)", z3.BoolVal(dts is want_dt))
                        eng.oblige(s1, "C15:nesting:shape-string-is-'outer inner'", (ds.t == z3.Concat(z3.String("dim_str_outer"), S(" "), z3.String("dim_str_inner"))) if isinstance(ds, Z) else z3.BoolVal(False))
                        eng.oblige(s1, "C15:nesting:array-type-is-the-innermost-array-type", z3.BoolVal(atv is inner_at))
                        # WellFormed preserved: for an arbitrary index j other than the new index_variadic, the dim is not multi-axis
                        if isinstance(dv, Z) and not both:
                            new_iv = None if isinstance(ivv, NoneV) else ivv.t
                            s2 = s1.fork(z3.And(0 <= j, j < n2 + n1, wf2, wf1, z3.BoolVal(True) if new_iv is None else j != new_iv))
                            eng.oblige(s2, "C15:nesting:at-most-one-multi-axis-dim-and-index_variadic-points-at-it(WellFormed-preserved)", z3.Not(isvar(dv.t[j])))
                            if new_iv is not None:
                                eng.oblige(s1, "C15:nesting:index_variadic-points-at-a-multi-axis-dim", z3.And(0 <= new_iv, new_iv < n2 + n1, isvar(dv.t[new_iv])))
                    for ob_ in st.obl:
                        if "dtypes" in ob_["clause"] or "intersection" in ob_["clause"]:
                            ob_["serves"] = ["C15", "C03"]  # which dtypes a nested annotation accepts is also a C03 matter
                    collect(st.obl, ["C15"])

    # ================================================================== _check_scalar
    cs = mod.func("_check_scalar")
    functions.append({"qualname": "jaxtyping._array_types._check_scalar", "sha256_16": mod.sha(cs), "lines": [cs.lineno, cs.end_lineno]})
    for dt_any in (True, False):
        eng = AC.arrays_engine(mod)
        dtp = eng.datatypes["dim"]
        any_dt = Opaque("sentinel:_any_dtype", z3.Const("sentinel_any_dtype", U))
        eng.globals["_any_dtype"] = any_dt
        dims = z3.Const("dims", SD)
        nd_ = z3.Length(dims)
        kk = z3.Int("k")
        AllVar = z3.Function("AllMultiAxis", INT, BOOL)
        unf = lambda i: AllVar(i + 1) == z3.And(AllVar(i), AC.is_variadic(dtp, dims[i]))
        SomePrefix = z3.Bool("some_dtype_name_starts_with_the_scalar_prefix")
        names = Opaque("dtype-names")

        def m_any(e, s, g, node):
            ok = isinstance(g, Fn) and isinstance(g.node, ast.GeneratorExp) and ast.unparse(g.node.elt).replace(" ", "") == f"{g.node.generators[0].target.id}.startswith({cs.args.args[0].arg})" and g.closure.get(getattr(g.node.generators[0].iter, "id", "")) is names and not g.node.generators[0].ifs
            e.oblige(s, "C15:scalar:the-category-test-is-'some-dtype-name-starts-with-the-scalar-prefix'", z3.BoolVal(bool(ok)))
            return [(s, Z("bool", SomePrefix))]

        eng.method_models["any()"] = m_any

        def m_all(e, s, g, node):
            # all(<test>(dim) for dim in dims): the quantifier is cut at an arbitrary index k -- the element test must be exactly "dims[k] is a multi-axis dim"
            if not (isinstance(g, Fn) and isinstance(g.node, ast.GeneratorExp) and len(g.node.generators) == 1 and not g.node.generators[0].ifs and isinstance(g.node.generators[0].target, ast.Name)):
                return None
            gen = g.node.generators[0]
            s_c = s.clone()
            s_c.env = dict(g.closure or s.env)
            (s_i, itv), = e.ev(gen.iter, s_c)
            if not (isinstance(itv, Z) and itv.kind == "seq:dim" and itv.t.eq(dims)):
                return None
            s1 = s_c.clone()
            s1.pc += [0 <= kk, kk < nd_]
            s1.env[gen.target.id] = Z("dim", dims[kk])
            for s2, tv in e.ev(g.node.elt, s1):
                if is_raised(tv):
                    e.oblige(s2, "C15:scalar:the-dim-test-does-not-raise", z3.BoolVal(False))
                    continue
                t_k = e.truth(s2, tv)
                e.oblige(s2, "C15:scalar:loop-continues-only-past-multi-axis-dims", z3.Implies(t_k, AC.is_variadic(dtp, dims[kk])))
                e.oblige(s2, "C15:scalar:returns-False-at-the-first-single-axis-dim", z3.Implies(z3.Not(t_k), z3.Not(AC.is_variadic(dtp, dims[kk]))))
                s.obl = s2.obl
            return [(s, Z("bool", AllVar(nd_)))]

        eng.method_models["all()"] = m_all
        loops = [x for x in ast.walk(cs) if isinstance(x, ast.For)]
        if len(loops) > 1:
            raise Unsupported("_check_scalar: expected one loop")

        def lh(e, node, s0):
            outs = []
            s1 = s0.clone()
            s1.pc += [0 <= kk, kk < nd_, AllVar(0), AllVar(kk), unf(kk)]
            s1.env[node.target.id] = Z("dim", dims[kk])
            for s2, o2 in e.run(node.body, s1):
                if o2.kind in ("normal", "continue"):
                    e.oblige(s2, "C15:scalar:loop-continues-only-past-multi-axis-dims", AllVar(kk + 1))
                elif o2.kind == "return":
                    e.oblige(s2, "C15:scalar:returns-False-at-the-first-single-axis-dim", z3.And(z3.Not(o2.val.t), z3.Not(AllVar(kk + 1))) if isinstance(o2.val, Z) and o2.val.kind == "bool" else z3.BoolVal(False))
                    outs.append((s2.fork(z3.Not(AllVar(nd_))), o2))
                else:
                    outs.append((s2, o2))
            s3 = s0.clone()
            s3.pc += [AllVar(0), AllVar(nd_)]
            outs.append((s3, NORMAL))
            return outs

        if loops:
            eng.loop_specs[id(loops[0])] = lh
        st = State()
        pa = [a.arg for a in cs.args.args]
        st.env = {pa[0]: Z("str", z3.String("scalar_prefix")), pa[1]: any_dt if dt_any else names, pa[2]: Z("seq:dim", dims)}
        st.pc.append(names.t != any_dt.t)
        for s1, o in eng.run(cs.body, st):
            paths += 1
            if o.kind == "return":
                t = eng.truth(s1, o.val)
                eng.oblige(s1, "C15:scalar:survives-iff-all-dims-are-multi-axis-and-the-category-admits-the-scalar-kind", t == z3.And(AllVar(nd_), z3.BoolVal(True) if dt_any else SomePrefix))
            else:
                eng.oblige(s1, f"C15:scalar:returns-a-bool[{o.kind}]", z3.BoolVal(False))
        collect(st.obl, ["C15"])
    # the scalar ladder returns the Python type itself / _not_made: executed for each scalar type, _check_scalar by its contract above
    # the scalar section, by position: everything between the parsing of the specification (token loop / helper call, `dims = tuple(dims)`) and the nesting tail
    tail_idx = [i_ for i_, s_ in enumerate(fn.body) if isinstance(s_, ast.If) and "issubclass(array_type, AbstractArray)" in ast.unparse(s_.test)]
    parse_idx = [i_ for i_, s_ in enumerate(fn.body) if s_ is tloop or (parse_fn is not fn and isinstance(s_, ast.Assign) and isinstance(s_.value, ast.Call) and getattr(s_.value.func, "id", "") == parse_fn.name)]
    if len(tail_idx) != 1 or len(parse_idx) != 1 or parse_idx[0] >= tail_idx[0]:
        raise Unsupported("_make_array_cached: scalar section not found")
    start = parse_idx[0] + 1
    if isinstance(fn.body[start], ast.Assign) and ast.unparse(fn.body[start]).replace(" ", "") == "dims=tuple(dims)":
        start += 1
    scalar_section = fn.body[start:tail_idx[0]]
    if not any("_check_scalar" in ast.unparse(s_) for s_ in scalar_section):
        raise Unsupported("_make_array_cached: scalar ladder not found between the parser and the nesting tail")
    PREFIX_OF = {"bool": "bool", "int": "int", "float": "float", "complex": "complex", "np.bool_": "bool", "np.generic": "", "np.number": ""}
    consts = {k_: Opaque("sentinel:type:" + k_, z3.Const("type_" + k_.replace(".", "_"), U)) for k_ in PREFIX_OF}
    not_made_v = Opaque("sentinel:_not_made", z3.Const("not_made", U))
    for tname in list(PREFIX_OF) + ["some-other-type"]:
        eng = AC.arrays_engine(mod)
        for k_ in ("bool", "int", "float", "complex"):
            eng.globals[k_] = consts[k_]
        eng.globals["np"] = Opaque("global:np", attrs={"bool_": consts["np.bool_"], "generic": consts["np.generic"], "number": consts["np.number"]})
        eng.globals["_not_made"] = not_made_v
        Survives = z3.Bool("check_scalar_result")
        seen_cs = []

        def m_cs(e, s_, a, kw, nd, _seen=seen_cs):
            _seen.append(a)
            return [(s_, Z("bool", Survives))]

        eng.globals["_check_scalar"] = Fn("_check_scalar", model=m_cs)
        eng.globals["get_origin"] = Fn("get_origin", model=lambda e, s_, a, kw, nd: [(s_, NONE)])  # a plain (non-generic) type: typing.get_origin gives None
        st = State()
        at_v = consts.get(tname) or Opaque("sentinel:type:other", z3.Const("type_other", U))
        dt_v, dm_v = Opaque("dtypes"), Opaque("dims")
        st.env = {"array_type": at_v, "dtypes": dt_v, "dims": dm_v}
        st.pc.append(z3.Distinct(*[c.t for c in consts.values()], z3.Const("type_other", U), not_made_v.t))
        for s1, o in eng.run(scalar_section, st):
            paths += 1
            if tname == "some-other-type":
                eng.oblige(s1, "C15:scalar:only-the-scalar-types-take-the-scalar-path", z3.BoolVal(o.kind == "normal" and not seen_cs))
                continue
            called = len(seen_cs) >= 1 and len(seen_cs[-1]) == 3 and isinstance(seen_cs[-1][0], Z) and z3.is_string_value(z3.simplify(seen_cs[-1][0].t)) and z3.simplify(seen_cs[-1][0].t).as_string() == PREFIX_OF[tname] and seen_cs[-1][1] is dt_v and seen_cs[-1][2] is dm_v
            good = o.kind == "return" and called and (o.val is at_v or o.val is not_made_v)
            eng.oblige(s1, "C15:scalar:bool/int/float/complex-survive-as-the-Python-type-itself-or-are-not-made", z3.And(z3.BoolVal(bool(good)), Survives == z3.BoolVal(o.val is at_v)) if good else z3.BoolVal(False), scalar=z3.StringVal(tname))
        collect(st.obl, ["C15"])
    # lazy aliases in __init__.py: the module-level __getattr__ is executed for each alias name; subscriptions are recorded structurally
    im = Module("jaxtyping/__init__.py", repo)
    ga = [n for n in ast.walk(im.tree) if isinstance(n, ast.FunctionDef) and n.name == "__getattr__"]
    alias_ok, alias_found = bool(ga), {}
    if ga:
        gfn = ga[-1]
        functions.append({"qualname": "jaxtyping.__getattr__", "sha256_16": im.sha(gfn), "lines": [gfn.lineno, gfn.end_lineno]})
        want_alias = {"Scalar": "Shaped[jax.Array,'']", "ScalarLike": "Shaped[ArrayLike,'']", "PRNGKeyArray": "Union[Key[jax.Array,''],UInt32[jax.Array,'2']]"}

        def show(v):
            if isinstance(v, Opaque) and v.tag == "subscription":
                return f"{show(v.attrs['of'])}[{','.join(show(x) for x in v.attrs['args'].items)}]"
            if isinstance(v, Opaque):
                return v.tag
            if isinstance(v, Z) and v.kind == "str" and z3.is_string_value(z3.simplify(v.t)):
                return "'" + z3.simplify(v.t).as_string() + "'"
            if isinstance(v, Tup):
                return ",".join(show(x) for x in v.items)
            return "?"

        for alias, want in want_alias.items():
            eng = Engine(im)
            jax_mod = Opaque("jax", attrs={"Array": Opaque("jax.Array"), "typing": Opaque("jax.typing", attrs={"ArrayLike": Opaque("ArrayLike"), "DTypeLike": Opaque("DTypeLike")}), "tree_util": Opaque("jax.tree_util")})

            def m_import(e, s_, node, _jax=jax_mod):
                s2 = s_.clone()
                for a_ in node.names:
                    if isinstance(node, ast.Import):
                        s2.env[(a_.asname or a_.name).split(".")[0]] = _jax if a_.name.split(".")[0] == "jax" else Opaque("module:" + a_.name)
                    else:
                        # `from . import ArrayLike` goes through this very __getattr__: jax.typing.ArrayLike (the "ArrayLike" branch is checked to return it below)
                        s2.env[a_.asname or a_.name] = Opaque(a_.name)
                return [(s2, NORMAL)]

            def m_sub(e, s_, v, args, kw, nd):
                if isinstance(v, Opaque) and v.tag in ("Shaped", "Key", "UInt32", "Union"):
                    a0 = args[0]
                    return [(s_, Opaque("subscription", attrs={"of": v, "args": a0 if isinstance(a0, Tup) else Tup([a0])}))]
                return None

            eng.method_models.update({"__import__": m_import, "__getitem__": m_sub})
            eng.globals.update({k_: Opaque(k_) for k_ in ("Shaped", "Key", "UInt32", "Union")})
            st = State()
            st.env = {gfn.args.args[0].arg: Z("str", S(alias))}
            res = []
            for s1, o in eng.run(gfn.body, st):
                paths += 1
                res.append(show(o.val) if o.kind == "return" else o.kind)
            alias_found[alias] = res
            alias_ok = alias_ok and res == [want]
        # `from . import ArrayLike` resolves through the "ArrayLike" branch
        eng = Engine(im)
        eng.method_models["__import__"] = m_import
        st = State()
        st.env = {gfn.args.args[0].arg: Z("str", S("ArrayLike"))}
        res = [show(o.val) if o.kind == "return" else o.kind for s1, o in eng.run(gfn.body, st)]
        alias_found["ArrayLike"] = res
        alias_ok = alias_ok and res == ["ArrayLike"]
    obligations.append({"clause": "C15:aliases:Scalar,ScalarLike,PRNGKeyArray-equal-their-documented-definitions", "kind": "vc", "pc": [], "goal": z3.BoolVal(bool(alias_ok)), "path": [], "meta": {"found": z3.StringVal(str(alias_found))}, "serves": ["C15"]})
    obligations.append({"clause": "canary-struct:parser-paths", "kind": "canary", "pc": [], "goal": z3.BoolVal(paths == 0), "path": [], "meta": {}})
    return {"unit": NAME, "functions": functions, "obligations": obligations, "paths": paths, "stats": {},
            "assumptions": [
                "str.split() yields non-empty whitespace-free tokens and split(a + ' ' + b) = split(a) ++ split(b); str.count / isidentifier / int(str) are uninterpreted functions shared by code and spec (count == 1 implies a unique decomposition around the separator)",
                "empty-base tokens ('*', '?', 'x=') are a don't-care of the statement: the code treats them as named axes with the empty name",
                "entries of a category's dtypes are strings when a Python scalar type is subscripted (regex categories are out of C15's quantifier)",
                "unions are modelled with two members (the member-wise structure does not depend on the arity)",
                "the modifier loop is cut by its proved step contract: its post-state is 'arbitrary flags and a base on which the loop stops'; termination follows from the strictly decreasing text length (each continuing step drops at least one char)",
            ]}
