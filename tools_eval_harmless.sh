#!/bin/bash
# evaluates one behaviour-preserving refactoring:  tools_eval_harmless.sh <dir with patch.diff [demo.py]> [props...]
# -> applies the patch to a scratch COPY of /repo/jaxtyping, runs the demo, then every listed check (default: all 20) with VERIF_OUT redirected;
#    prints one line per check that does not exit 0 (a false alarm or an undecided) and a summary line
D=$1; shift
PROPS=${@:-C01 C02 C03 C04 C05 C06 C07 C08 C09 C10 C11 C12 C13 C14 C15 C16 C17 C18 C19 C20}
W=$(mktemp -d /tmp/he_XXXXXX); mkdir -p $W/tree $W/out
cp -r /repo/jaxtyping $W/tree/; cp -r /repo/test $W/tree/ 2>/dev/null
( cd $W/tree && patch -p1 -s < $D/patch.diff ) || { echo "APPLY-FAILED $D"; rm -rf $W; exit 2; }
if [ -f $D/demo.py ]; then ( cd $W && PYTHONPATH=$W/tree JAX_PLATFORMS=cpu timeout 600 /venv/bin/python $D/demo.py > $W/demo.log 2>&1 ); echo "demo_rc=$?"; fi
n=0; bad=0
for P in $PROPS; do
  ( cd /verif && VERIF_OUT=$W/out ./check $P --repo $W/tree > $W/out/$P.log 2>&1; echo "$P $?" > $W/out/$P.rc ) &
  n=$((n+1)); if [ $((n % 5)) -eq 0 ]; then wait; fi
done; wait
for P in $PROPS; do rc=$(cut -d' ' -f2 $W/out/$P.rc); if [ "$rc" != "0" ]; then bad=$((bad+1)); echo "NONZERO $P rc=$rc $(grep -E 'VIOLATION|UNDECIDED|CHECKER-DEFECT' $W/out/$P.log | head -2 | cut -c1-260 | tr '\n' '|')"; fi; done
echo "SUMMARY $D nonzero=$bad"
rm -rf $W
