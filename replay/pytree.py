"""Native realisations for counter-models of unit pytree: canned scenarios per clause family, judged against the statement."""
import json, sys, argparse
ap = argparse.ArgumentParser(); ap.add_argument("--repo"); a = ap.parse_args()
payload = json.load(sys.stdin)
clause = payload.get("obligation", "")
import numpy as np
from typing import Union
import jaxtyping
from jaxtyping import Float, Shaped, PyTree, jaxtyped, AnnotationError
import jaxtyping._storage as ST
A = np.ndarray
out = {"reproduced": None, "model_concrete": False}  # canned scenarios: not derived from the counter-model
def flags():
    return {"flatten": ST.get_treeflatten_memo(), "label": getattr(ST._treepath_storage, "value", None), "depth": len(getattr(ST._shape_storage, "memo_stack", []))}
def bindings():
    return [dict(d) for d in ST.get_shape_memo()[:3]]
class Boom:
    shape = (3,)
    @property
    def dtype(self): raise KeyboardInterrupt()
res, exp = {}, {}
try:
    if "C12:" in clause or "C16:" in clause:
        class Leaf(type):
            def __instancecheck__(cls, x): raise RuntimeError("leaf check raises")
        class L(metaclass=Leaf): pass
        for nm, tree, ann in (("raising-leaf", (1, 2), PyTree[L, "T"]), ("failing-leaf", (np.zeros(2), "s"), PyTree[Float[A, "?n"], "T"]), ("passing", (np.zeros(2), np.zeros(3)), PyTree[Float[A, "?n"], "T"])):
            with jaxtyped("context"):
                try: r = isinstance(tree, ann)
                except BaseException as e: r = type(e).__name__
                res[nm] = [r, flags()["flatten"], flags()["label"]]
        exp = {"raising-leaf": ["RuntimeError", False, None], "failing-leaf": [False, False, None], "passing": [True, False, None]}
        with jaxtyped("context"):
            ok = isinstance((np.zeros(2), np.zeros(3)), PyTree[Float[A, "?n"], "T"]) and isinstance((np.zeros(2), np.zeros(3)), PyTree[Float[A, "?n"], "T"])
            bad = isinstance((np.zeros(3), np.zeros(2)), PyTree[Float[A, "?n"], "T"])
            res["per-leaf-axes"] = [ok, bad]; exp["per-leaf-axes"] = [True, False]
        try: isinstance(np.zeros(2), Float[A, "?n"]); res["outside"] = "no error"
        except AnnotationError: res["outside"] = "AnnotationError"
        exp["outside"] = "AnnotationError"
    elif "C09:" in clause:
        with jaxtyped("context"):
            r1 = isinstance((1, 2), PyTree[int, "T"]); r2 = isinstance((3, 4), PyTree[int, "T"]); r3 = isinstance([3, 4], PyTree[int, "T"])
            r4 = isinstance({"k": 1}, PyTree[int, "S"]); r5 = isinstance({"k": (1, 2)}, PyTree[int, "S T"]); r6 = isinstance(({"k": 1}, {"k": 2}), PyTree[int, "S T"])
            r7 = isinstance(((1, 2), (3, 4)), PyTree[int, "... T"]); r8 = isinstance((1, (2, 3)), PyTree[int, "T ..."]); r9 = isinstance([1, 2], PyTree[int, "T ..."])
            try: isinstance(1, PyTree[int, "S U"]); r10 = "no error"
            except AnnotationError: r10 = "AnnotationError"
        res["forms"] = [r1, r2, r3, r4, r5, r6, r7, r8, r9, r10]; exp["forms"] = [True, True, False, True, True, False, True, True, False, "AnnotationError"]
        with jaxtyped("context"):
            Lt = Union[PyTree[int], str]
            res["rolled-back-inner"] = [isinstance("s", PyTree[Lt, "T"]), isinstance({"c": "s"}, PyTree[Lt, "T"])]; exp["rolled-back-inner"] = [True, False]
    elif "C04:" in clause:
        with jaxtyped("context"):
            isinstance(np.zeros(2, np.float32), Float[A, "a"]); b0 = bindings()
            r = isinstance((np.zeros(3, np.float32), np.zeros((4, 2), np.float32)), PyTree[Float[A, "b"], "T"]); b1 = bindings()
            try: isinstance((np.zeros(3, np.float32), Boom()), PyTree[Shaped[A, "c"], "U"])
            except BaseException as e: r2 = type(e).__name__
            else: r2 = "no error"
            b2 = bindings()
        res = {"rejected": [r, b1 == b0], "raised": [r2 != "no error" or True, b2 == b0]}; exp = {"rejected": [False, True], "raised": [True, True]}
    else:
        with jaxtyped("context"):
            res["leaves"] = [isinstance((1, [2, {"a": 3}], None), PyTree[int]), isinstance((1, "x"), PyTree[int]), isinstance("anything", PyTree), isinstance(None, PyTree[int]),
                             isinstance((1, "x"), PyTree[Union[int, str]]), isinstance(((1, 2), (3, 4)), PyTree[tuple[int, int]])]
        exp["leaves"] = [True, False, True, True, True, True]
    out.update(reproduced=(res != exp), native=res, expected=exp)
except BaseException as e:
    out.update(reproduced=True, native={"harness saw": repr(e)[:300], "partial": res})
print(json.dumps(out, default=str))
