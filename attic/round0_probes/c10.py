import ast, sys, os, warnings, time
warnings.simplefilter("ignore")
from jaxtyping._import_hook import JaxtypingTransformer, Typechecker
tc = Typechecker("typeguard.typechecked")
def strip(tree, orig_ids):
    # remove exactly the three kinds of additions, identified structurally (not by marker)
    class S(ast.NodeTransformer):
        def visit_Module(self, n):
            self.generic_visit(n)
            out = []; removed = 0
            for b in n.body:
                if (not removed and isinstance(b, ast.Import) and len(b.names) == 1 and b.names[0].name == "jaxtyping" and b.names[0].asname is None and id(b) not in orig_ids):
                    removed += 1; continue
                out.append(b)
            n.body = out; return n
        def visit_FunctionDef(self, n):
            self.generic_visit(n)
            if n.decorator_list and id(n.decorator_list[-1]) not in orig_ids: n.decorator_list = n.decorator_list[:-1]
            return n
        def visit_ClassDef(self, n):
            self.generic_visit(n)
            if n.decorator_list and id(n.decorator_list[0]) not in orig_ids: n.decorator_list = n.decorator_list[1:]
            return n
    return S().visit(tree)
roots = [os.path.dirname(os.__file__)]
n = bad = ncompile = nfun = 0; t0 = time.time(); badfiles = []
for root in roots:
    for dp, dn, fn in os.walk(root):
        if "site-packages" in dp or "test" in dp.split(os.sep)[-1:]: continue
        for f in fn:
            if not f.endswith(".py"): continue
            p = os.path.join(dp, f)
            try: src = open(p, encoding="utf-8").read(); tree = ast.parse(src)
            except Exception: continue
            before = ast.dump(tree, include_attributes=True)
            orig_ids = {id(x) for x in ast.walk(tree)}
            ndefs = sum(isinstance(x, (ast.FunctionDef, ast.ClassDef)) for x in ast.walk(tree))
            t2 = JaxtypingTransformer(typechecker=tc).visit(tree); ast.fix_missing_locations(t2)
            nadded_decos = sum(1 for x in ast.walk(t2) if isinstance(x, (ast.FunctionDef, ast.ClassDef)) for d in x.decorator_list if id(d) not in orig_ids)
            try: compile(t2, p, "exec", dont_inherit=True); ncompile += 1
            except Exception as e: badfiles.append((p, "compile", repr(e)[:80]))
            after = ast.dump(strip(t2, orig_ids), include_attributes=True)
            n += 1; nfun += ndefs
            if after != before or nadded_decos != ndefs:
                bad += 1; badfiles.append((p, "strip-mismatch", nadded_decos, ndefs))
print(f"files={n} defs+classes={nfun} compiled={ncompile} mismatches={bad} time={time.time()-t0:.1f}s")
for b in badfiles[:10]: print(b)
