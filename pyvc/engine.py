"""PyVC: path-enumerating symbolic executor for the Python subset used by the functions
under contract. Expressions -> values; statements -> outcomes; calls -> contracts/models.

Everything that cannot be modelled raises `Unsupported` (the unit is then *undecided*),
except calls to unknown callables, which get the weakest contract (any result, any
exception class, user-frame havoc) -- see DESIGN 2.2.
"""
from __future__ import annotations

import ast

import z3

from .values import (
    ANY_EXC,
    BOOL,
    INT,
    NONE,
    NORMAL,
    STR,
    U,
    Cls,
    DictObj,
    Exc,
    Fn,
    ListObj,
    NoneV,
    Obj,
    Opaque,
    Outcome,
    Ref,
    State,
    Tup,
    Unsupported,
    Val,
    Z,
    exc_isinstance,
)


class Raised:
    __slots__ = ("exc",)

    def __init__(self, exc):
        self.exc = exc

    def __repr__(self):
        return f"Raised({self.exc})"


def is_raised(v):
    return isinstance(v, Raised)


class DatatypeInfo:
    """A z3 algebraic datatype standing for a family of Python classes / sentinels."""

    def __init__(self, kind, sort, classes, nullary, field_kinds):
        self.kind, self.sort = kind, sort
        self.classes = classes  # clsname -> [field names]
        self.nullary = nullary  # sentinel names
        self.field_kinds = field_kinds  # field -> kind

    def is_cls(self, t, c):
        return getattr(self.sort, f"is_{c}")(t)

    def field(self, t, c, f):
        return getattr(self.sort, f"{c}.{f}")(t)

    def owners(self, f):
        return [c for c, fs in self.classes.items() if f in fs]


class TupleSort:
    """A fixed-arity tuple packed in a z3 datatype (dict values such as (bool, shape))."""

    def __init__(self, kind, sort, ctor, accessors, kinds):
        self.kind, self.sort, self.ctor, self.accessors, self.kinds = kind, sort, ctor, accessors, kinds


KIND_SORT = {"int": INT, "bool": BOOL, "str": STR, "u": U}


def mkbool(b):
    return Z("bool", z3.BoolVal(bool(b)))


def mkint(i):
    return Z("int", z3.IntVal(int(i)))


def mkstr(s):
    return Z("str", z3.StringVal(s))


def str_int(t):
    """str(<int>): the decimal text of a literal integer, an uninterpreted function of a symbolic one (used by the engine AND by every unit's specification,
    so that both sides agree)"""
    ts = z3.simplify(t) if isinstance(t, z3.ExprRef) else z3.IntVal(int(t))
    if z3.is_int_value(ts):
        return z3.StringVal(str(ts.as_long()))
    return z3.Function("py_str_int", INT, STR)(t)


class Engine:
    def __init__(self, module=None):
        self.module = module
        self.globals: dict[str, Val] = {}
        self.datatypes: dict[str, DatatypeInfo] = {}
        self.tuple_sorts: dict[str, TupleSort] = {}
        self.loop_specs = {}  # id(ast loop node) -> handler(engine, node, st) -> [(st, Outcome)]
        self.memoised_fns = set()  # ids of def nodes decorated with lru_cache/cache that were auto-inlined
        self.method_models = {}  # method name -> model(engine, st, recv, args, kwargs, node)
        self.attr_models = {}  # attr name -> model(engine, st, recv, node) for Opaque receivers
        self.user_raises = ANY_EXC  # classes an opaque callee may raise
        self.user_havoc = None  # hook(st) -> [st] applied when user code runs
        self.raising_attr_tags = set()  # Opaque tags whose attribute reads may raise anything
        self.inline_depth = 0
        self.auto_inline = True
        self.approx_opaque_loops = False
        self.max_inline = 3
        self.prune = True
        self._memo_truth = {}
        self._memo_attr = {}
        self._solver_cache = {}
        self.stats = {"paths": 0, "forks": 0, "pruned": 0}
        self.seq_elem = {"seq:int": "int", "seq:str": "str"}
        self.const_true_exprs = set()  # source text of expressions assumed True (e.g. version tests)

    # ------------------------------------------------------------------ utilities
    def feasible(self, pc):
        if not self.prune:
            return True
        if pc:
            # fast path: the newest conjunct is a (negated) uninterpreted Bool constant not otherwise constrained
            c = pc[-1]
            if z3.is_not(c):
                c = c.arg(0)
            if z3.is_const(c) and c.decl().kind() == z3.Z3_OP_UNINTERPRETED:
                cid = c.get_id()
                if not any(self._mentions(x, cid) for x in pc[:-1]):
                    return True
        s = z3.Solver()
        s.set("timeout", 150)
        s.add(*pc)
        r = s.check()
        if r == z3.unsat:
            self.stats["pruned"] += 1
            return False
        return True

    def _mentions(self, expr, cid):
        key = expr.get_id()
        cache = self._solver_cache.setdefault("mentions", {})
        ids = cache.get(key)
        if ids is None:
            ids = set()
            stack = [expr]
            while stack:
                e = stack.pop()
                i = e.get_id()
                if i in ids:
                    continue
                ids.add(i)
                if z3.is_app(e):
                    stack.extend(e.children())
                elif z3.is_quantifier(e):
                    stack.append(e.body())
            cache[key] = ids
        return cid in ids

    def kind_sort(self, kind):
        if kind in KIND_SORT:
            return KIND_SORT[kind]
        if kind in self.datatypes:
            return self.datatypes[kind].sort
        if kind in self.tuple_sorts:
            return self.tuple_sorts[kind].sort
        if kind.startswith("seq:"):
            return z3.SeqSort(self.kind_sort(kind[4:]))
        raise Unsupported(f"no sort for kind {kind}")

    def fresh(self, kind, name="v"):
        return Z(kind, z3.FreshConst(self.kind_sort(kind), name))

    def assert_label(self, node):
        """a stable name for an assert statement: its ordinal among the asserts met so far in this engine (not its text)"""
        tab = self._solver_cache.setdefault("asserts", {})
        if id(node) not in tab:
            tab[id(node)] = f"#{len(tab) + 1}"
        return tab[id(node)]

    def oblige(self, st, clause, goal, **meta):
        st.obl.append({"clause": clause, "pc": list(st.pc), "goal": goal, "path": list(st.path), "meta": meta})

    def raise_(self, st, cls, origin="explicit", args=()):
        return Raised(Exc(cls, args, origin=origin))

    def truth(self, st, v):
        """-> z3 Bool for Python truthiness of v."""
        if isinstance(v, Z):
            if v.kind == "bool":
                return v.t
            if v.kind == "int":
                return v.t != 0
            if v.kind == "str" or v.kind.startswith("seq:"):
                return z3.Length(v.t) > 0
            if v.kind == "u":
                return self._opaque_truth(v.t)
            return z3.BoolVal(True)
        if isinstance(v, NoneV):
            return z3.BoolVal(False)
        if isinstance(v, Tup):
            return z3.BoolVal(len(v.items) > 0)
        if isinstance(v, Ref):
            o = st.get(v)
            if isinstance(o, ListObj):
                if o.items:
                    return z3.BoolVal(True)
                if o.lower is None:
                    return z3.BoolVal(False)
                return o.lower[1]
            if isinstance(o, DictObj):
                k = z3.FreshConst(o.ksort, "k")
                return z3.Exists([k], o.d[k])
            return z3.BoolVal(True)
        if isinstance(v, Opaque):
            return self._opaque_truth(v.t)
        if isinstance(v, (Cls, Fn, Exc)):
            return z3.BoolVal(True)
        raise Unsupported(f"truth of {v}")

    def _opaque_truth(self, t):
        key = t.get_id()
        if key not in self._memo_truth:
            self._memo_truth[key] = z3.FreshConst(BOOL, "truthy")
        return self._memo_truth[key]

    def as_u(self, st, v):
        """identity/equality term of sort U for arbitrary values (used for `is`, ==, call logs)."""
        if isinstance(v, Opaque):
            return v.t
        if isinstance(v, Z) and v.kind == "u":
            return v.t
        if isinstance(v, Ref):
            return z3.Const(f"ref{v.h}", U)
        if isinstance(v, NoneV):
            return z3.Const("PyNone", U)
        if isinstance(v, Cls):
            return z3.Const(f"cls_{v.name}", U)
        if isinstance(v, Fn):
            return z3.Const(f"fn_{v.name}", U)
        if isinstance(v, Exc):
            return z3.Const(f"exc{v.id}", U)
        if isinstance(v, Z):
            f = z3.Function(f"box_{v.kind.replace(':', '_')}", self.kind_sort(v.kind), U)
            return f(v.t)
        if isinstance(v, Tup):
            return z3.FreshConst(U, "tup")
        raise Unsupported(f"as_u {v}")

    # ------------------------------------------------------------------ expression evaluation
    def ev_all(self, exprs, st):
        """evaluate left to right -> [(st, [vals]) or (st, Raised)]"""
        outs = [(st, [])]
        for e in exprs:
            nxt = []
            for s0, acc in outs:
                if is_raised(acc):
                    nxt.append((s0, acc))
                    continue
                for s1, v in self.ev(e, s0):
                    nxt.append((s1, v if is_raised(v) else acc + [v]))
            outs = nxt
        return outs

    def ev(self, e, st):
        m = getattr(self, "ev_" + type(e).__name__, None)
        if m is None:
            raise Unsupported(f"expression {type(e).__name__}: {ast.unparse(e)[:80]}")
        return m(e, st)

    def ev_Constant(self, e, st):
        v = e.value
        if isinstance(v, bool):
            return [(st, mkbool(v))]
        if isinstance(v, int):
            return [(st, mkint(v))]
        if isinstance(v, str):
            return [(st, mkstr(v))]
        if v is None:
            return [(st, NONE)]
        if v is Ellipsis:
            return [(st, Opaque("Ellipsis", z3.Const("PyEllipsis", U)))]
        raise Unsupported(f"constant {v!r}")

    def resolve_name(self, name, st):
        if name in st.env:
            return st.env[name]
        if name in self.globals:
            return self.globals[name]
        for dt in self.datatypes.values():
            if name in dt.nullary:
                return Z(dt.kind, getattr(dt.sort, name))
            if name in dt.classes:
                return Cls(name)
        from .builtins_model import BUILTINS

        if name in BUILTINS:
            return BUILTINS[name]
        if self.module is not None and self.auto_inline:
            # a helper defined at module level of the file under proof and without own contract: inlined (depth-limited),
            # so that harmless "extract helper" refactors do not orphan a proof
            try:
                node = self.module._find_in(self.module.tree.body, name, (ast.FunctionDef,))
            except Exception:
                node = None
            if node is not None:
                decs = [ast.unparse(d).split("(")[0].split(".")[-1] for d in node.decorator_list]
                if any(isinstance(x, (ast.Yield, ast.YieldFrom)) for x in ast.walk(node)):
                    # a generator function: calling it runs none of its body, it returns a NEW generator object (opaque global)
                    return None
                if not decs:
                    return Fn(name, node=node, closure={})
                if all(d in ("lru_cache", "cache") for d in decs):
                    # a memoised helper: same results as its body, but the call first HASHES every argument (calls.inline adds that outcome)
                    f = Fn(name, node=node, closure={})
                    self.memoised_fns.add(id(node))
                    return f
                # any other decorator replaces the function by something this engine knows nothing about: not inlined (opaque global)
        from .values import EXC_PARENT

        if name in EXC_PARENT:
            return Cls(name)
        if self.module is not None and self.auto_inline:
            c = self.module_constant(name)
            if c is not None:
                return c
        return None

    def module_constant(self, name):
        """a module-level name of the file under proof bound exactly once, at top level, to an immutable literal (str / int / bool / None / tuples of these),
        never declared `global` in a function and never deleted: reading it yields that literal (so that naming a constant does not orphan a proof)"""
        cache = self.__dict__.setdefault("_modconst", {})
        if name in cache:
            return cache[name]
        tree = self.module.tree
        stores = [n for n in ast.walk(tree) if isinstance(n, ast.Name) and n.id == name and isinstance(n.ctx, (ast.Store, ast.Del))]
        glob = any(isinstance(n, (ast.Global, ast.Nonlocal)) and name in n.names for n in ast.walk(tree))
        binds = [n for n in tree.body if isinstance(n, ast.Assign) and len(n.targets) == 1 and isinstance(n.targets[0], ast.Name) and n.targets[0].id == name]
        binds += [n for n in tree.body if isinstance(n, ast.AnnAssign) and isinstance(n.target, ast.Name) and n.target.id == name and n.value is not None]
        other = [n for n in ast.walk(tree) if isinstance(n, (ast.FunctionDef, ast.AsyncFunctionDef, ast.ClassDef)) and n.name == name and n in tree.body]
        other += [a for n in ast.walk(tree) if isinstance(n, (ast.Import, ast.ImportFrom)) for a in n.names if (a.asname or a.name.split(".")[0]) == name]
        val = None

        def literal(n):
            if isinstance(n, ast.Constant):
                return isinstance(n.value, (str, int, bool, type(None))) and not isinstance(n.value, (bytes, float, complex))
            if isinstance(n, ast.Tuple):
                return all(literal(x) for x in n.elts)
            return False

        # a store inside a function body creates a local of that function (no `global` declaration): only module-level stores count
        fn_local = {id(x) for f in ast.walk(tree) if isinstance(f, (ast.FunctionDef, ast.AsyncFunctionDef, ast.Lambda)) for x in ast.walk(f) if isinstance(x, ast.Name)}
        top_stores = [n for n in stores if id(n) not in fn_local]
        if len(binds) == 1 and len(top_stores) == 1 and not glob and not other and literal(binds[0].value):
            (s_, val), = self.ev(binds[0].value, State())
        cache[name] = val
        return val

    def ev_Name(self, e, st):
        v = self.resolve_name(e.id, st)
        if v is None:
            # unknown global: an opaque object with a stable identity
            v = Opaque(f"global:{e.id}", z3.Const(f"global_{e.id}", U))
        if isinstance(v, Z) and v.kind == "unbound":
            return [(st, self.raise_(st, "NameError", origin=f"unbound {e.id}"))]
        return [(st, v)]

    def ev_JoinedStr(self, e, st):
        subs = [p.value for p in e.values if isinstance(p, ast.FormattedValue)]
        outs = []
        for s0, vals in self.ev_all(subs, st):
            if is_raised(vals):
                outs.append((s0, vals))
                continue
            it = iter(vals)
            parts, faithful = [], True
            for p in e.values:
                if isinstance(p, ast.Constant):
                    parts.append(z3.StringVal(p.value))
                else:
                    v = next(it)
                    if isinstance(v, Z) and v.kind == "str" and p.conversion == -1 and p.format_spec is None:
                        parts.append(v.t)
                        faithful = faithful and v.tag != "fstr"
                    elif isinstance(v, Z) and v.kind == "int" and p.conversion == -1 and p.format_spec is None:
                        parts.append(self.int_to_str(v.t))
                    else:
                        # the text of a formatted non-string value is abstracted; the literal parts are kept
                        h = self.method_models.get("__format__")
                        ft_ = h(self, s0, v) if (h and p.conversion == -1 and p.format_spec is None) else None
                        parts.append(ft_ if ft_ is not None else z3.FreshConst(STR, "fmt"))
                        faithful = False
            t = parts[0] if len(parts) == 1 else (z3.Concat(*parts) if parts else z3.StringVal(""))
            outs.append((s0, Z("str", t, tag=None if faithful else "fstr")))
        return outs

    def int_to_str(self, t):
        return str_int(t)

    def ev_Tuple(self, e, st):
        return self._display(e, st, False)

    def ev_Set(self, e, st):
        # set displays occur only as membership tables here
        return self._display(e, st, False)

    def ev_List(self, e, st):
        outs = []
        for s0, v in self._display(e, st, True):
            if is_raised(v):
                outs.append((s0, v))
            else:
                s1 = s0.clone()
                outs.append((s1, s1.alloc(ListObj(v.items, None))))
        return outs

    def _display(self, e, st, is_list):
        if any(isinstance(x, ast.Starred) for x in e.elts):
            raise Unsupported("starred display")
        return [(s0, v if is_raised(v) else Tup(v, is_list)) for s0, v in self.ev_all(e.elts, st)]

    def ev_Dict(self, e, st):
        if any(k is None for k in e.keys):
            m = self.method_models.get("__dictmerge__")
            if m is not None and all(k is None for k in e.keys):
                outs = []
                for s0, vals in self.ev_all(list(e.values), st):
                    if is_raised(vals):
                        outs.append((s0, vals))
                        continue
                    r = m(self, s0, list(vals), e)
                    if r is None:
                        raise Unsupported("dict display with ** unpacking")
                    outs.extend(r)
                return outs
            raise Unsupported("dict display with ** unpacking")
        if e.keys:
            # small literal dicts used as scopes: {name: None}
            outs = []
            for s0, vals in self.ev_all([k for k in e.keys] + list(e.values), st):
                if is_raised(vals):
                    outs.append((s0, vals))
                    continue
                s1 = s0.clone()
                outs.append((s1, s1.alloc(Obj("dictlit", {"items": Tup(vals)}))))
            return outs
        s1 = st.clone()
        return [(s1, s1.alloc(self.new_empty_dict(s1, e)))]

    def new_empty_dict(self, st, node):
        """an empty dict of unknown value type: generic Str->U map (units override)."""
        return DictObj.empty(STR, U, "newdict")

    def ev_Attribute(self, e, st):
        outs = []
        for s0, v in self.ev(e.value, st):
            if is_raised(v):
                outs.append((s0, v))
            else:
                outs.extend(self.getattr(s0, v, e.attr, e))
        return outs

    def getattr(self, st, v, attr, node=None):
        if isinstance(v, Z) and v.kind in self.datatypes:
            dt = self.datatypes[v.kind]
            owners = dt.owners(attr)
            safe = z3.Or(*[dt.is_cls(v.t, c) for c in owners]) if owners else z3.BoolVal(False)
            outs = []
            bad = st.fork(z3.Not(safe), f"noattr:{attr}")
            if self.feasible(bad.pc):
                outs.append((bad, self.raise_(bad, "AttributeError", origin=f".{attr}")))
            if owners:
                s1 = st.fork(safe)
                t = None
                for c in owners:
                    ft = dt.field(v.t, c, attr)
                    t = ft if t is None else z3.If(dt.is_cls(v.t, c), ft, t)
                outs.append((s1, Z(dt.field_kinds[attr], t)))
            return outs
        if isinstance(v, Ref):
            o = st.get(v)
            if isinstance(o, Obj):
                if attr in o.attrs:
                    return [(st, o.attrs[attr])]
                if attr in o.absent or not o.open:
                    return [(st, self.raise_(st, "AttributeError", origin=f".{attr}"))]
                m = self.attr_models.get(attr)
                if m:
                    return m(self, st, v, node)
                raise Unsupported(f"attribute {attr} of open object {o.tag}")
            # bound methods of dict/list are handled at call time
            raise Unsupported(f"attribute {attr} of heap object")
        if isinstance(v, Opaque):
            if v.attrs and attr in v.attrs:
                return [(st, v.attrs[attr])]
            m = self.attr_models.get(attr)
            if m:
                r = m(self, st, v, node)
                if r is not None:
                    return r
            return self.opaque_attr(st, v, attr)
        if isinstance(v, Exc):
            if attr == "__notes__":
                return [(st, Opaque("notes"))] if v.notes else [(st, self.raise_(st, "AttributeError", origin=".__notes__"))]
            return [(st, Opaque(f"exc.{attr}"))]
        if isinstance(v, Cls):
            return [(st, Opaque(f"{v.name}.{attr}", z3.Const(f"clsattr_{v.name}_{attr}", U)))]
        if isinstance(v, Fn):
            return [(st, Opaque(f"{v.name}.{attr}", z3.Const(f"fnattr_{v.name}_{attr}", U)))]
        if isinstance(v, Z) and v.kind == "u":
            return self.opaque_attr(st, Opaque(v.tag or "u", v.t), attr)
        raise Unsupported(f"attribute .{attr} of {v}")

    def opaque_attr(self, st, v, attr):
        key = (v.t.get_id(), attr)
        if key not in self._memo_attr:
            self._memo_attr[key] = Opaque(f"{v.tag}.{attr}")
        outs = [(st, self._memo_attr[key])]
        if v.tag in self.raising_attr_tags:
            for s1 in self.apply_user_havoc(st.fork(None, f"attr {attr} raises")):
                outs.append((s1, Raised(Exc(frozenset(self.user_raises), origin=f"{v.tag}.{attr}"))))
        return outs

    def apply_user_havoc(self, st):
        if self.user_havoc is None:
            return [st]
        return self.user_havoc(self, st)

    # ---- operators
    def ev_UnaryOp(self, e, st):
        outs = []
        for s0, v in self.ev(e.operand, st):
            if is_raised(v):
                outs.append((s0, v))
            elif isinstance(e.op, ast.Not):
                outs.append((s0, Z("bool", z3.Not(self.truth(s0, v)))))
            elif isinstance(e.op, ast.USub) and isinstance(v, Z) and v.kind == "int":
                outs.append((s0, Z("int", -v.t)))
            else:
                raise Unsupported(f"unary {ast.unparse(e)}")
        return outs

    def ev_BinOp(self, e, st):
        outs = []
        for s0, vals in self.ev_all([e.left, e.right], st):
            if is_raised(vals):
                outs.append((s0, vals))
                continue
            outs.extend(self.binop(s0, e.op, vals[0], vals[1], e))
        return outs

    def binop(self, st, op, a, b, node=None):
        if isinstance(a, Z) and isinstance(b, Z):
            if a.kind == b.kind == "int":
                if isinstance(op, ast.Add):
                    return [(st, Z("int", a.t + b.t))]
                if isinstance(op, ast.Sub):
                    return [(st, Z("int", a.t - b.t))]
                if isinstance(op, ast.Mult):
                    return [(st, Z("int", a.t * b.t))]
            if a.kind == b.kind and (a.kind == "str" or a.kind.startswith("seq:")) and isinstance(op, ast.Add):
                return [(st, Z(a.kind, z3.Concat(a.t, b.t), tag="fstr" if "fstr" in (a.tag, b.tag) else None))]
        if isinstance(a, Tup) and isinstance(b, Tup) and isinstance(op, ast.Add):
            return [(st, Tup(a.items + b.items, a.is_list))]
        if isinstance(op, ast.Mult) and ((isinstance(a, (Tup, Ref)) and not isinstance(b, (Tup, Ref))) or (isinstance(b, (Tup, Ref)) and not isinstance(a, (Tup, Ref)))):
            # sequence repetition with a count we do not track: an opaque sequence (only handed to opaque callees)
            return [(st, Opaque("seq*n"))]
        if isinstance(a, Z) and a.kind.startswith("seq:") and isinstance(b, Tup) and isinstance(op, ast.Add):
            return [(st, Z(a.kind, z3.Concat(a.t, self.tup_to_seq(st, b, a.kind).t)))] if b.items else [(st, a)]
        if isinstance(op, ast.BitOr):
            m = self.method_models.get("__or__")
            if m:
                return m(self, st, a, [b], {}, node)
        if isinstance(a, Z) and isinstance(b, Z) and a.kind == b.kind == "str" and isinstance(op, ast.Add):
            return [(st, Z("str", z3.Concat(a.t, b.t), tag="fstr" if "fstr" in (a.tag, b.tag) else None))]
        # opaque arithmetic / string formatting on unknown values: pure, fresh result
        if isinstance(a, (Opaque,)) or isinstance(b, (Opaque,)) or (isinstance(a, Z) and a.tag == "fstr") or (isinstance(b, Z) and b.tag == "fstr"):
            if isinstance(a, Z) and a.kind == "str" or isinstance(b, Z) and b.kind == "str":
                return [(st, Z("str", z3.FreshConst(STR, "cat"), tag="fstr"))]
            return [(st, Opaque("binop"))]
        raise Unsupported(f"binop {type(op).__name__} on {a}, {b}")

    def tup_to_seq(self, st, tup, kind):
        elem = kind[4:]
        if not tup.items:
            return Z(kind, z3.Empty(self.kind_sort(kind)))
        units = []
        for it in tup.items:
            if not (isinstance(it, Z) and it.kind == elem):
                raise Unsupported(f"tuple item {it} is not {elem}")
            units.append(z3.Unit(it.t))
        return Z(kind, units[0] if len(units) == 1 else z3.Concat(*units))

    def ev_BoolOp(self, e, st):
        results = []
        is_and = isinstance(e.op, ast.And)

        def go(i, s0):
            for s1, v in self.ev(e.values[i], s0):
                if is_raised(v):
                    results.append((s1, v))
                    continue
                if i == len(e.values) - 1:
                    results.append((s1, v))
                    continue
                c = self.truth(s1, v)
                c = z3.simplify(c)
                if z3.is_true(c):
                    if is_and:
                        go(i + 1, s1)
                    else:
                        results.append((s1, v))
                    continue
                if z3.is_false(c):
                    if is_and:
                        results.append((s1, v))
                    else:
                        go(i + 1, s1)
                    continue
                st_t, st_f = s1.fork(c, "t"), s1.fork(z3.Not(c), "f")
                if is_and:
                    if self.feasible(st_f.pc):
                        results.append((st_f, v))
                    if self.feasible(st_t.pc):
                        go(i + 1, st_t)
                else:
                    if self.feasible(st_t.pc):
                        results.append((st_t, v))
                    if self.feasible(st_f.pc):
                        go(i + 1, st_f)

        go(0, st)
        return results

    def ev_IfExp(self, e, st):
        outs = []
        for s0, c in self.ev(e.test, st):
            if is_raised(c):
                outs.append((s0, c))
                continue
            for s1, b in self.branch(s0, self.truth(s0, c)):
                outs.extend(self.ev(e.body if b else e.orelse, s1))
        return outs

    def branch(self, st, cond):
        cond = z3.simplify(cond)
        if z3.is_true(cond):
            return [(st, True)]
        if z3.is_false(cond):
            return [(st, False)]
        outs = []
        t, f = st.fork(cond, "T"), st.fork(z3.Not(cond), "F")
        self.stats["forks"] += 1
        if self.feasible(t.pc):
            outs.append((t, True))
        if self.feasible(f.pc):
            outs.append((f, False))
        return outs

    def ev_Compare(self, e, st):
        outs = []
        for s0, vals in self.ev_all([e.left] + list(e.comparators), st):
            if is_raised(vals):
                outs.append((s0, vals))
                continue
            # chained comparisons: conjunction (operands are already evaluated; fine for pure operands)
            conj = []
            cur = [(s0, [])]
            for i, op in enumerate(e.ops):
                nxt = []
                for s1, acc in cur:
                    for s2, t in self.compare(s1, op, vals[i], vals[i + 1], e):
                        nxt.append((s2, t if is_raised(t) else acc + [t])) if not is_raised(acc) else nxt.append((s2, acc))
                cur = nxt
            for s1, acc in cur:
                if is_raised(acc):
                    outs.append((s1, acc))
                else:
                    outs.append((s1, Z("bool", acc[0] if len(acc) == 1 else z3.And(*acc))))
        return outs

    def compare(self, st, op, a, b, node=None):
        """-> [(st, z3 Bool | Raised)]"""
        if isinstance(op, (ast.Is, ast.IsNot)):
            t = self.identical(st, a, b)
            return [(st, t if isinstance(op, ast.Is) else z3.Not(t))]
        if isinstance(op, (ast.Eq, ast.NotEq)):
            t = self.equal(st, a, b)
            return [(st, t if isinstance(op, ast.Eq) else z3.Not(t))]
        if isinstance(op, (ast.Lt, ast.LtE, ast.Gt, ast.GtE)):
            if isinstance(a, Z) and isinstance(b, Z) and a.kind == b.kind == "int":
                t = {ast.Lt: a.t < b.t, ast.LtE: a.t <= b.t, ast.Gt: a.t > b.t, ast.GtE: a.t >= b.t}[type(op)]
                return [(st, t)]
            if node is not None and ast.unparse(node) in self.const_true_exprs:
                return [(st, z3.BoolVal(True))]
            return [(st, z3.FreshConst(BOOL, "cmp"))]
        if isinstance(op, (ast.In, ast.NotIn)):
            t = self.contains(st, b, a)
            return [(st, t if isinstance(op, ast.In) else z3.Not(t))]
        raise Unsupported(f"compare {type(op).__name__}")

    def identical(self, st, a, b):
        if isinstance(a, NoneV) or isinstance(b, NoneV):
            if isinstance(a, NoneV) and isinstance(b, NoneV):
                return z3.BoolVal(True)
            o = b if isinstance(a, NoneV) else a
            if isinstance(o, Z) and o.kind.startswith("opt:"):
                raise Unsupported("opt kinds are represented by forks")
            if isinstance(o, (Opaque,)) or (isinstance(o, Z) and o.kind == "u"):
                return self.as_u(st, o) == self.as_u(st, NONE)
            return z3.BoolVal(False)
        if isinstance(a, Z) and isinstance(b, Z) and a.kind == b.kind and a.kind in self.datatypes:
            return a.t == b.t
        for x, y in ((a, b), (b, a)):
            # a module-level object() sentinel is never identical to a str/int/tuple/dataclass value
            if isinstance(x, Opaque) and (x.tag.startswith("sentinel:") or x.tag == "object()") and (isinstance(y, (Tup, Ref, Cls, Fn, Exc)) or (isinstance(y, Z) and y.kind not in ("u", "typeof"))):
                return z3.BoolVal(False)
        if isinstance(a, Z) and a.kind == "typeof" or isinstance(b, Z) and b.kind == "typeof":
            ty, c = (a, b) if isinstance(a, Z) and a.kind == "typeof" else (b, a)
            return self.type_is(st, ty.t, c)
        if isinstance(a, Ref) and isinstance(b, Ref):
            return z3.BoolVal(a.h == b.h)
        if isinstance(a, Cls) and isinstance(b, Cls):
            return z3.BoolVal(a.name == b.name)
        if isinstance(a, Exc) and isinstance(b, Exc):
            return z3.BoolVal(a.id == b.id)
        if isinstance(a, Z) and isinstance(b, Z) and a.kind == b.kind == "bool":
            return a.t == b.t
        kinds_differ = type(a) is not type(b) and not (
            isinstance(a, (Opaque, Z)) and isinstance(b, (Opaque, Z))
        )
        if kinds_differ and not isinstance(a, Opaque) and not isinstance(b, Opaque):
            return z3.BoolVal(False)
        return self.as_u(st, a) == self.as_u(st, b)

    def type_is(self, st, v, c):
        """type(v) is c  (v: the original value wrapped in a 'typeof' Z)"""
        if not isinstance(c, Cls):
            if isinstance(c, Opaque):
                return z3.Function("py_type_is", U, U, BOOL)(self.as_u(st, v), c.t)
            raise Unsupported(f"type(x) is {c}")
        if isinstance(v, Z) and v.kind in self.datatypes:
            dt = self.datatypes[v.kind]
            if c.name in dt.classes:
                return dt.is_cls(v.t, c.name)
            return z3.BoolVal(False)
        static = {"str": "str", "int": "int", "bool": "bool"}
        if isinstance(v, Z) and v.kind in static:
            return z3.BoolVal(static[v.kind] == c.name)
        if isinstance(v, Tup):
            return z3.BoolVal(c.name == ("list" if v.is_list else "tuple"))
        if isinstance(v, Opaque) and v.tag.startswith("sentinel:") and c.name in ("tuple", "list", "str", "int", "bool", "dict"):
            return z3.BoolVal(False)
        if isinstance(v, (Opaque,)) or isinstance(v, Z):
            return z3.Function("py_type_is_cls_" + c.name, U, BOOL)(self.as_u(st, v))
        raise Unsupported(f"type({v}) is {c}")

    def equal(self, st, a, b):
        h = self.method_models.get("__eq__")
        if h is not None:
            r = h(self, st, a, b)
            if r is not None:
                return r
        if isinstance(a, Z) and isinstance(b, Z):
            if a.kind == b.kind and a.kind not in ("u", "typeof"):
                return a.t == b.t
            if {a.kind, b.kind} <= {"int", "bool"}:
                ai = a.t if a.kind == "int" else z3.If(a.t, 1, 0)
                bi = b.t if b.kind == "int" else z3.If(b.t, 1, 0)
                return ai == bi
            if a.kind == "u" or b.kind == "u":
                return self._opaque_eq(st, a, b)
            return z3.BoolVal(False)
        if isinstance(a, NoneV) or isinstance(b, NoneV):
            return self.identical(st, a, b)
        if isinstance(a, Tup) and isinstance(b, Tup):
            if len(a.items) != len(b.items):
                return z3.BoolVal(False)
            return z3.And(*[self.equal(st, x, y) for x, y in zip(a.items, b.items)]) if a.items else z3.BoolVal(True)
        if isinstance(a, Z) and a.kind.startswith("seq:") and isinstance(b, Tup):
            return a.t == self.tup_to_seq(st, b, a.kind).t
        if isinstance(b, Z) and b.kind.startswith("seq:") and isinstance(a, Tup):
            return b.t == self.tup_to_seq(st, a, b.kind).t
        if isinstance(a, Opaque) or isinstance(b, Opaque):
            return self._opaque_eq(st, a, b)
        if isinstance(a, Ref) and isinstance(b, Ref):
            if a.h == b.h:
                return z3.BoolVal(True)
            oa, ob = st.get(a), st.get(b)
            if isinstance(oa, DictObj) and isinstance(ob, DictObj):
                return oa.same(ob)
        if isinstance(a, Cls) and isinstance(b, Cls):
            return z3.BoolVal(a.name == b.name)
        if type(a) is not type(b) or (isinstance(a, Ref) and isinstance(b, Ref)):
            # modelled values of different kinds (or two distinct modelled heap objects without __eq__) are unequal
            return z3.BoolVal(False)
        raise Unsupported(f"== on {a}, {b}")

    def _opaque_eq(self, st, a, b):
        # user-defined __eq__: an uninterpreted symmetric predicate that holds on identical objects
        ua, ub = self.as_u(st, a), self.as_u(st, b)
        eq = z3.Function("py_eq", U, U, BOOL)
        return z3.Or(ua == ub, z3.And(eq(ua, ub), eq(ub, ua)))

    def contains(self, st, container, item):
        if isinstance(container, Tup):
            return z3.Or(*[self.equal(st, item, x) for x in container.items]) if container.items else z3.BoolVal(False)
        if isinstance(container, Z) and container.kind == "str" and isinstance(item, Z) and item.kind == "str":
            return z3.Contains(container.t, item.t)
        if isinstance(container, Z) and container.kind.startswith("seq:") and isinstance(item, Z):
            return z3.Contains(container.t, z3.Unit(item.t))
        if isinstance(container, Z) and container.kind.startswith("set:") and isinstance(item, Z):
            return container.t[item.t]
        if isinstance(container, Ref):
            o = st.get(container)
            if isinstance(o, DictObj) and isinstance(item, Z):
                return o.d[item.t]
            if isinstance(o, ListObj) and o.lower is None:
                return z3.Or(*[self.equal(st, item, x) for x in o.items]) if o.items else z3.BoolVal(False)
        if isinstance(container, Opaque) or isinstance(item, Opaque):
            return z3.Function("py_in", U, U, BOOL)(self.as_u(st, item), self.as_u(st, container))
        raise Unsupported(f"{item} in {container}")

    # ---- subscripts / slices
    def ev_Subscript(self, e, st):
        outs = []
        if isinstance(e.slice, ast.Slice):
            bounds = [x for x in (e.slice.lower, e.slice.upper) if x is not None]
            if e.slice.step is not None:
                raise Unsupported("slice step")
            for s0, vals in self.ev_all([e.value] + bounds, st):
                if is_raised(vals):
                    outs.append((s0, vals))
                    continue
                it = iter(vals[1:])
                lo = next(it) if e.slice.lower is not None else NONE
                hi = next(it) if e.slice.upper is not None else NONE
                outs.extend(self.slice(s0, vals[0], lo, hi))
            return outs
        for s0, vals in self.ev_all([e.value, e.slice], st):
            if is_raised(vals):
                outs.append((s0, vals))
                continue
            outs.extend(self.index(s0, vals[0], vals[1], e))
        return outs

    def slice(self, st, v, lo, hi):
        if isinstance(v, Tup):
            if all(isinstance(b, NoneV) or (isinstance(b, Z) and z3.is_int_value(z3.simplify(b.t))) for b in (lo, hi)):
                l = None if isinstance(lo, NoneV) else z3.simplify(lo.t).as_long()
                h = None if isinstance(hi, NoneV) else z3.simplify(hi.t).as_long()
                return [(st, Tup(v.items[l:h], v.is_list))]
            raise Unsupported("symbolic slice of static tuple")
        if isinstance(v, Ref) and isinstance(st.get(v), ListObj):
            o = st.get(v)
            if o.lower is None and all(isinstance(b, NoneV) or (isinstance(b, Z) and z3.is_int_value(z3.simplify(b.t))) for b in (lo, hi)):
                l = None if isinstance(lo, NoneV) else z3.simplify(lo.t).as_long()
                h = None if isinstance(hi, NoneV) else z3.simplify(hi.t).as_long()
                s1 = st.clone()
                return [(s1, s1.alloc(ListObj(o.items[l:h])))]
            raise Unsupported("slice of symbolic list")
        if isinstance(v, Z) and v.kind == "str" and v.tag == "fstr":
            # a string whose text is abstracted (messages, reprs): its slices are abstracted too
            return [(st, Z("str", z3.FreshConst(STR, "slice"), tag="fstr"))]
        if not (isinstance(v, Z) and (v.kind == "str" or v.kind.startswith("seq:"))):
            if isinstance(v, Opaque):
                return [(st, Opaque("slice"))]
            raise Unsupported(f"slice of {v}")
        n = z3.Length(v.t)
        outs = []

        def norm(s0, b, default_hi):
            """-> [(state, z3 int in [0, n])]"""
            if isinstance(b, NoneV):
                return [(s0, n if default_hi else z3.IntVal(0))]
            if not (isinstance(b, Z) and b.kind == "int"):
                raise Unsupported(f"slice bound {b}")
            t = b.t
            cases = [
                (z3.And(t >= 0, t <= n), t),
                (t > n, n),
                (z3.And(t < 0, n + t >= 0), n + t),
                (z3.And(t < 0, n + t < 0), z3.IntVal(0)),
            ]
            res = []
            for c, val in cases:
                s1 = s0.fork(z3.simplify(c), "slice")
                if self.feasible(s1.pc):
                    res.append((s1, val))
            return res

        for s1, l in norm(st, lo, False):
            for s2, h in norm(s1, hi, True):
                for s3, nonempty in self.branch(s2, h >= l):
                    if nonempty:
                        outs.append((s3, Z(v.kind, z3.Extract(v.t, l, h - l))))
                    else:
                        outs.append((s3, Z(v.kind, z3.Empty(v.t.sort()) if v.kind != "str" else z3.StringVal(""))))
        return outs

    def index(self, st, v, k, node=None):
        if isinstance(v, Tup):
            if isinstance(k, Z) and k.kind == "int" and z3.is_int_value(z3.simplify(k.t)):
                i = z3.simplify(k.t).as_long()
                if -len(v.items) <= i < len(v.items):
                    return [(st, v.items[i])]
                return [(st, self.raise_(st, "IndexError", origin="index"))]
            raise Unsupported("symbolic index into static tuple")
        if isinstance(v, Z) and (v.kind.startswith("seq:") or v.kind == "str") and isinstance(k, Z) and k.kind == "int":
            n = z3.Length(v.t)
            elem = "str" if v.kind == "str" else v.kind[4:]
            outs = []
            for c, idx in ((z3.And(k.t >= 0, k.t < n), k.t), (z3.And(k.t < 0, n + k.t >= 0), n + k.t)):
                s1 = st.fork(z3.simplify(c), "idx")
                if self.feasible(s1.pc):
                    t = z3.SubString(v.t, idx, 1) if v.kind == "str" else v.t[idx]
                    outs.append((s1, Z(elem, t)))
            s2 = st.fork(z3.simplify(z3.Or(k.t >= n, n + k.t < 0)), "idx-oob")
            if self.feasible(s2.pc):
                outs.append((s2, self.raise_(s2, "IndexError", origin="index")))
            return outs
        if isinstance(v, Ref):
            o = st.get(v)
            if isinstance(o, DictObj):
                if not isinstance(k, Z):
                    raise Unsupported(f"dict key {k}")
                outs = []
                has = st.fork(o.d[k.t], "has")
                if self.feasible(has.pc):
                    outs.append((has, self.unpack_val(o.vsort, o.m[k.t])))
                mis = st.fork(z3.Not(o.d[k.t]), "missing")
                if self.feasible(mis.pc):
                    outs.append((mis, self.raise_(mis, "KeyError", origin="subscript")))
                return outs
            if isinstance(o, ListObj):
                return self.list_index(st, v, o, k)
            if isinstance(o, Obj) and o.cls == "dictlit":
                return [(st, Opaque("dictlit-item"))]
        if isinstance(v, Opaque) or (isinstance(v, Z) and v.kind == "u"):
            m = self.method_models.get("__getitem__")
            if m:
                r = m(self, st, v, [k], {}, node)
                if r is not None:
                    return r
            return [(st, Opaque(f"{getattr(v, 'tag', 'u')}[]"))]
        if isinstance(v, Cls):
            return [(st, Opaque(f"{v.name}[...]"))]
        raise Unsupported(f"index {v}[{k}]")

    def list_index(self, st, ref, o, k):
        if not (isinstance(k, Z) and k.kind == "int" and z3.is_int_value(z3.simplify(k.t))):
            raise Unsupported("symbolic list index")
        i = z3.simplify(k.t).as_long()
        if i >= 0 and o.lower is not None:
            # a non-negative index counts from the BOTTOM: with a non-empty (symbolic) lower part it reads from there
            outs = []
            below = st.fork(o.lower[1], "list-index:in-lower-part")
            if self.feasible(below.pc):
                outs.append((below, Opaque("lower-element", z3.FreshConst(U, "lower_element"))))
            top = st.fork(z3.Not(o.lower[1]), "list-index:lower-part-empty")
            if self.feasible(top.pc):
                outs.append((top, o.items[i]) if i < len(o.items) else (top, self.raise_(top, "IndexError", origin="list index")))
            return outs
        if -len(o.items) <= i < len(o.items):
            return [(st, o.items[i])]
        if o.lower is None:
            return [(st, self.raise_(st, "IndexError", origin="list index"))]
        if i < 0:
            # reaches into the unknown lower part: ask the owner's materialiser
            mat = self.method_models.get("__materialise__")
            if mat is None:
                raise Unsupported("index into symbolic lower part of a list")
            return mat(self, st, ref, o, i)
        raise Unsupported("non-negative index into list with symbolic lower part")

    def kind_of_sort(self, sort):
        if sort == INT:
            return "int"
        if sort == BOOL:
            return "bool"
        if sort == STR:
            return "str"
        if sort == U:
            return "u"
        for k, dt in self.datatypes.items():
            if dt.sort == sort:
                return k
        for k, ts in self.tuple_sorts.items():
            if ts.sort == sort:
                return k
        if z3.is_seq_sort(sort):
            return "seq:" + self.kind_of_sort(sort.basis())
        raise Unsupported(f"unknown sort {sort}")

    def unpack_val(self, sort, t):
        kind = self.kind_of_sort(sort)
        if kind in self.tuple_sorts:
            ts = self.tuple_sorts[kind]
            return Tup([Z(k, acc(t)) for acc, k in zip(ts.accessors, ts.kinds)])
        return Z(kind, t)

    def pack_val(self, st, sort, v):
        kind = self.kind_of_sort(sort)
        if kind in self.tuple_sorts:
            ts = self.tuple_sorts[kind]
            if isinstance(v, Tup) and len(v.items) == len(ts.kinds):
                parts = []
                for it, k in zip(v.items, ts.kinds):
                    if isinstance(it, Tup) and k.startswith("seq:"):
                        it = self.tup_to_seq(st, it, k)
                    if not (isinstance(it, Z) and it.kind == k):
                        raise Unsupported(f"cannot pack {it} as {k}")
                    parts.append(it.t)
                return ts.ctor(*parts)
            h = self.method_models.get("__ill_typed_store__")
            if h is not None:
                return h(self, st, sort, kind, v)
            raise Unsupported(f"cannot pack {v} as {kind}")
        if kind == "u":
            return self.as_u(st, v)
        if isinstance(v, Z) and v.kind == kind:
            return v.t
        h = self.method_models.get("__ill_typed_store__")
        if h is not None:
            # the unit states a typing invariant for this container: the store becomes a failed obligation and execution goes on with an arbitrary well-typed value
            return h(self, st, sort, kind, v)
        raise Unsupported(f"cannot store {v} in dict of {kind}")

    def ev_Starred(self, e, st):
        raise Unsupported("starred expression outside call")

    def ev_Lambda(self, e, st):
        return [(st, Fn("<lambda>", node=e, closure=dict(st.env)))]

    def ev_NamedExpr(self, e, st):
        raise Unsupported("walrus")

    def ev_GeneratorExp(self, e, st):
        return [(st, Fn("<genexpr>", node=e, closure=dict(st.env)))]

    def ev_ListComp(self, e, st):
        m = self.method_models.get("__listcomp__")
        if m:
            return m(self, st, e)
        raise Unsupported("list comprehension")

    def ev_DictComp(self, e, st):
        m = self.method_models.get("__dictcomp__")
        if m:
            return m(self, st, e)
        raise Unsupported("dict comprehension")

    # ------------------------------------------------------------------ calls
    def ev_Call(self, e, st):
        from . import calls

        return calls.ev_call(self, e, st)

    # ------------------------------------------------------------------ statements
    def run(self, stmts, st):
        from . import stmts as S

        return S.run(self, stmts, st)
