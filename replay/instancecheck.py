"""Replays counter-models of unit instancecheck natively.
C04 clauses: a check that raises class X from user code running inside the shape check (after an earlier axis was
bound) must leave the context's bindings untouched. Realisation: symbolic axis `{b.v}` whose property raises X."""
import json, sys, argparse
ap = argparse.ArgumentParser(); ap.add_argument("--repo"); a = ap.parse_args()
payload = json.load(sys.stdin)
from pyvc.modelparse import meta
import numpy as np
import jaxtyping
from jaxtyping import Float, jaxtyped, AnnotationError
import jaxtyping._storage as ST
model = payload.get("model") or {}
clause = payload.get("obligation", "")
exc = meta(model, "exc", "OtherException")
REAL = {"AnnotationError": AnnotationError, "TypeCheckError": jaxtyping.TypeCheckError, "OtherTypeError": TypeError, "ValueError": ValueError, "KeyError": KeyError,
        "AttributeError": AttributeError, "NameError": NameError, "OtherException": RuntimeError, "NonExceptionBase": KeyboardInterrupt}
out = {"reproduced": None, "model_concrete": False}
if "C04:raise-implies-view-unchanged" in clause:
    X = REAL.get(exc, RuntimeError)
    class B:
        @property
        def v(self): raise X("injected by replay")
    seen = {}
    @jaxtyped(typechecker=None)
    def f(x, b):
        before = {k: dict(v) for k, v in zip("sigma nu pi".split(), ST.get_shape_memo()[:3])}
        try:
            isinstance(x, Float[np.ndarray, "p {b.v}"])
        except BaseException as e:
            seen["raised"] = type(e).__name__
        after = {k: dict(v) for k, v in zip("sigma nu pi".split(), ST.get_shape_memo()[:3])}
        seen["before"], seen["after"] = before, after
    f(np.zeros((3, 4), np.float32), B())
    leaked = seen["before"] != seen["after"]
    out.update(reproduced=bool(leaked), model_concrete=False,
               input={"annotation": 'Float[np.ndarray, "p {b.v}"]', "shape": [3, 4], "b.v raises": X.__name__},
               native={"raised": seen.get("raised"), "bindings_before": repr(seen["before"]), "bindings_after": repr(seen["after"])},
               expected={"bindings_after": repr(seen["before"])},
               snippet="see replay/instancecheck.py: jaxtyped(typechecker=None) f(x,b): isinstance(x, Float[np.ndarray,'p {b.v}']) with b.v raising " + X.__name__)
elif "C04:nonempty-result-implies-view-unchanged" in clause:
    seen = {}
    with jaxtyped("context"):
        before = [dict(v) for v in ST.get_shape_memo()[:3]]
        r = isinstance(np.zeros((3, 4), np.float32), Float[np.ndarray, "p p"])
        after = [dict(v) for v in ST.get_shape_memo()[:3]]
    out.update(reproduced=(before != after), model_concrete=False, input={"annotation": "Float[np.ndarray,'p p']", "shape": [3, 4]},
               native={"result": r, "after": repr(after)}, expected={"after": repr(before)})
else:
    out["error"] = "no native realisation for this clause"
print(json.dumps(out, default=str))
