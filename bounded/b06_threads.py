#!/usr/bin/env python
"""b06_threads.py -- bounded stand-in for property C06.

C06: checks and decorated calls running concurrently in different threads never observe or alter one
another's axis bindings, structure bindings, '?'-leaf position or PyTree-flattening mode.

What is enumerated
------------------
A catalogue of 10 workloads (decorated calls binding thread-specific sizes, nested decorated calls,
`jaxtyped("context")` blocks, duck-array checks, `{expr}` symbolic axes, PyTree checks with `?` axes
through a custom flattener / duck leaves, failing checks that trigger rollback, context-free checks)
and 11 PAUSE POINTS: places inside *user code that jaxtyping calls in the middle of a check* (a duck
array's `shape` property, a `{hook()}` axis expression, a custom pytree flatten, the wrapped function
body, the body of a context block).  A thread that reaches its designated pause point blocks on an Event
until the coordinator releases it, which forces -- deterministically -- the interleavings

    nested : A pauses at p;   B runs a complete workload;             A resumes
    crossed: A pauses at p;   B starts and pauses at q;   A resumes and finishes;  B resumes
    triple (thorough): A pauses, B pauses, C runs a complete workload, then A,B resume in both orders;
                       and A,B,C all pause and resume in all 6 orders

with thread-specific sizes (3 / 5 / 7) on the SAME shared annotation objects and decorated functions,
followed by a free-running stress phase with sys.setswitchinterval(1e-6) in which every hook yields
the GIL.  Every workload records every verdict, its print_bindings() transcripts and what it can see of
jaxtyping's transient state (flatten mode, '?' label, context-stack depth) at start, inside and at end.

Oracle: a hand-written table (function `expected`) of what each workload must record when it runs
ALONE, derived from /repo/docs (array.md, pytree.md, jaxtyped docstring); by the property every thread
must record exactly that under every schedule.  A solo run of every workload is compared with the table
first (clause `solo`); nothing from the code under test feeds the expectation.
"""
import sys, os, io, re, ast, json, time, types, queue, random, warnings, contextlib, itertools, threading

sys.dont_write_bytecode = True  # never leave __pycache__ behind in /verif
sys.path.insert(0, os.path.dirname(os.path.abspath(__file__)))
import _common  # noqa: E402

os.environ.setdefault("JAX_PLATFORMS", "cpu")
ARGS = _common.setup("C06 bounded stand-in: threads never see each other's bindings or transient check state")
warnings.simplefilter("ignore")

import numpy as np  # noqa: E402
import jax.tree_util as jtu  # noqa: E402
import jaxtyping  # noqa: E402
from jaxtyping import AbstractDtype, Float, PyTree, jaxtyped, print_bindings  # noqa: E402
from jaxtyping import _storage  # noqa: E402
from typeguard import typechecked as tg  # noqa: E402

WAIT = 30.0  # seconds a paused thread / the coordinator waits before declaring the schedule stuck


# --------------------------------------------------------------------------------------------
# per-thread control and the hook that user code calls
# --------------------------------------------------------------------------------------------
class Ctl:
    def __init__(self, name, s, pause_at=None, q=None, yielding=False):
        self.name, self.s, self.pause_at, self.q, self.yielding = name, s, pause_at, q, yielding
        self.resume = threading.Event()
        self.paused = False
        self.timeout = False
        self.rec = {}
        self.result = None


CUR = {}


def cur():
    return CUR[threading.get_ident()]


def hk(point):
    c = CUR.get(threading.get_ident())
    if c is None:
        return
    if c.yielding:
        time.sleep(0)  # give the GIL away exactly here
        return
    if c.pause_at == point and not c.paused:
        c.paused = True
        c.q.put(("reached", c.name))
        if not c.resume.wait(WAIT):
            c.timeout = True


_hook = types.ModuleType("_b06hook")


def _h():
    hk("fexpr")
    return cur().s + 1


_hook.h = _h
sys.modules["_b06hook"] = _hook


def z(*s):
    return np.zeros(s)


def zi(*s):
    return np.zeros(s, dtype=int)


class DuckDtype(AbstractDtype):
    dtypes = ["duck"]


class Duck:
    def __init__(self, shape, hooked=False):
        self._shape, self._hooked, self._n = tuple(shape), hooked, 0

    @property
    def shape(self):
        if self._hooked:
            self._n += 1
            hk(f"shape@{self._n}")
        return self._shape

    @property
    def dtype(self):
        return "duck"


class PNode:  # custom pytree node; its flatten is user code that runs while jaxtyping is in flatten mode
    def __init__(self, x):
        self.x = x


def _pnode_flatten(p):
    hk("flatten")
    return (p.x,), None


jtu.register_pytree_node(PNode, _pnode_flatten, lambda aux, ch: PNode(ch[0]))


def norm(v):
    if isinstance(v, (tuple, list)):
        return [norm(x) for x in v]
    if isinstance(v, dict):
        return {str(k): norm(x) for k, x in v.items()}
    if isinstance(v, (bool, int, str, type(None))):
        return v
    if isinstance(v, np.generic):
        return v.item()
    return repr(v)


def T(thunk):
    try:
        return norm(thunk())
    except BaseException as e:  # noqa: BLE001
        return "!" + type(e).__name__


PRINT_LOCK = threading.Lock()


def bindings():
    """print_bindings() transcript of the calling thread: {axis/structure name: value}; '?'-axes (whose
    internal per-leaf names are not documented) are collected as the sorted list of their values under '?'"""
    buf = io.StringIO()
    # redirect_stdout swaps the process-wide sys.stdout: serialise the (tiny) critical section
    with PRINT_LOCK:
        with contextlib.redirect_stdout(buf):
            print_bindings()
    out, q = {}, []
    for line in buf.getvalue().splitlines():
        m = re.match(r"^(.+?)=(.*)$", line)
        if not m:
            continue
        key, val = m.group(1).strip(), m.group(2).strip()
        try:
            v = ast.literal_eval(val)
            v = list(v) if isinstance(v, tuple) else v
        except Exception:
            v = "struct"
        if key.isidentifier():
            out[key] = v
        else:
            q.append(v)
    if q:
        out["?"] = sorted(q, key=lambda v: (0, v, "") if isinstance(v, int) else (1, 0, repr(v)))
    return out


def state():
    """[flatten mode, '?' label, context-stack depth] as visible to the calling thread"""
    f = getattr(_storage, "get_treeflatten_memo", None)
    tp = getattr(_storage, "_treepath_storage", None)
    ss = getattr(_storage, "_shape_storage", None)
    return [T(lambda: bool(f())) if f is not None else False,
            None if tp is None else getattr(tp, "value", None),
            0 if ss is None else len(getattr(ss, "memo_stack", []))]


# --------------------------------------------------------------------------------------------
# shared annotation objects and decorated functions (deliberately shared by all threads)
# --------------------------------------------------------------------------------------------
AB = Float[np.ndarray, "a b"]
A1 = Float[np.ndarray, "a"]
P1 = Float[np.ndarray, "p"]
QN = Float[np.ndarray, "?n"]
PT = PyTree[QN, "T"]
PTI = PyTree[int]
DAB = DuckDtype[Duck, "a *b c"]
DA = DuckDtype[Duck, "a"]
DQ = DuckDtype[Duck, "?n"]
PTD = PyTree[DQ, "T"]
FX = Float[np.ndarray, "a {__import__('_b06hook').h()}"]
RB = Float[np.ndarray, "p {__import__('_b06hook').h()} p"]


@jaxtyped(typechecker=tg)
def F_CALL(x: Float[np.ndarray, "a b"], y: Float[np.ndarray, "b c"], tag) -> Float[np.ndarray, "a c"]:
    r = cur().rec
    hk("body")
    n = x.shape[0]
    r[tag + "in-a-same"] = T(lambda: isinstance(z(n), A1))
    r[tag + "in-a-other"] = T(lambda: isinstance(z(n + 1), A1))
    r[tag + "in-bindings"] = T(bindings)
    r[tag + "in-state"] = state()
    return x @ y


@jaxtyped(typechecker=tg)
def F_OUTER(x: Float[np.ndarray, "a b"]) -> Float[np.ndarray, "a b"]:
    c = cur()
    r, s = c.rec, c.s
    hk("outer")
    r["outer-a-same"] = T(lambda: isinstance(z(s), A1))
    r["inner-call"] = T(lambda: F_CALL(z(s + 3, s + 4), z(s + 4, s + 5), "inner-").shape)
    r["outer-a-same-after"] = T(lambda: isinstance(z(s), A1))
    r["outer-a-other-after"] = T(lambda: isinstance(z(s + 3), A1))
    r["outer-bindings"] = T(bindings)
    r["outer-state"] = state()
    return x


# --------------------------------------------------------------------------------------------
# workloads: fn(ctl) fills ctl.rec ; expected(op, s) is the documented solo record
# --------------------------------------------------------------------------------------------
def w_array_top(c):
    r, s = c.rec, c.s
    r["accept"] = T(lambda: isinstance(z(s, s + 1), AB))
    r["accept-other-sizes"] = T(lambda: isinstance(z(s + 1, s), AB))
    r["reject-dtype"] = T(lambda: isinstance(zi(s), A1))
    r["reject-rank"] = T(lambda: isinstance(z(s, s), A1))
    r["qmark-outside"] = T(lambda: isinstance(z(s), QN))
    r["pytree-int"] = T(lambda: [isinstance((1, (2, 3)), PTI), isinstance((1, "x"), PTI)])
    r["bindings"] = T(bindings)


def w_call(c):
    r, s = c.rec, c.s
    r["call-ok"] = T(lambda: F_CALL(z(s, s + 1), z(s + 1, s + 2), "").shape)
    r["call-bad"] = T(lambda: F_CALL(z(s, s + 1), z(s + 2, s + 2), "bad-"))


def w_nested(c):
    r, s = c.rec, c.s
    r["outer-call"] = T(lambda: F_OUTER(z(s, s + 1)).shape)


def w_ctxblock(c):
    r, s = c.rec, c.s
    with jaxtyped("context"):
        r["first"] = T(lambda: isinstance(z(s, s + 1), AB))
        hk("between")
        r["mismatch"] = T(lambda: isinstance(z(s + 1, s + 1), AB))
        r["again"] = T(lambda: isinstance(z(s, s + 1), AB))
        r["a-other"] = T(lambda: isinstance(z(s + 1), A1))
        r["in-bindings"] = T(bindings)
        r["in-state"] = state()
    r["after-bindings"] = T(bindings)


def w_duck(c):
    r, s = c.rec, c.s
    with jaxtyped("context"):
        r["duck"] = T(lambda: isinstance(Duck((s, 1, s + 1), hooked=True), DAB))
        r["a-other"] = T(lambda: isinstance(Duck((s + 1,)), DA))
        r["a-same"] = T(lambda: isinstance(Duck((s,)), DA))
        r["in-bindings"] = T(bindings)
        r["in-state"] = state()


def w_fexpr(c):
    r, s = c.rec, c.s
    with jaxtyped("context"):
        r["fexpr"] = T(lambda: isinstance(z(s, s + 1), FX))
        r["fexpr-wrong"] = T(lambda: isinstance(z(s, s + 2), FX))
        r["a-other"] = T(lambda: isinstance(z(s + 1), A1))
        r["in-bindings"] = T(bindings)
        r["in-state"] = state()


def w_pt_flatten(c):
    r, s = c.rec, c.s
    with jaxtyped("context"):
        r["tree"] = T(lambda: isinstance([z(s), PNode(z(s + 1))], PT))
        r["tree-swapped-sizes"] = T(lambda: isinstance([z(s + 1), PNode(z(s))], PT))
        r["tree-other-structure"] = T(lambda: isinstance((z(s), z(s + 1)), PT))
        r["tree-again"] = T(lambda: isinstance([z(s), PNode(z(s + 1))], PT))
        r["wrong-dtype-leaf"] = T(lambda: isinstance([zi(s), PNode(z(s + 1))], PT))
        r["in-bindings"] = T(bindings)
        r["in-state"] = state()


def w_pt_leaf(c):
    r, s = c.rec, c.s
    with jaxtyped("context"):
        r["tree"] = T(lambda: isinstance([Duck((s,)), Duck((s + 1,), hooked=True)], PTD))
        r["tree-swapped-sizes"] = T(lambda: isinstance([Duck((s + 1,)), Duck((s,))], PTD))
        r["tree-again"] = T(lambda: isinstance([Duck((s,)), Duck((s + 1,))], PTD))
        r["qmark-outside"] = T(lambda: isinstance(Duck((s,)), DQ))
        r["in-bindings"] = T(bindings)
        r["in-state"] = state()


def w_rollback(c):
    r, s = c.rec, c.s
    with jaxtyped("context"):
        r["bind-a"] = T(lambda: isinstance(z(s), A1))
        r["failing"] = T(lambda: isinstance(z(s, s + 1, s + 2), RB))  # p=s, {h()}=s+1 ok, p=s+2 mismatch -> rolled back
        r["bindings-after-failure"] = T(bindings)
        r["p-free"] = T(lambda: isinstance(z(s + 2), P1))
        r["b-free"] = T(lambda: isinstance(z(s, s + 1), AB))
        r["in-bindings"] = T(bindings)
        r["in-state"] = state()


def w_pt_fail(c):
    """failing PyTree check: T and leaf-0 size are bound, then leaf 1 has the wrong dtype -> rolled back"""
    r, s = c.rec, c.s
    with jaxtyped("context"):
        r["failing"] = T(lambda: isinstance([z(s), PNode(zi(s + 1))], PT))
        r["bindings-after-failure"] = T(bindings)
        r["other-structure-now-fine"] = T(lambda: isinstance((z(s + 1), z(s)), PT))
        r["in-bindings"] = T(bindings)
        r["in-state"] = state()


WORKLOADS = {
    "array-top": (w_array_top, []),
    "call": (w_call, ["body"]),
    "nested": (w_nested, ["outer", "body"]),
    "ctxblock": (w_ctxblock, ["between"]),
    "duck": (w_duck, ["shape@1", "shape@3", "shape@4"]),
    "fexpr": (w_fexpr, ["fexpr"]),
    "pt-flatten": (w_pt_flatten, ["flatten"]),
    "pt-leaf": (w_pt_leaf, ["shape@1"]),
    "rollback": (w_rollback, ["fexpr"]),
    "pt-fail": (w_pt_fail, ["flatten"]),
}
PAUSES = [(w, p) for w, (_, ps) in WORKLOADS.items() for p in ps]

CLEAN0, CLEAN1, CLEAN2 = [False, None, 0], [False, None, 1], [False, None, 2]


def expected(op, s):
    """what the workload records when it runs alone -- written from the docs, not from the code"""
    e = {"state-start": CLEAN0, "state-end": CLEAN0, "bindings-end": {}}
    if op == "array-top":
        # no jaxtyped context: names are not compared with anything; '?' needs an enclosing structured PyTree
        e.update({"accept": True, "accept-other-sizes": True, "reject-dtype": False, "reject-rank": False,
                  "qmark-outside": "!AnnotationError", "pytree-int": [True, False], "bindings": {}})
    elif op == "call":
        e.update({"in-a-same": True, "in-a-other": False, "in-bindings": {"a": s, "b": s + 1, "c": s + 2}, "in-state": CLEAN1,
                  "call-ok": [s, s + 2], "call-bad": "!TypeCheckError"})
    elif op == "nested":
        e.update({"outer-a-same": True,
                  "inner-in-a-same": True, "inner-in-a-other": False,
                  "inner-in-bindings": {"a": s + 3, "b": s + 4, "c": s + 5}, "inner-in-state": CLEAN2,
                  "inner-call": [s + 3, s + 5], "outer-a-same-after": True, "outer-a-other-after": False,
                  "outer-bindings": {"a": s, "b": s + 1}, "outer-state": CLEAN1, "outer-call": [s, s + 1]})
    elif op == "ctxblock":
        e.update({"first": True, "mismatch": False, "again": True, "a-other": False,
                  "in-bindings": {"a": s, "b": s + 1}, "in-state": CLEAN1, "after-bindings": {}})
    elif op == "duck":
        e.update({"duck": True, "a-other": False, "a-same": True,
                  "in-bindings": {"a": s, "b": [1], "c": s + 1}, "in-state": CLEAN1})
    elif op == "fexpr":
        e.update({"fexpr": True, "fexpr-wrong": False, "a-other": False, "in-bindings": {"a": s}, "in-state": CLEAN1})
    elif op == "pt-flatten":
        e.update({"tree": True, "tree-swapped-sizes": False, "tree-other-structure": False, "tree-again": True,
                  "wrong-dtype-leaf": False, "in-bindings": {"T": "struct", "?": [s, s + 1]}, "in-state": CLEAN1})
    elif op == "pt-leaf":
        e.update({"tree": True, "tree-swapped-sizes": False, "tree-again": True, "qmark-outside": "!AnnotationError",
                  "in-bindings": {"T": "struct", "?": [s, s + 1]}, "in-state": CLEAN1})
    elif op == "rollback":
        e.update({"bind-a": True, "failing": False, "bindings-after-failure": {"a": s}, "p-free": True, "b-free": True,
                  "in-bindings": {"a": s, "p": s + 2, "b": s + 1}, "in-state": CLEAN1})
    elif op == "pt-fail":
        e.update({"failing": False, "bindings-after-failure": {}, "other-structure-now-fine": True,
                  "in-bindings": {"T": "struct", "?": [s, s + 1]}, "in-state": CLEAN1})
    else:
        raise KeyError(op)
    return norm(e)


def run_workload(op, c):
    c.rec = {}
    c.rec["state-start"] = state()
    T(lambda: WORKLOADS[op][0](c))
    c.rec["state-end"] = state()
    c.rec["bindings-end"] = T(bindings)
    return c.rec


def diff(op, s, rec):
    e = expected(op, s)
    d = {}
    for k in sorted(set(e) | set(rec)):
        if e.get(k, "<absent>") != rec.get(k, "<absent>"):
            d[k] = {"expected": e.get(k, "<absent>"), "actual": rec.get(k, "<absent>")}
    return d


# --------------------------------------------------------------------------------------------
# deterministic schedules
# --------------------------------------------------------------------------------------------
class Stuck(Exception):
    pass


def thread_main(c, op):
    CUR[threading.get_ident()] = c
    try:
        c.result = run_workload(op, c)
    except BaseException as e:  # noqa: BLE001  (workloads catch everything themselves; this is a harness error)
        c.result = {"harness-exception": repr(e)}
    finally:
        CUR.pop(threading.get_ident(), None)
        if c.q is not None:
            c.q.put(("done", c.name))


def run_schedule(actors, script):
    """actors: {name: (op, pause_point or None, size)};  script: list of ('start'|'reached'|'resume'|'join', name).
    Returns ({name: record}, realised: bool)."""
    q = queue.Queue()
    ctl = {n: Ctl(n, s, pause_at=p, q=q) for n, (op, p, s) in actors.items()}
    th = {n: threading.Thread(target=thread_main, args=(ctl[n], actors[n][0]), daemon=True) for n in actors}
    seen = set()
    realised = True

    def wait_for(kind, name):
        while (kind, name) not in seen:
            try:
                ev = q.get(timeout=WAIT)
            except queue.Empty:
                raise Stuck(f"waiting for {kind} {name}")
            seen.add(ev)
            if kind == "reached" and ("done", name) in seen and ("reached", name) not in seen:
                return False
        return True

    try:
        for act, n in script:
            if act == "start":
                th[n].start()
            elif act == "reached":
                if not wait_for("reached", n):
                    realised = False
            elif act == "resume":
                ctl[n].resume.set()
            elif act == "join":
                ctl[n].resume.set()
                wait_for("done", n)
                th[n].join(WAIT)
    finally:
        for c in ctl.values():
            c.resume.set()
    for c in ctl.values():
        if c.timeout:
            raise Stuck(f"thread {c.name} was never resumed")
    return {n: ctl[n].result for n in actors}, realised


def solo(op, s):
    recs, _ = run_schedule({"A": (op, None, s)}, [("start", "A"), ("join", "A")])
    return recs["A"]


def scenarios(tier):
    ops = list(WORKLOADS)
    out = []
    for sizes in ((3, 5), (5, 3)):
        for (wa, pa) in PAUSES:
            for wb in ops:
                out.append(("nested", [("A", wa, pa, sizes[0]), ("B", wb, None, sizes[1])],
                            [("start", "A"), ("reached", "A"), ("start", "B"), ("join", "B"), ("resume", "A"), ("join", "A")]))
            for (wb, pb) in PAUSES:
                out.append(("crossed", [("A", wa, pa, sizes[0]), ("B", wb, pb, sizes[1])],
                            [("start", "A"), ("reached", "A"), ("start", "B"), ("reached", "B"),
                             ("resume", "A"), ("join", "A"), ("resume", "B"), ("join", "B")]))
    s3 = (3, 5, 7)
    if tier == "quick":
        # a slice of the 3-thread space: A and B paused, C runs the context-free probing workload
        for (wa, pa) in PAUSES:
            for (wb, pb) in PAUSES:
                for order in (("A", "B"), ("B", "A")):
                    out.append(("triple-" + "".join(order), [("A", wa, pa, s3[0]), ("B", wb, pb, s3[1]), ("C", "array-top", None, s3[2])],
                                [("start", "A"), ("reached", "A"), ("start", "B"), ("reached", "B"), ("start", "C"), ("join", "C")]
                                + [x for n in order for x in (("resume", n), ("join", n))]))
    if tier == "thorough":
        for (wa, pa) in PAUSES:
            for (wb, pb) in PAUSES:
                for wc in ops:
                    for order in (("A", "B"), ("B", "A")):
                        out.append(("triple-" + "".join(order), [("A", wa, pa, s3[0]), ("B", wb, pb, s3[1]), ("C", wc, None, s3[2])],
                                    [("start", "A"), ("reached", "A"), ("start", "B"), ("reached", "B"), ("start", "C"), ("join", "C")]
                                    + [x for n in order for x in (("resume", n), ("join", n))]))
                for (wc, pc) in PAUSES:
                    for order in itertools.permutations("ABC"):
                        out.append(("allpause-" + "".join(order), [("A", wa, pa, s3[0]), ("B", wb, pb, s3[1]), ("C", wc, pc, s3[2])],
                                    [("start", "A"), ("reached", "A"), ("start", "B"), ("reached", "B"), ("start", "C"), ("reached", "C")]
                                    + [x for n in order for x in (("resume", n), ("join", n))]))
    return out


def scen_id(kind, actors):
    return kind + ":" + "|".join(f"{op}@{p}" if p else op for (_, op, p, _) in actors) + ":sizes=" + ",".join(str(a[3]) for a in actors)


TEMPLATES = {
    "flatten": '''# thread A is paused inside a custom pytree flatten (jaxtyping is in "only look at the array type" mode in A)
class PNode:
    def __init__(self, x): self.x = x
def flat(p): reached.set(); go.wait(); return (p.x,), None
jax.tree_util.register_pytree_node(PNode, flat, lambda aux, ch: PNode(ch[0]))
def A():
    with jaxtyped("context"): res["A"] = isinstance([np.zeros(3), PNode(np.zeros(4))], PyTree[Float[np.ndarray, "?n"], "T"])''',
    "shape@1": '''# thread A is paused inside the `shape` property of a duck-array leaf / duck array (mid-check: '?' label set / bindings in flight)
class Duck:
    def __init__(self, shape, hooked=False): self._s, self._h = shape, hooked
    dtype = "duck"
    @property
    def shape(self):
        if self._h: reached.set(); go.wait()
        return self._s
class DuckDtype(jaxtyping.AbstractDtype): dtypes = ["duck"]
def A():
    with jaxtyped("context"): res["A"] = isinstance([Duck((3,)), Duck((4,), True)], PyTree[DuckDtype[Duck, "?n"], "T"])''',
    "fexpr": '''# thread A is paused inside a `{expr}` axis expression, after axis `a` of the same check was bound
hook = types.ModuleType("hookmod"); sys.modules["hookmod"] = hook
def h(): reached.set(); go.wait(); return 4
hook.h = h
def A():
    with jaxtyped("context"): res["A"] = isinstance(np.zeros((3, 4)), Float[np.ndarray, "a {__import__('hookmod').h()}"]), isinstance(np.zeros(3), Float[np.ndarray, "a"])''',
    "body": '''# thread A is paused inside the body of a jaxtyped function (its context a=3 b=4 is on A's stack)
@jaxtyped(typechecker=typeguard.typechecked)
def f(x: Float[np.ndarray, "a b"]):
    reached.set(); go.wait()
    return isinstance(np.zeros(3), Float[np.ndarray, "a"]), isinstance(np.zeros(5), Float[np.ndarray, "a"])
def A(): res["A"] = f(np.zeros((3, 4)))''',
}
TEMPLATES["shape@3"] = TEMPLATES["shape@4"] = TEMPLATES["shape@1"]
TEMPLATES["outer"] = TEMPLATES["between"] = TEMPLATES["body"]


def snippet(kind, actors, repo):
    sid = scen_id(kind, actors)
    pa = actors[0][2]
    lines = [f"# exact replay: PYTHONPATH={repo}:/verif /venv/bin/python /verif/bounded/b06_threads.py --repo {repo} --replay '{sid}'",
             "# the essence (B must behave exactly as if A did not exist, and A must finish as if B never ran):",
             "import sys, types, threading, numpy as np, jax, jaxtyping, typeguard",
             "from jaxtyping import Float, PyTree, jaxtyped, print_bindings",
             "reached, go, res = threading.Event(), threading.Event(), {}",
             TEMPLATES.get(pa, TEMPLATES["body"]),
             "def B():",
             "    res['B'] = (isinstance(np.zeros(5, int), Float[np.ndarray, 'a']),            # must be False",
             "                isinstance(np.zeros(5), Float[np.ndarray, 'a']),                 # must be True",
             "                jaxtyping._storage.get_treeflatten_memo(), getattr(jaxtyping._storage._treepath_storage, 'value', None),",
             "                len(getattr(jaxtyping._storage._shape_storage, 'memo_stack', [])))  # must be False, None, 0",
             "    print_bindings()                                                             # must print nothing",
             "ta = threading.Thread(target=A); ta.start(); reached.wait()",
             "tb = threading.Thread(target=B); tb.start(); tb.join(); go.set(); ta.join(); print(res)"]
    return "\n".join(lines)


# --------------------------------------------------------------------------------------------
# stress phase
# --------------------------------------------------------------------------------------------
def stress(tally, seed, n_threads, rounds, repo):
    ops = list(WORKLOADS)
    sizes = [3, 5, 7, 9][:n_threads]
    plans = []
    for i in range(n_threads):
        rng = random.Random(seed * 1000 + i)
        plan = []
        for _ in range(rounds):
            o = ops[:]
            rng.shuffle(o)
            plan += o
        plans.append(plan)
    results = [None] * n_threads
    start = threading.Barrier(n_threads)

    def main(i):
        c = Ctl(f"S{i}", sizes[i], yielding=True)
        CUR[threading.get_ident()] = c
        bad = []
        try:
            start.wait(WAIT)
            for k, op in enumerate(plans[i]):
                rec = dict(run_workload(op, c))
                d = diff(op, c.s, rec)
                if d:
                    bad.append((k, op, d))
        finally:
            CUR.pop(threading.get_ident(), None)
            results[i] = bad

    old = sys.getswitchinterval()
    sys.setswitchinterval(1e-6)
    try:
        ths = [threading.Thread(target=main, args=(i,), daemon=True) for i in range(n_threads)]
        for t in ths:
            t.start()
        for t in ths:
            t.join(600)
    finally:
        sys.setswitchinterval(old)
    n = 0
    seen_ops = set()
    for i in range(n_threads):
        n += len(plans[i])
        for op in plans[i]:
            tally.case(("stress", n_threads, i, op), nontrivial=True)
        for k, op, d in (results[i] or []):
            if op in seen_ops:
                continue
            seen_ops.add(op)
            step = sorted(d)[0]
            tally.fail(f"C06:stress:{n_threads}threads:{op}", f"thread-S{i}:{step}",
                       input=f"free-running stress, {n_threads} threads, switch interval 1e-6, every hook yields the GIL; thread {i} (size {sizes[i]}) workload #{k} = {op}",
                       expected={s_: v["expected"] for s_, v in d.items()}, actual={s_: v["actual"] for s_, v in d.items()},
                       snippet=f"# PYTHONPATH={repo}:/verif /venv/bin/python /verif/bounded/b06_threads.py --repo {repo} --tier quick --seed {seed}   (stress phase; schedule-dependent)")
    return n


# --------------------------------------------------------------------------------------------
def run_one(tally, kind, actors, script, repo, verbose=False):
    sid = scen_id(kind, actors)
    amap = {n: (op, p, s) for (n, op, p, s) in actors}
    try:
        recs, realised = run_schedule(amap, script)
    except Stuck as e:
        tally.case(sid, nontrivial=False)
        tally.fail("C06:" + sid, "schedule-stuck", input=sid, expected="all threads finish", actual=str(e), snippet=snippet(kind, actors, repo))
        return None
    tally.case(sid, nontrivial=realised,
               sample={"schedule": sid, "records": {n: recs[n] for n in recs}} if (kind == "nested" and actors[0][1] == "pt-flatten" and actors[1][1] == "array-top") else None)
    bad = {}
    for (n, op, p, s) in actors:
        d = diff(op, s, recs[n] or {})
        if d:
            bad[n] = d
    if verbose:
        print(json.dumps({"schedule": sid, "realised": realised, "records": recs, "deviations": bad}, indent=1, default=repr))
    if bad:
        first_thread = sorted(bad)[0]
        first_step = sorted(bad[first_thread])[0]
        tally.fail("C06:" + sid, f"thread-{first_thread}:{first_step}",
                   input=f"{kind} schedule; " + "; ".join(f"thread {n} runs workload {op} with size {s}" + (f", pausing at {p}" if p else " (no pause)") for (n, op, p, s) in actors),
                   expected={f"{n}:{k}": v["expected"] for n, d in bad.items() for k, v in d.items()},
                   actual={f"{n}:{k}": v["actual"] for n, d in bad.items() for k, v in d.items()},
                   snippet=snippet(kind, actors, repo))
    return realised


def main():
    tier = ARGS.tier
    tally = _common.Tally(max_failures=60)
    scs = scenarios("thorough" if "--replay" in sys.argv else tier)
    if "--replay" in sys.argv:
        want = sys.argv[sys.argv.index("--replay") + 1]
        for kind, actors, script in scs:
            if scen_id(kind, actors) == want:
                run_one(tally, kind, actors, script, ARGS.repo, verbose=True)
                return
        print("unknown schedule id; known ids look like", scen_id(*scs[0][:2]))
        return

    # 0. every workload alone (in a fresh thread) must match the documented table
    for op in WORKLOADS:
        for s in (3, 5, 7):
            rec = solo(op, s)
            tally.case(("solo", op, s), nontrivial=False)
            d = diff(op, s, rec)
            if d:
                step = sorted(d)[0]
                tally.fail(f"C06:solo:{op}", f"solo:{step}", input=f"workload {op} alone in a fresh thread, size {s}",
                           expected={k: v["expected"] for k, v in d.items()}, actual={k: v["actual"] for k, v in d.items()},
                           snippet=f"# PYTHONPATH={ARGS.repo}:/verif /venv/bin/python /verif/bounded/b06_threads.py --repo {ARGS.repo} --replay 'nested:call@body|{op}:sizes=3,{s}'")
    # 1. forced interleavings
    unrealised = []
    for kind, actors, script in scs:
        r = run_one(tally, kind, actors, script, ARGS.repo)
        if r is False:
            unrealised.append(scen_id(kind, actors))
    n_forced = len(scs)
    # 2. free-running stress
    n_stress = 0
    if tier == "quick":
        n_stress += stress(tally, ARGS.seed, 2, 20, ARGS.repo)
        n_stress += stress(tally, ARGS.seed + 1, 3, 20, ARGS.repo)
    else:
        n_stress += stress(tally, ARGS.seed, 2, 60, ARGS.repo)
        n_stress += stress(tally, ARGS.seed + 1, 3, 60, ARGS.repo)
        n_stress += stress(tally, ARGS.seed + 2, 4, 40, ARGS.repo)

    np_, nw = len(PAUSES), len(WORKLOADS)
    bound = (f"{nw} workloads x {np_} pause points inside user code called by jaxtyping mid-check; forced 2-thread schedules: all {np_}x{nw} nested (A pauses, B runs a whole workload, A resumes) "
             f"and all {np_}x{np_} crossed (A pauses, B pauses, A finishes, B finishes) pairs, each with thread sizes (3,5) and (5,3)")
    if tier == "quick":
        bound += (f"; forced 3-thread schedules: all {np_}x{np_}x2 (A,B paused, C runs the context-free workload `array-top`, resume orders AB/BA), sizes (3,5,7)")
    if tier == "thorough":
        bound += (f"; forced 3-thread schedules: all {np_}x{np_}x{nw}x2 (A,B paused, C runs a whole workload, resume orders AB/BA) and all {np_}^3 x 6 (A,B,C paused, every resume order), sizes (3,5,7)")
    bound += (f" = {n_forced} forced schedules; plus a free-running stress phase (switch interval 1e-6 s, every hook yields the GIL) of {n_stress} workload executions on {'2-3' if tier == 'quick' else '2-4'} threads; "
              f"every workload records all verdicts, print_bindings transcripts and the visible flatten-mode / '?'-label / stack depth at start, inside and end")
    rule = ("a schedule = (workload, pause point, size) per thread + a release order, realised with Events inside user code (duck `shape` property, `{hook()}` axis expression, custom pytree flatten, "
            "wrapped function body, context-block body); all threads share the same annotation objects and decorated functions but use different sizes, so any shared binding / label / flag changes a verdict "
            "or a transcript; expected record = documented solo behaviour (hand-written table, checked against a solo run first). A schedule is distinct/non-trivial when every designated pause point "
            "was actually reached while the other thread(s) ran. The stress phase is schedule-nondeterministic by nature; its verdict is deterministic as long as the property holds.")
    _common.emit(tally, bound=bound, rule=rule, exhaustive=True, forced_schedules=n_forced, stress_executions=n_stress,
                 unrealised_schedules=unrealised[:20], wall_seconds=round(time.time() - ARGS.t0, 1))


if __name__ == "__main__":
    main()
