SPEC = {
    "units": ["wrappers"],
    "lemmas": [],
    "bounded": [{"script": "b13_messages.py"}],
    "replayers": {"wrappers": "wrappers.py"},
    "level": "proof",
}
