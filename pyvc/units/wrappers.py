"""Unit: the wrapper closures of jaxtyping._decorator.jaxtyped and _JaxtypingContext.

  new-style  wrapped_fn + wrapped_fn_impl (inlined: a repo callee without own contract)
  old-style  wrapped_fn
  _JaxtypingContext.__enter__ / __exit__

Callees by contract: push_shape_memo / pop_shape_memo / get_shape_memo / shape_str (unit storage);
Signature.bind (raises TypeError or returns); user code = fn, param_fn, full_fn, _get_problem_arg (runs the
type checker): weakest contract under the user-code frame T4 (the top frame's contents may change, and after a
rolled-back check its dicts are REPLACED; depth and lower frames unchanged; any exception class), with a ghost call log.

Obligations (per exit path, every exception class):
  C05  stack' == old(stack) (same frames below, the pushed frame gone), never pops a frame it did not push
  C07  fn called exactly once on return, with the wrapper's own args/kwargs objects; result `is` fn's result; fn's
       exception propagates as the same object; never called after a parameter failure; bind failure => TypeError, nothing called
  C13  TypeCheckError iff a checker call failed with a non-AnnotationError Exception; AnnotationError propagates as is;
       stage sentence matches the failing stage; `from None` iff remove_typechecker_stack;
       shape_str gets the CURRENT top frame (same dict objects) at message-building time
  C19  disabled / no_type_check: only fn is called, nothing is pushed, result/exception are fn's
  C02b param_fn before fn, full_fn after fn, all in the one frame pushed by this call
"""
from __future__ import annotations

import ast

import z3

from ..engine import Engine, Raised, is_raised
from ..calls import StarArgs
from ..source import Module, free_names
from ..values import exc_representatives, ANY_EXC, BOOL, INT, NONE, NORMAL, STR, U, Cls, DictObj, Exc, Fn, ListObj, Obj, Opaque, Outcome, Ref, State, Tup, Unsupported, Z

NAME = "wrappers"
REL = "jaxtyping/_decorator.py"


def new_frame(st, tag):
    return Tup([st.alloc(DictObj(STR, INT, tag=f"{tag}_sigma")), st.alloc(DictObj(STR, U, tag=f"{tag}_nu")), st.alloc(DictObj(STR, U, tag=f"{tag}_pi")), st.alloc(DictObj(STR, U, tag=f"{tag}_A"))])


def user_havoc(eng, st):
    """T4 (see module doc)."""
    outs = []
    a = st.clone()
    stack = a.ghost["stack"]
    if stack:
        for r in stack[-1].items:
            o = a.get(r)
            a.put(r, DictObj(o.ksort, o.vsort, tag=o.tag))
        a.path.append("user:mutates-top-frame")
        outs.append(a)
        if st.ghost.get("rolled_back"):
            return outs  # the captured references are already stale; a second replacement adds no behaviour
        b = st.clone()
        b.ghost["stack"] = list(b.ghost["stack"])
        b.ghost["stack"][-1] = new_frame(b, "replaced")
        b.ghost["rolled_back"] = True
        b.path.append("user:rolled-back-check-replaced-top-dicts")
        outs.append(b)
    else:
        outs.append(a)
    return outs


def user_call(tag, raises=None, returns=True):
    def model(eng, st, args, kwargs, node):
        outs = []
        for s1 in user_havoc(eng, st):
            depth = len(s1.ghost["stack"])
            if returns:
                ok = s1.clone()
                ret = Opaque(f"ret:{tag}")
                ok.log.append({"callee": tag, "args": list(args), "kwargs": dict(kwargs), "ret": ret, "exc": None, "depth": depth, "slot": depth})
                ok.path.append(f"{tag}:returns")
                outs.append((ok, ret))
            # one exception object of a symbolic class: narrowed lazily by the except clauses it meets
            s2 = s1.clone()
            e = Exc(frozenset(raises if raises is not None else eng.user_raises), origin=tag)
            s2.log.append({"callee": tag, "args": list(args), "kwargs": dict(kwargs), "ret": None, "exc": e, "depth": depth, "slot": depth})
            s2.path.append(f"{tag}:raises")
            outs.append((s2, Raised(e)))
        return outs

    return model


def normalise_log(log):
    out = []
    for e in log:
        if isinstance(e, tuple):
            e = {"callee": e[0], "args": list(e[1]), "kwargs": dict(e[2]), "ret": None, "exc": None, "depth": None, "slot": None}
        out.append(e)
    return out


def m_push(eng, st, args, kwargs, node):
    s1 = st.clone()
    fr = new_frame(s1, "pushed")
    s1.ghost["stack"] = s1.ghost["stack"] + [fr]
    s1.ghost["pushes"] = s1.ghost.get("pushes", 0) + 1
    s1.ghost["push_arg"] = args[0] if args else None
    return [(s1, fr)]


def m_pop(eng, st, args, kwargs, node):
    s1 = st.clone()
    if s1.ghost["stack"]:
        s1.ghost["stack"] = s1.ghost["stack"][:-1]
    else:
        s1.ghost["underflow"] = True
    return [(s1, NONE)]


def m_get_shape_memo(eng, st, args, kwargs, node):
    if st.ghost["stack"]:
        return [(st, st.ghost["stack"][-1])]
    s1 = st.clone()
    return [(s1, new_frame(s1, "caller-or-stateless"))]


def m_shape_str(eng, st, args, kwargs, node):
    """contract: pure; C13 obligation: the memos handed over are the current top frame."""
    memos = args[0]
    stack = st.ghost["stack"]
    ok = isinstance(memos, Tup) and bool(stack) and len(memos.items) == 4 and all(isinstance(a, Ref) and isinstance(b, Ref) and a.h == b.h for a, b in zip(memos.items, stack[-1].items))
    eng.oblige(st, "C13:shape_str-receives-the-current-top-frame", z3.BoolVal(ok), rolled_back=z3.BoolVal(bool(st.ghost.get("rolled_back"))))
    s1 = st.clone()
    s1.log.append({"callee": "shape_str", "args": [memos], "kwargs": {}, "ret": None, "exc": None, "depth": len(stack), "slot": len(stack)})
    return [(s1, Z("str", z3.FreshConst(STR, "shape_info"), tag="fstr"))]


def pure_str(tag):
    return lambda eng, st, args, kwargs, node: [(st, Z("str", z3.FreshConst(STR, tag), tag="fstr"))]


def base_engine(mod):
    eng = Engine(mod)
    eng.user_raises = ANY_EXC
    eng.globals.update({
        "push_shape_memo": Fn("push_shape_memo", model=m_push),
        "pop_shape_memo": Fn("pop_shape_memo", model=m_pop),
        "get_shape_memo": Fn("get_shape_memo", model=m_get_shape_memo),
        "shape_str": Fn("shape_str", model=m_shape_str),
        "_pformat": Fn("_pformat", model=pure_str("pformat")),
        "_remove_typing": Fn("_remove_typing", model=pure_str("remove_typing")),
        "_jaxtyping_note_str": Fn("_jaxtyping_note_str", model=pure_str("note")),
        "_no_jaxtyping_note": Fn("_no_jaxtyping_note", model=lambda e, s, a, k, n: [(s, Z("bool", z3.FreshConst(BOOL, "no_note")))]),
        "_spacer": Z("str", z3.StringVal("--------------------\n")),
        "TypeCheckError": Cls("TypeCheckError"),
        "AnnotationError": Cls("AnnotationError"),
    })
    eng.const_true_exprs = {"sys.version_info >= (3, 11)"}

    def m_bind(e, s, recv, args, kwargs, node):
        if isinstance(recv, Opaque) and "signature" in recv.tag:
            s1, s2 = s.clone(), s.clone()
            s1.log.append({"callee": "bind", "args": list(args), "kwargs": dict(kwargs), "ret": None, "exc": None, "depth": len(s.ghost["stack"]), "slot": 0})
            s1.path.append("bind:ok")
            s2.path.append("bind:TypeError")
            s2.log.append({"callee": "bind", "args": list(args), "kwargs": dict(kwargs), "ret": None, "exc": "TypeError", "depth": len(s.ghost["stack"]), "slot": 0})
            return [(s1, Opaque("bound", attrs={"arguments": Opaque("bound.arguments")})), (s2, Raised(Exc("OtherTypeError", origin="bind")))]
        return None

    eng.method_models["bind"] = m_bind
    eng.method_models["apply_defaults"] = lambda e, s, recv, args, kwargs, node: [(s, NONE)]
    return eng


def build(repo=None):
    mod = Module(REL, repo)
    jt = mod.func("jaxtyped")
    obligations = []
    functions = []
    paths = 0

    def finish(st_obl, fn_label):
        for ob in st_obl:
            ob = dict(ob)
            ob.setdefault("kind", "vc")
            ob["function"] = fn_label
            c = ob["clause"]
            if not ob.get("serves"):
                ob["serves"] = ([c.split(":")[0]] + (["C12", "C09"] if c[:3] == "C05" else [])) if c[:3] in ("C05", "C07", "C13", "C19", "C02") else None  # C05 stack-balance clauses are also C12's restore obligations
            if ob["serves"] is None:
                ob.pop("serves")
            obligations.append(ob)

    def calls_impl(n):
        return any(isinstance(c, ast.Call) and getattr(c.func, "id", "") == "wrapped_fn_impl" for c in ast.walk(n))

    # ================================================================== new style
    wf = mod.func("jaxtyped/wrapped_fn", pick=calls_impl)
    impl = mod.func("jaxtyped/wrapped_fn_impl")
    functions.append({"qualname": "jaxtyping._decorator.jaxtyped/<new-style>/wrapped_fn", "sha256_16": mod.sha(wf), "lines": [wf.lineno, wf.end_lineno]})
    functions.append({"qualname": "jaxtyping._decorator.jaxtyped/<new-style>/wrapped_fn_impl", "sha256_16": mod.sha(impl), "lines": [impl.lineno, impl.end_lineno]})
    eng = base_engine(mod)
    eng.user_raises = exc_representatives(wf, impl)
    Disabled = z3.Bool("config_disable")
    RemoveStack = z3.Bool("config_remove_stack")
    fn_v = Opaque("fn", z3.Const("the_fn", U))
    wrapper_self = Opaque("wrapper-self", z3.Const("the_wrapper", U))
    eng.globals.update({
        "config": Opaque("config", attrs={"jaxtyping_disable": Z("bool", Disabled), "jaxtyping_remove_typechecker_stack": Z("bool", RemoveStack)}),
        "fn": Fn("fn", model=user_call("fn")),
        "param_fn": Fn("param_fn", model=user_call("param_fn")),
        "full_fn": Fn("full_fn", model=user_call("full_fn")),
        "_get_problem_arg": Fn("_get_problem_arg", model=user_call("_get_problem_arg", returns=False)),
        "param_signature": Opaque("param_signature"),
        "full_signature": Opaque("full_signature"),
        "inspect": Opaque("module:inspect"),
        "module": Z("str", z3.String("fn_module")),
        "typechecker": Opaque("typechecker"),
        "output_name": Z("str", z3.String("output_name")),
    })
    # the cell through which the wrapper reaches itself, by ROLE: the free variable that is subscripted with 0 and called -- `<cell>[0]()`
    holder_names = sorted({c.func.value.id for c in ast.walk(wf) if isinstance(c, ast.Call) and isinstance(c.func, ast.Subscript) and isinstance(c.func.value, ast.Name)
                           and isinstance(c.func.slice, ast.Constant) and c.func.slice.value == 0})
    # ... or a plain closure variable that is called -- `<cell>()` -- and is bound to weakref.ref(<the wrapper>) right after the wrapper's definition
    wf_locals = {n.id for n in ast.walk(wf) if isinstance(n, ast.Name) and isinstance(n.ctx, ast.Store)} | {a.arg for a in ast.walk(wf) if isinstance(a, ast.arg)}
    encl = next((lst for n in ast.walk(jt) for lst in (getattr(n, "body", None), getattr(n, "orelse", None), getattr(n, "finalbody", None)) if isinstance(lst, list) and wf in lst), None)
    if encl is None:
        raise Unsupported("new-style wrapped_fn: enclosing statement list not found")
    after = encl[encl.index(wf) + 1:]

    def is_selfref(v):
        return (isinstance(v, ast.Call) and ast.unparse(v.func) in ("weakref.ref", "ref") and len(v.args) == 1 and not v.keywords
                and isinstance(v.args[0], ast.Name) and v.args[0].id == wf.name)

    cell_names = sorted({c.func.id for c in ast.walk(wf) if isinstance(c, ast.Call) and isinstance(c.func, ast.Name) and not c.args and not c.keywords and c.func.id not in wf_locals
                         and any(isinstance(a, ast.Assign) and any(isinstance(t, ast.Name) and t.id == c.func.id for t in a.targets) for a in ast.walk(jt))})
    cell_ok = True
    for hn in holder_names:
        eng.globals[hn] = Tup([Fn("weakref", model=lambda e, s, a, k, n: [(s, wrapper_self)])])
        fills = [x for x in ast.walk(jt) if isinstance(x, ast.Call) and isinstance(x.func, ast.Attribute) and isinstance(x.func.value, ast.Name) and x.func.value.id == hn]
        stores = [x for x in ast.walk(jt) if isinstance(x, ast.Name) and x.id == hn and isinstance(x.ctx, (ast.Store, ast.Del))]
        init = [a for a in encl[:encl.index(wf)] if isinstance(a, ast.Assign) and len(a.targets) == 1 and isinstance(a.targets[0], ast.Name) and a.targets[0].id == hn and isinstance(a.value, ast.List) and not a.value.elts]
        fill_stmt = [a for a in after if isinstance(a, ast.Expr) and a.value in fills]
        cell_ok = cell_ok and (len(stores) == 1 and len(init) == 1 and len(fills) == 1 and len(fill_stmt) == 1 and fills[0].func.attr == "append" and len(fills[0].args) == 1 and not fills[0].keywords and is_selfref(fills[0].args[0]))
    for cn in cell_names:
        eng.globals[cn] = Fn("weakref", model=lambda e, s, a, k, n: [(s, wrapper_self)])
        stores = [x for x in ast.walk(jt) if isinstance(x, ast.Name) and x.id == cn and isinstance(x.ctx, (ast.Store, ast.Del))]
        late = [x for x in stores if x.lineno > wf.end_lineno]
        bind = [a for a in after if isinstance(a, ast.Assign) and len(a.targets) == 1 and a.targets[0] in late and is_selfref(a.value)]
        rebound_inside = any(isinstance(x, ast.Nonlocal) and cn in x.names for x in ast.walk(wf))
        cell_ok = cell_ok and len(late) == 1 and len(bind) == 1 and not rebound_inside
    obligations.append({"clause": "C19:the-wrapper-reaches-itself-through-a-cell-that-holds-a-weak-reference-to-this-very-wrapper(filled-right-after-its-definition)", "kind": "vc", "pc": [], "path": [],
                        "goal": z3.BoolVal(bool(cell_ok and (holder_names or cell_names))), "meta": {"cells": z3.StringVal(",".join(holder_names + cell_names))}, "serves": ["C19"], "function": "jaxtyped/<new-style>/wrapped_fn"})
    # getattr(fn, "__no_type_check__", False) on a Fn value: route through an opaque twin
    from ..builtins_model import b_getattr

    def m_getattr(e, s, args, kwargs, node):
        if args and isinstance(args[0], Fn) and args[0].name == "fn":
            args = [fn_v] + list(args[1:])
        return b_getattr(e, s, args, kwargs, node)

    eng.globals["getattr"] = Fn("getattr", model=m_getattr)
    eng.attr_models["__module__"] = lambda e, s, recv, node: [(s, Z("str", z3.FreshConst(STR, "modname"), tag="fstr"))]
    eng.attr_models["__qualname__"] = lambda e, s, recv, node: [(s, Z("str", z3.FreshConst(STR, "qualname"), tag="fstr"))]
    eng.globals["wrapped_fn_impl"] = Fn("wrapped_fn_impl", node=impl, closure={})

    st = State()
    st.ghost.update(stack=[], underflow=False, pushes=0, rolled_back=False)
    args_v, kwargs_v = Opaque("args"), Opaque("kwargs")
    st.env = {wf.args.vararg.arg: args_v, wf.args.kwarg.arg: kwargs_v}
    if wf.args.args or wf.args.kwonlyargs:
        raise Unsupported("new-style wrapped_fn: unexpected parameters")
    outs = eng.run(wf.body, st)
    paths += len(outs)

    def same_args(entry):
        a, k = entry["args"], entry["kwargs"]
        return len(a) == 1 and isinstance(a[0], StarArgs) and a[0].v is args_v and set(k) == {"**"} and k["**"].v is kwargs_v

    for s1, o in outs:
        log = normalise_log(s1.log)
        callees = [e["callee"] for e in log if not e["callee"].startswith("setitem:")]
        unknown = [c for c in callees if c not in ("fn", "param_fn", "full_fn", "_get_problem_arg", "bind", "shape_str")]
        if unknown:
            eng.oblige(s1, f"frame:no-unmodelled-callee-with-side-effects[{unknown[0]}]", z3.BoolVal(False))
        fn_calls = [e for e in log if e["callee"] == "fn"]
        checker_calls = [e for e in log if e["callee"] in ("param_fn", "full_fn", "_get_problem_arg")]
        disabled_path = "bind" not in callees and s1.ghost["pushes"] == 0
        kind = o.kind if o.kind != "raise" else f"raise"
        # ---- C05
        eng.oblige(s1, "C05:stack-restored-on-every-exit", z3.BoolVal(s1.ghost["stack"] == [] and not s1.ghost["underflow"]), exit=z3.StringVal(kind if o.kind != "raise" else "/".join(sorted(o.val.classes()))))
        if "bind" in callees:
            first_push_after_bind = True
        eng.oblige(s1, "C05:at-most-one-frame-pushed-per-call", z3.BoolVal(s1.ghost["pushes"] <= 1))
        if o.kind == "raise" and o.val.origin == "bind":
            eng.oblige(s1, "C07:non-binding-call-raises-plain-TypeError-before-anything-runs", z3.BoolVal(o.val.classes() == {"OtherTypeError"} and not fn_calls and not checker_calls and s1.ghost["pushes"] == 0))
        # ---- C07 / C19
        eng.oblige(s1, "C07:body-runs-at-most-once", z3.BoolVal(len(fn_calls) <= 1))
        if fn_calls:
            eng.oblige(s1, "C07:body-receives-the-very-same-args-and-kwargs", z3.BoolVal(all(same_args(e) for e in fn_calls)))
        if o.kind == "return":
            eng.oblige(s1, "C07:return-implies-body-ran-exactly-once-and-result-is-its-result", z3.BoolVal(len(fn_calls) == 1 and fn_calls[0]["ret"] is not None and o.val is fn_calls[0]["ret"]))
        if o.kind == "raise" and fn_calls and fn_calls[0]["exc"] is not None:
            eng.oblige(s1, "C07:body-exception-propagates-as-the-same-object", z3.BoolVal(o.val.same(fn_calls[0]["exc"])))
        param_failed = any(e["callee"] == "param_fn" and e["exc"] is not None for e in log)
        if param_failed:
            eng.oblige(s1, "C07:body-not-run-after-parameter-failure", z3.BoolVal(not fn_calls))
        if disabled_path:
            eng.oblige(s1, "C19:disabled-call-runs-only-the-body-and-touches-no-context", z3.BoolVal(callees == ["fn"] and s1.ghost["pushes"] == 0 and not s1.ghost["underflow"]))
            if o.kind == "return":
                eng.oblige(s1, "C19:disabled-call-returns-the-body-result", z3.BoolVal(bool(log) and o.val is log[0]["ret"]))
            if o.kind == "raise":
                eng.oblige(s1, "C19:disabled-call-propagates-the-body-exception", z3.BoolVal(bool(log) and o.val.same(log[0]["exc"])), exc=z3.StringVal(f"{sorted(o.val.classes())} from {o.val.origin}"))
        else:
            # the enabled path is taken only when none of the switches is on
            eng.oblige(s1, "C19:checking-path-implies-not-disabled", z3.Not(Disabled))
            marks = []
            for tgt in (fn_v, wrapper_self):
                (s_m, r_m), = b_getattr(eng, s1, [tgt, Z("str", z3.StringVal("__no_type_check__")), Z("bool", z3.BoolVal(False))], {}, None)
                marks.append(eng.truth(s_m, r_m))
            eng.oblige(s1, "C19:checking-path-implies-neither-the-function-nor-its-wrapper-is-marked-no_type_check(read-at-call-time)", z3.Not(z3.Or(*marks)))
        # ---- C02b: protocol param_fn -> fn -> full_fn within the single pushed frame
        if not disabled_path and "bind" in callees:
            seq = [c for c in callees if c in ("param_fn", "fn", "full_fn")]
            ok_order = seq in ([], ["param_fn"], ["param_fn", "fn"], ["param_fn", "fn", "full_fn"]) and (seq != [] or (o.kind == "raise" and o.val.origin == "bind"))
            eng.oblige(s1, "C02:parameters-checked-before-body-and-return-checked-after-in-one-frame", z3.BoolVal(ok_order and all(e["slot"] == 1 for e in log if e["callee"] in ("param_fn", "fn", "full_fn", "_get_problem_arg"))))
            for e in log:
                if e["callee"] in ("param_fn", "full_fn"):
                    a, k = e["args"], e["kwargs"]
                    eng.oblige(s1, "C02:checker-functions-receive-the-call-arguments", z3.BoolVal(len(a) == 1 and isinstance(a[0], StarArgs) and a[0].v is args_v and "**" in k and k["**"].v is kwargs_v))
        # ---- C13
        known = s1.ghost.get("exc_classes", {})
        K = lambda e: known.get(e.id, e.classes())
        is_exc = lambda c: c != "NonExceptionBase"
        chk_exc = [e for e in log if e["callee"] in ("param_fn", "full_fn") and e["exc"] is not None]
        if o.kind == "raise":
            ex = o.val
            if chk_exc:
                c0 = chk_exc[0]
                gpa = [e for e in log if e["callee"] == "_get_problem_arg"]
                want = set()
                for c in K(c0["exc"]):
                    if c == "AnnotationError" or not is_exc(c):
                        want.add("same")
                    elif c0["callee"] == "param_fn":
                        # the localisation helper runs the checker again (user code): whatever it raises that is not its own
                        # TypeCheckError propagates; its TypeCheckError becomes the parameter message
                        want.add("tce-or-localiser")
                    else:
                        want.add("tce")
                label = "/".join(sorted(K(c0["exc"])))
                if want == {"same"}:
                    eng.oblige(s1, "C13:AnnotationError-or-non-Exception-from-a-checker-propagates-untouched", z3.BoolVal(ex.same(c0["exc"])), classes=z3.StringVal(label))
                elif len(want) != 1:
                    eng.oblige(s1, "C13:checker-exception-classes-are-told-apart(AnnotationError-vs-violation)", z3.BoolVal(False), classes=z3.StringVal(label))
                else:
                    loc_exc = gpa[0]["exc"] if gpa else None
                    if want == {"tce-or-localiser"} and loc_exc is not None and "TypeCheckError" not in K(loc_exc):
                        eng.oblige(s1, "C13:exception-from-problem-arg-localisation-propagates", z3.BoolVal(ex.same(loc_exc)))
                    else:
                        is_tce = ex.classes() == {"TypeCheckError"} and ex.origin == "explicit"
                        eng.oblige(s1, "C13:violated-annotation-raises-TypeCheckError", z3.BoolVal(is_tce), stage=z3.StringVal(c0["callee"]), classes=z3.StringVal(label))
                        if is_tce:
                            msg = ex.args[0] if ex.args else None
                            eng.oblige(s1, "C13:message-lists-bindings-via-shape_str", z3.BoolVal(any(e["callee"] == "shape_str" for e in log)))
                            src = c0["exc"] if c0["callee"] == "full_fn" else loc_exc
                            if ex.cause is None:
                                eng.oblige(s1, "C13:cause-suppressed-only-when-remove-stack-switch-on", RemoveStack)
                            else:
                                eng.oblige(s1, "C13:cause-is-the-checker-exception-when-switch-off", z3.And(z3.Not(RemoveStack), z3.BoolVal(src is not None and isinstance(ex.cause, Exc) and ex.cause.same(src))))
                            if isinstance(msg, Z) and msg.kind == "str":
                                wanted = "parameters of" if c0["callee"] == "param_fn" else "return value"
                                eng.oblige(s1, "C13:message-names-the-failing-stage", z3.Contains(msg.t, z3.StringVal(wanted)), stage=z3.StringVal(c0["callee"]))
            elif not fn_calls or fn_calls[0]["exc"] is None:
                if ex.origin not in ("bind",):
                    eng.oblige(s1, f"C13:no-error-without-a-failing-callee[{'/'.join(sorted(ex.classes()))} from {ex.origin}]", z3.BoolVal(False))
        if o.kind == "return":
            eng.oblige(s1, "C13:no-checker-failure-on-return-path", z3.BoolVal(not chk_exc))
    finish(st.obl, "jaxtyped/<new-style>/wrapped_fn(+impl)")

    # ================================================================== old style
    wf_old = mod.func("jaxtyped/wrapped_fn", pick=lambda n: not calls_impl(n))
    functions.append({"qualname": "jaxtyping._decorator.jaxtyped/<old-style>/wrapped_fn", "sha256_16": mod.sha(wf_old), "lines": [wf_old.lineno, wf_old.end_lineno]})
    eng = base_engine(mod)
    eng.user_raises = exc_representatives(wf_old)
    DisabledOld = z3.Bool("config_disable")
    fn_old = Opaque("fn", z3.Const("the_fn", U))
    eng.globals.update({
        "fn": Fn("fn", model=user_call("fn")),
        "signature": Opaque("signature"),
        "sys": Opaque("module:sys"),
        "config": Opaque("config", attrs={"jaxtyping_disable": Z("bool", DisabledOld), "jaxtyping_remove_typechecker_stack": Z("bool", z3.Bool("config_remove_stack"))}),
    })

    def m_getattr_old(e, s, args, kwargs, node):
        if args and isinstance(args[0], Fn) and args[0].name == "fn":
            args = [fn_old] + list(args[1:])
        return b_getattr(e, s, args, kwargs, node)

    eng.globals["getattr"] = Fn("getattr", model=m_getattr_old)
    st = State()
    st.ghost.update(stack=[], underflow=False, pushes=0, rolled_back=False)
    args_v, kwargs_v = Opaque("args"), Opaque("kwargs")
    st.env = {wf_old.args.vararg.arg: args_v, wf_old.args.kwarg.arg: kwargs_v}
    outs = eng.run(wf_old.body, st)
    paths += len(outs)
    for s1, o in outs:
        log = normalise_log(s1.log)
        fn_calls = [e for e in log if e["callee"] == "fn"]
        eng.oblige(s1, "C05:old-style:stack-restored-on-every-exit", z3.BoolVal(s1.ghost["stack"] == [] and not s1.ghost["underflow"]), exit=z3.StringVal(o.kind if o.kind != "raise" else "/".join(sorted(o.val.classes()))))
        eng.oblige(s1, "C07:old-style:body-runs-at-most-once-with-the-same-args", z3.BoolVal(len(fn_calls) <= 1 and all(same_args(e) for e in fn_calls)))
        (s_m, r_m), = b_getattr(eng, s1, [fn_old, Z("str", z3.StringVal("__no_type_check__")), Z("bool", z3.BoolVal(False))], {}, None)
        off = z3.Or(DisabledOld, eng.truth(s_m, r_m))
        touched = s1.ghost["pushes"] > 0 or any(e["callee"] == "bind" for e in log)
        eng.oblige(s1, "C19:old-style:a-context-is-opened-or-the-arguments-bound-only-when-checking-is-on(switch-and-no_type_check-read-at-call-time)", z3.Not(off) if touched else z3.BoolVal(True))
        eng.oblige(s1, "C19:old-style:with-checking-on-the-call-runs-in-its-own-context", off if (not touched and fn_calls) else z3.BoolVal(True))
        bind_failed = any(e["callee"] == "bind" and e.get("exc") is not None for e in log)
        if bind_failed:
            # a call that does not bind: the TypeError of Signature.bind leaves the wrapper before anything runs -- on EVERY such path, caught or not
            # (a wrapper that swallows it and calls the function anyway runs the body and its checks in the CALLER's context: C05)
            eng.oblige(s1, "C07:old-style:non-binding-call-raises-before-anything-runs", z3.BoolVal(o.kind == "raise" and o.val.origin == "bind" and not fn_calls and s1.ghost["pushes"] == 0))
            s1.obl[-1]["serves"] = ["C07", "C05"]
        if o.kind == "return":
            eng.oblige(s1, "C07:old-style:result-is-the-body-result", z3.BoolVal(len(fn_calls) == 1 and o.val is fn_calls[0]["ret"]))
        elif o.kind == "raise":
            if o.val.origin == "bind":
                pass  # judged above
            else:
                eng.oblige(s1, "C07:old-style:body-exception-propagates-as-the-same-object", z3.BoolVal(bool(fn_calls) and o.val.same(fn_calls[0]["exc"])))
        else:
            eng.oblige(s1, "C07:old-style:returns-or-raises", z3.BoolVal(False))
    finish(st.obl, "jaxtyped/<old-style>/wrapped_fn")

    # ================================================================== context manager
    from ..source import NotFound
    from ..stmts import _split_contextmanager

    try:
        mod.func("_JaxtypingContext.__enter__")
        cm_class = True
    except NotFound:
        cm_class = False
    if not cm_class:
        # jaxtyped("context") written as a @contextmanager generator function: same contract, stated over its three parts
        cands = [b for b in mod.tree.body if isinstance(b, ast.FunctionDef) and any("contextmanager" in ast.unparse(d) for d in b.decorator_list)
                 and any(isinstance(c, ast.Call) and getattr(c.func, "id", "") == "push_shape_memo" for c in ast.walk(b))]
        if len(cands) != 1 or _split_contextmanager(cands[0]) is None:
            raise NotFound("_JaxtypingContext (neither a class with __enter__/__exit__ nor a single-yield @contextmanager that pushes a frame)")
        cmf = cands[0]
        functions.append({"qualname": f"jaxtyping._decorator.{cmf.name}", "sha256_16": mod.sha(cmf), "lines": [cmf.lineno, cmf.end_lineno]})
        pre, fin, post = _split_contextmanager(cmf)
        eng = base_engine(mod)
        st = State()
        st.ghost.update(stack=[], underflow=False, pushes=0, rolled_back=False)
        for s1, o in eng.run(pre, st):
            paths += 1
            eng.oblige(s1, "C05:context-enter-pushes-exactly-one-frame", z3.BoolVal(o.kind == "normal" and len(s1.ghost["stack"]) == 1 and s1.ghost["pushes"] == 1))
            if o.kind != "normal":
                continue
            for how, stmts_ in (("block-returns", list(fin) + list(post)), ("block-raises", list(fin))):
                s2 = s1.clone()
                s2.path.append(how)
                for s3, o3 in eng.run(stmts_, s2):
                    paths += 1
                    eng.oblige(s3, "C05:context-exit-pops-its-frame-for-every-exception-state", z3.BoolVal(o3.kind == "normal" and s3.ghost["stack"] == [] and not s3.ghost["underflow"]), how=z3.StringVal(how))
        finish(st.obl, cmf.name)
    for meth in (("__enter__", "__exit__") if cm_class else ()):
        f = mod.func(f"_JaxtypingContext.{meth}")
        functions.append({"qualname": f"jaxtyping._decorator._JaxtypingContext.{meth}", "sha256_16": mod.sha(f), "lines": [f.lineno, f.end_lineno]})
        eng = base_engine(mod)
        st = State()
        pre = [new_frame(st, "ctx")] if meth == "__exit__" else []
        st.ghost.update(stack=list(pre), underflow=False, pushes=0, rolled_back=False)
        names = [a.arg for a in f.args.args]
        self_v = Opaque("self")
        st.env = {names[0]: self_v}
        for nm in names[1:]:
            st.env[nm] = Opaque(nm)  # exc_type / exc_value / exc_tb: ANY value (None or an exception of any class)

        def ctx_setattr(e, s, recv, attr, v, nd, _self=self_v):
            # the context object is stateless: one jaxtyped("context") object may be entered re-entrantly / at several depths, so
            # per-entry state kept ON the object is shared between its activations (frame clause: enter/exit write no attribute of self)
            if recv is _self:
                e.oblige(s, "C05:context-object-stays-stateless(enter/exit-write-no-attribute-of-self,-so-re-entering-the-same-object-is-safe)", z3.BoolVal(False))
                return [(s, NORMAL)]
            return None

        eng.method_models["__setattr__"] = ctx_setattr
        outs = eng.run(f.body, st)
        paths += len(outs)
        for s1, o in outs:
            if meth == "__enter__":
                eng.oblige(s1, "C05:context-enter-pushes-exactly-one-frame", z3.BoolVal(o.kind in ("normal", "return") and len(s1.ghost["stack"]) == 1 and s1.ghost["pushes"] == 1))
            else:
                eng.oblige(s1, "C05:context-exit-pops-its-frame-for-every-exception-state", z3.BoolVal(o.kind in ("normal", "return") and s1.ghost["stack"] == [] and not s1.ghost["underflow"]))
                falsy = o.kind == "normal" or (o.kind == "return" and isinstance(o.val, type(NONE)))
                eng.oblige(s1, "C05:context-exit-does-not-swallow-exceptions", z3.BoolVal(falsy))
        finish(st.obl, f"_JaxtypingContext.{meth}")

    obligations.append({"clause": "canary:wrapper-paths-exist", "kind": "canary", "pc": [], "goal": z3.BoolVal(paths == 0), "path": [], "meta": {}})
    return {
        "unit": NAME, "functions": functions, "obligations": obligations, "paths": paths, "stats": {},
        "assumptions": [
            "T4 user-code frame for fn / param_fn / full_fn / _get_problem_arg: depth and lower frames unchanged, top frame contents arbitrary and its dicts possibly replaced (rolled-back check), any exception class",
            "inspect.Signature.bind returns a BoundArguments or raises TypeError, without side effects; apply_defaults is pure",
            "_pformat, _remove_typing, str(e), attribute reads fn.__module__/__qualname__ are pure and do not raise",
            "a type-checker-wrapped synthetic function performs the isinstance checks its annotations call for and raises iff one fails (T5; bounded stand-in b02)",
            "these obligations are structural (call log, handle identity) and are decided by the executor; the solver decides path feasibility and the switch/stage conditions",
        ],
    }
