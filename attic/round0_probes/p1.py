import warnings, numpy as np, sys
warnings.simplefilter("ignore")
from jaxtyping import *
import jaxtyping
from jaxtyping import jaxtyped, PyTree
from typing import Iterator
# 1. non-string dim spec
for spec in (3, None, ("a",), b"a"):
    try:
        Float[np.ndarray, spec]; print("built", spec)
    except Exception as e:
        print("spec", repr(spec), "->", type(e).__name__, e)
# 2. dtype names
for t in ["longlong","ulonglong","intc","uintc","longdouble","clongdouble","int_","uint","half","single","double","csingle","cdouble","byte","ubyte","short","ushort","intp","uintp","bool_","str_","bytes_","object_","datetime64","timedelta64","void"]:
    dt=np.dtype(getattr(np,t))
    print(t, dt.type.__name__, dt)
