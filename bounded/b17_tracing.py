"""Bounded stand-in for C17: verdicts depend on type, shape and dtype only, so tracing equals eager.

Functions of the C02 generator over jax.Array are decorated with jaxtyped(typechecker=...) and called
(1) eagerly on concrete arrays (zeros, and other element values), and (2) under jax.jit, jax.eval_shape, jax.vmap
(several in_axes), jax.grad and compositions, on tracers carrying the SAME per-call shapes/dtypes.  All verdicts
must be equal to each other and to the brute-force oracle of b02_calls; no tracer may be forced to a value.
"""
import itertools
import os
import random
import sys
import time
import warnings

os.environ.setdefault("JAX_PLATFORMS", "cpu")
_HERE = os.path.dirname(os.path.abspath(__file__))
if _HERE not in sys.path:
    sys.path.insert(0, _HERE)

import b02_calls as G  # noqa: E402

JARR = "jax.Array"
FLOAT_DTYPES = ("float32", "float16", "bfloat16")
TREE_KEYS = ("list1", "dict2", "nest2")
TREE_ARITY = {"list1": 1, "dict2": 2, "nest2": 2}


def A(dims):
    return (G.ann_expr(dims, JARR), ("arr", dims))


def T(dims, sname=None):
    inner = G.ann_expr(dims, JARR)
    if sname is None:
        return (f"PyTree[{inner}]", ("tree", ("arr", dims), None))
    return (f'PyTree[{inner}, "{sname}"]', ("tree", ("arr", dims), sname))


def build_tree(skey, xs):
    if skey == "list1":
        return [xs[0]]
    if skey == "dict2":
        return {"k": xs[0], "l": xs[1]}
    return (xs[0], [xs[1]])


def tree_source(skey, xs):
    return {"list1": "[{0}]", "dict2": "{{'k': {0}, 'l': {1}}}", "nest2": "({0}, [{1}])"}[skey].format(*xs)


def leaf_shapes(node, value):
    return [tuple(value)] if node[0] == "arr" else [tuple(s) for s in value[1]]


def make_value(node, value, dtype, leaf_fn):
    """leaf_fn(shape, dtype) -> array-like leaf"""
    if node[0] == "arr":
        return leaf_fn(tuple(value), dtype)
    return build_tree(value[0], [leaf_fn(tuple(s), dtype) for s in value[1]])


def value_source(node, value, dtype):
    if node[0] == "arr":
        return f"jnp.zeros({tuple(value)!r}, jnp.{dtype})"
    return tree_source(value[0], [f"jnp.zeros({tuple(s)!r}, jnp.{dtype})" for s in value[1]])


# --------------------------------------------------------------------------------------
# work items
# --------------------------------------------------------------------------------------


def make_items(tier, seed):
    rng = random.Random(seed * 15485863 + (21 if tier == "quick" else 22))
    items = []
    if tier == "quick":
        plan = {1: 10, 2: 22, 3: 20}
        n_guided, n_random = 2, 1
        tree_cases = 5
    else:
        plan = {1: 24, 2: 80, 3: 80, 4: 32}
        n_guided, n_random = 3, 1
        tree_cases = 16
    seen = set()
    for n_params, count in plan.items():
        made = 0
        while made < count:
            params, ret = G.random_signature(rng, n_params)
            if (params, ret) in seen or not G.is_nontrivial(list(params) + [ret]) and rng.random() < 0.7:
                continue
            seen.add((params, ret))
            made += 1
            shape_cases = G.sample_shape_tuples(rng, list(params) + [ret], n_guided, n_random)
            cases = []
            for sc in shape_cases:
                r = rng.random()
                dtypes = ["float32"] * n_params
                if r < 0.15:
                    dtypes[rng.randrange(n_params)] = "int32"
                elif r < 0.35:
                    dtypes[rng.randrange(n_params)] = rng.choice(("float16", "bfloat16"))
                in_axes = _random_in_axes(rng, [len(s) for s in sc[:-1]])
                cases.append(dict(values=tuple(sc), dtypes=tuple(dtypes), in_axes=in_axes))
            items.append(dict(family="generator", anns=[A(d) for d in params], ret=A(ret), cases=cases, styles=("new", "old") if (tier == "thorough" and made % 3 == 0) else ("new",)))
    templates = [
        ([T("a"), A("a")], A("...")),
        ([A("a b"), T("b", "S")], A("a")),
        ([T("a", "S"), T("a", "S")], A("...")),
        ([A("*c a"), T("*c")], A("*c")),
    ]
    for anns, ret in templates:
        cases = []
        for _ in range(tree_cases):
            vals = []
            for _, node in anns + [ret]:
                if node[0] == "arr":
                    vals.append(rng.choice(G.ALL_SHAPES))
                else:
                    sk = rng.choice(TREE_KEYS)
                    cands = [s for s in G.ALL_SHAPES if len(s) == 1] if node[1][1] in ("a", "b") else list(G.ALL_SHAPES)
                    first = rng.choice(cands)
                    leaves = [first] + [first if rng.random() < 0.6 else rng.choice(cands) for _ in range(TREE_ARITY[sk] - 1)]
                    vals.append((sk, tuple(leaves)))
            # bias toward satisfiable: copy sizes so that names agree half of the time
            cases.append(dict(values=tuple(vals), dtypes=tuple(["float32"] * len(anns)), in_axes=tuple([0] * len(anns))))
        items.append(dict(family="pytree", anns=anns, ret=ret, cases=cases, styles=("new",)))
    return items


def _random_in_axes(rng, ranks):
    """per argument: 0, 'last' (= its rank, i.e. batch axis appended) or None (not batched); >=1 batched."""
    while True:
        ax = tuple(rng.choice((0, 0, "last", None)) for _ in ranks)
        if any(a is not None for a in ax):
            return tuple((r if a == "last" else a) for a, r in zip(ax, ranks))


# --------------------------------------------------------------------------------------
# transformations; each returns a thunk that runs the decorated function on tracers that carry exactly the
# per-call shapes/dtypes of the eager call
# --------------------------------------------------------------------------------------


def _batched(x, axis, size):
    import jax.numpy as jnp

    if axis is None:
        return x
    return jnp.zeros(x.shape[:axis] + (size,) + x.shape[axis:], x.dtype)


def transformations(tier, float_only_ok):
    import jax
    import jax.numpy as jnp
    import jax.tree_util as jtu

    def bat(args, axes, size=2):
        return [jtu.tree_map(lambda x: _batched(x, ax, size), a) for a, ax in zip(args, axes)]

    def scal(f):
        return lambda *a: jnp.sum(f(*a).astype(jnp.float32))

    tr = {}
    tr["jit"] = lambda f, args, axes: jax.jit(f)(*args)
    tr["eval_shape"] = lambda f, args, axes: jax.eval_shape(f, *[jtu.tree_map(lambda x: jax.ShapeDtypeStruct(x.shape, x.dtype), a) for a in args])
    tr["vmap0"] = lambda f, args, axes: jax.vmap(f, in_axes=0)(*bat(args, [0] * len(args)))
    tr["vmap_in_axes"] = lambda f, args, axes: jax.vmap(f, in_axes=tuple(axes))(*bat(args, axes))
    tr["jit_vmap"] = lambda f, args, axes: jax.jit(jax.vmap(f, in_axes=tuple(axes)))(*bat(args, axes))
    tr["vmap_jit"] = lambda f, args, axes: jax.vmap(jax.jit(f), in_axes=0)(*bat(args, [0] * len(args)))
    if float_only_ok:
        n = lambda args: tuple(range(len(args)))
        tr["grad"] = lambda f, args, axes: jax.grad(scal(f), argnums=n(args))(*args)
        tr["jit_grad"] = lambda f, args, axes: jax.jit(jax.grad(scal(f), argnums=n(args)))(*args)
        if tier == "thorough":
            tr["vmap_grad"] = lambda f, args, axes: jax.vmap(jax.grad(scal(f), argnums=n(args)), in_axes=0)(*bat(args, [0] * len(args)))
            tr["grad_vmap"] = lambda f, args, axes: jax.grad(lambda *a: jnp.sum(jax.vmap(scal(f))(*a)), argnums=n(args))(*bat(args, [0] * len(args)))
            tr["value_and_grad"] = lambda f, args, axes: jax.value_and_grad(scal(f))(*args)
    if tier == "thorough":
        tr["vmap_vmap"] = lambda f, args, axes: jax.vmap(jax.vmap(f))(*bat(bat(args, [0] * len(args), 3), [0] * len(args), 2))
        tr["eval_shape_vmap"] = lambda f, args, axes: jax.eval_shape(jax.vmap(f, in_axes=tuple(axes)), *bat(args, axes))
        tr["jit_jit"] = lambda f, args, axes: jax.jit(jax.jit(f))(*args)
        tr["linearize"] = (lambda f, args, axes: jax.linearize(f, *args)) if float_only_ok else None
        tr["checkpoint_jit"] = lambda f, args, axes: jax.jit(jax.checkpoint(f))(*args)
    return {k: v for k, v in tr.items() if v is not None}


TRANSFORM_SOURCE = {
    "jit": "jax.jit(f)(*args)",
    "eval_shape": "jax.eval_shape(f, *jax.tree_util.tree_map(lambda x: jax.ShapeDtypeStruct(x.shape, x.dtype), args))",
    "vmap0": "jax.vmap(f)(*bat(args, [0] * len(args)))",
    "vmap_in_axes": "jax.vmap(f, in_axes=AXES)(*bat(args, AXES))",
    "jit_vmap": "jax.jit(jax.vmap(f, in_axes=AXES))(*bat(args, AXES))",
    "vmap_jit": "jax.vmap(jax.jit(f))(*bat(args, [0] * len(args)))",
    "grad": "jax.grad(lambda *a: jnp.sum(f(*a)), argnums=tuple(range(len(args))))(*args)",
    "jit_grad": "jax.jit(jax.grad(lambda *a: jnp.sum(f(*a)), argnums=tuple(range(len(args)))))(*args)",
    "vmap_grad": "jax.vmap(jax.grad(lambda *a: jnp.sum(f(*a)), argnums=tuple(range(len(args)))))(*bat(args, [0] * len(args)))",
    "grad_vmap": "jax.grad(lambda *a: jnp.sum(jax.vmap(lambda *b: jnp.sum(f(*b)))(*a)), argnums=tuple(range(len(args))))(*bat(args, [0] * len(args)))",
    "value_and_grad": "jax.value_and_grad(lambda *a: jnp.sum(f(*a)))(*args)",
    "vmap_vmap": "jax.vmap(jax.vmap(f))(*bat(bat(args, [0] * len(args), 3), [0] * len(args), 2))",
    "eval_shape_vmap": "jax.eval_shape(jax.vmap(f, in_axes=AXES), *bat(args, AXES))",
    "jit_jit": "jax.jit(jax.jit(f))(*args)",
    "linearize": "jax.linearize(f, *args)",
    "checkpoint_jit": "jax.jit(jax.checkpoint(f))(*args)",
}


def classify(exc):
    """-> 'accept' | 'TypeCheckError' | 'concretization:<cls>' | 'other:<cls>'"""
    import jax

    import jaxtyping

    if exc is None:
        return "accept"
    conc = tuple(
        getattr(jax.errors, n) for n in ("ConcretizationTypeError", "TracerBoolConversionError", "TracerArrayConversionError", "TracerIntegerConversionError")
        if hasattr(jax.errors, n)
    )
    # a forced tracer may be wrapped: the decorator turns any exception of the checker into a TypeCheckError,
    # so the whole __cause__/__context__ chain is searched
    seen, todo = set(), [exc]
    while todo and len(seen) < 30:
        e = todo.pop()
        if e is None or id(e) in seen:
            continue
        seen.add(id(e))
        if isinstance(e, conc):
            return "concretization:" + type(e).__name__
        todo.extend([e.__cause__, e.__context__])
    if type(exc) is jaxtyping.TypeCheckError:
        return "TypeCheckError"
    return "other:" + type(exc).__name__


def run_thunk(thunk):
    try:
        with warnings.catch_warnings():
            warnings.simplefilter("ignore")
            thunk()
    except Exception as e:
        return classify(e), e
    return "accept", None


def snippet(src, style, checker, order, nodes, ret_node, case, transform, values_kind="zeros"):
    tc = "typeguard.typechecked" if checker == "typeguard" else "beartype.beartype"
    lines = [
        "import jax, jax.numpy as jnp, typeguard, beartype",
        "from jaxtyping import Float, PyTree, jaxtyped",
        f"RET = jnp.zeros({tuple(case['values'][-1])!r}, jnp.float32)" if ret_node[0] == "arr" else "RET = None",
        src.rstrip(),
        G.decorator_source(style, checker),
        "args = [" + ", ".join(value_source(nodes[p], v, dt) for p, v, dt in zip(order, case["values"], case["dtypes"])) + "]",
        f"AXES = {tuple(case['in_axes'])!r}",
        "def bat(args, axes, size=2):",
        "    ins = lambda x, ax: x if ax is None else jnp.zeros(x.shape[:ax] + (size,) + x.shape[ax:], x.dtype)",
        "    return [jax.tree_util.tree_map(lambda x: ins(x, ax), a) for a, ax in zip(args, axes)]",
        "f(*args)  # eager" if transform.startswith("eager") else "f(*args)  # eager verdict",
    ]
    if not transform.startswith("eager"):
        lines.append(TRANSFORM_SOURCE[transform] + f"  # {transform} verdict must be the same")
    else:
        lines.append(f"# and the same call with element values '{values_kind}' instead of zeros must give the same verdict")
    return "\n".join(lines)


def run_item(item, tier):
    import jax
    import jax.numpy as jnp
    import numpy as np

    anns, ret = item["anns"], item["ret"]
    n = len(anns)
    order = [f"p{i}" for i in range(n)]
    exprs = {p: anns[i][0] for i, p in enumerate(order)}
    nodes = {p: anns[i][1] for i, p in enumerate(order)}
    ret_expr, ret_node = ret
    body = "return RET + 0.0 * (" + " + ".join(f"sum(jnp.sum(l) for l in jax.tree_util.tree_leaves({p}))" for p in order) + ")"
    src = G.function_source("f", order, exprs, ret_expr, body=body)
    evals = 0
    keys, failures = [], []
    sample = None

    def fresh_functions(ret_shape):
        # a FRESH function object per case: jax.jit caches traces per function object and argument avals, so a
        # function whose captured RET changed between cases would (legitimately) not be re-traced / re-checked.
        fns = {}
        for style in item["styles"]:
            for checker in ("typeguard", "beartype"):
                g = G.base_globals()
                g["jax"], g["jnp"] = jax, jnp
                g["RET"] = jnp.zeros(tuple(ret_shape), jnp.float32)
                exec(src, g)
                fns[(style, checker)] = (G.decorate(g["f"], style, checker), g)
        return fns

    def fail(case_id, clause, case, style, checker, transform, expected, actual, values_kind="zeros"):
        failures.append(
            dict(
                case=case_id, clause=clause,
                input=dict(signature=src.splitlines()[0], values=[_jsonable(v) for v in case["values"]], dtypes=list(case["dtypes"]),
                           in_axes=list(case["in_axes"]), style=style, checker=checker, transformation=transform),
                expected=expected, actual=actual,
                snippet=snippet(src, style, checker, order, nodes, ret_node, case, transform, values_kind),
            )
        )

    rs = np.random.RandomState(0)

    def leaf_zeros(shape, dt):
        return jnp.zeros(shape, getattr(jnp, dt))

    def leaf_ones(shape, dt):
        return jnp.ones(shape, getattr(jnp, dt))

    def leaf_rand(shape, dt):
        return jnp.asarray(rs.standard_normal(shape) * 100.0).astype(getattr(jnp, dt))

    def leaf_nan(shape, dt):
        return jnp.full(shape, float("nan") if "float" in dt else -7, getattr(jnp, dt))

    for case in item["cases"]:
        vals, dtypes = case["values"], case["dtypes"]
        cons = tuple((nodes[p], v) for p, v in zip(order, vals)) + ((ret_node, vals[-1]),)
        dtype_ok = all(d in FLOAT_DTYPES for d in dtypes)
        expected_accept = dtype_ok and G.satisfiable(cons)
        expected = "accept" if expected_accept else "reject"
        floats_only = all("float" in d for d in dtypes)
        nontrivial = True
        keys.append((item["family"], src, repr(vals), dtypes))
        for (style, checker), (fn, g) in fresh_functions(vals[-1]).items():
            args = [make_value(nodes[p], v, dt, leaf_zeros) for p, v, dt in zip(order, vals, dtypes)]
            eager, eexc = run_thunk(lambda: fn(*args))
            evals += 1
            new = style == "new"

            def norm(v):
                # new spelling: accept / TypeCheckError / anything else is kept as is (and will disagree);
                # old spelling: the checker's own exception class is used, so only accept/raise is compared.
                if v == "accept" or v.startswith("concretization"):
                    return v
                if new:
                    return "reject" if v == "TypeCheckError" else v
                return "reject"

            eager_v = norm(eager)
            if eager_v != expected:
                fail(f"eager-vs-oracle:{style}-{checker}:oracle-{expected}:eager-{eager}", "eager-verdict", case, style, checker, "eager", expected,
                     eager if eexc is None else f"{eager}: {str(eexc)[:200]}")
            # element values must not matter
            for kind, leaf_fn in (("ones", leaf_ones), ("random", leaf_rand), ("nan", leaf_nan)):
                args2 = [make_value(nodes[p], v, dt, leaf_fn) for p, v, dt in zip(order, vals, dtypes)]
                got, exc = run_thunk(lambda: fn(*args2))
                evals += 1
                if norm(got) != eager_v:
                    fail(f"value-independence:eager-{kind}:{style}-{checker}:zeros-{eager}:{kind}-{got}", "value-independence", case, style, checker,
                         "eager-" + kind, eager, got if exc is None else f"{got}: {str(exc)[:200]}", kind)
            trs = transformations(tier, floats_only)
            for tname, tfun in trs.items():
                got, exc = run_thunk(lambda: tfun(fn, args, case["in_axes"]))
                evals += 1
                if got.startswith("concretization"):
                    fail(f"no-concretization:{tname}:{style}-{checker}:{got}", "no-concretization", case, style, checker, tname,
                         f"same verdict as eager ({eager}) without forcing a tracer", f"{got}: {str(exc)[:300]}")
                elif norm(got) != eager_v:
                    fail(f"traced-equals-eager:{tname}:{style}-{checker}:eager-{eager}:traced-{got}", "traced-equals-eager", case, style, checker, tname,
                         eager, got if exc is None else f"{got}: {str(exc)[:300]}")
            if sample is None and nontrivial:
                sample = dict(signature=src.splitlines()[0], values=[_jsonable(v) for v in vals], dtypes=list(dtypes), in_axes=list(case["in_axes"]),
                              oracle=expected, eager=eager, transformations=sorted(trs))
    return dict(evals=evals, keys=keys, failures=failures, sample=sample, family=item["family"])


def _jsonable(v):
    if isinstance(v, tuple):
        return [_jsonable(x) for x in v]
    return v


def _worker(chunk):
    warnings.simplefilter("ignore")
    tier = chunk[0]["tier"]
    return [run_item(it, tier) for it in chunk]


def main():
    import _common

    a = _common.setup("C17 bounded stand-in: tracing equals eager")
    procs = max(1, min(6, (os.cpu_count() or 3) - 2))  # workers; + this parent + the spawn resource tracker = at most 8 processes
    items = make_items(a.tier, a.seed)
    for it in items:
        it["tier"] = a.tier
    results = G.run_parallel(_worker, items, a.repo, procs, chunk=2 if a.tier == "quick" else 6)
    tally = _common.Tally()
    failures = []
    fams = set()
    for it, r in zip(items, results):
        tally.evaluations += r["evals"]
        tally.distinct.update(r["keys"])
        failures.extend(r["failures"])
        if r["sample"] is not None and len(tally.samples) < 5 and (r["family"] not in fams or len(it["anns"]) not in fams):
            fams.add(r["family"])
            fams.add(len(it["anns"]))
            tally.samples.append(r["sample"])
    G.merge_failures(tally, failures)
    n_gen = sum(1 for it in items if it["family"] == "generator")
    n_tree = len(items) - n_gen
    n_cases = sum(len(it["cases"]) for it in items)
    quick = a.tier == "quick"
    max_cases = max(len(it["cases"]) for it in items if it["family"] == "generator")
    tnames = "jit, eval_shape (ShapeDtypeStruct inputs), vmap(in_axes=0), vmap(seeded in_axes per argument in {0, last, None}), jit(vmap), vmap(jit), grad, jit(grad)"
    if not quick:
        tnames += ", vmap(grad), grad(vmap), value_and_grad, vmap(vmap), eval_shape(vmap), jit(jit), linearize, jit(checkpoint)"
    bound = (
        f"{n_gen} seeded-sample functions of the C02 generator over Float[jax.Array, dims] ({'1..3' if quick else '1..4'} parameters + return annotation; dims = <=2 tokens of "
        "{a,b,#a,_,2,*c,*#c,...,a+1}, <=1 multi-axis token, a+1 only after a parameter holding a plain `a`) and "
        f"{n_tree} fixed PyTree[Float[jax.Array, ...]] templates (with/without structure name; trees [x], {{'k':x,'l':y}}, (x,[y])); {n_cases} (function, shapes, dtypes) cases: "
        f"<= {max_cases} shape tuples per function (rank 0..2, sizes 1..3), argument dtypes float32 with one argument int32 (15%) or float16/bfloat16 (20%); "
        f"each case x {{typeguard 2.13, beartype}} x {'new spelling' if quick else 'new spelling (every third function also the old double-decorator spelling)'} x "
        f"[eager on zeros; eager on ones / N(0,100^2) / NaN; {tnames}] (grad family only when all arguments are floating)."
    )
    rule = (
        "Construction: the decorated function returns RET + 0*(sum of all argument leaves), i.e. a traced value of the pre-chosen return shape (float32); "
        "a FRESH function object is exec'd and decorated for every case (jax.jit caches traces per function object, so re-using one whose captured RET changed would not be re-traced). "
        "Every transformation is applied so that the tracers seen INSIDE the decorated function carry exactly the shapes/dtypes of the eager call: jit/eval_shape/grad on the "
        "same arrays (ShapeDtypeStructs for eval_shape); vmap on inputs into which a batch axis of size 2 (3 for the outer of vmap(vmap)) is inserted at the in_axes position "
        "(None = passed unbatched), so per-example shapes equal the eager shapes; grad differentiates sum(f(...)) w.r.t. all arguments. "
        "Expected: verdict (accept / jaxtyping.TypeCheckError) identical for eager-zeros, eager with other element values, and every transformation, and equal to the oracle "
        "(brute-force satisfiability of b02_calls AND every argument dtype floating); ConcretizationTypeError / Tracer*ConversionError are reported separately. "
        "Old spelling: only accept/raise is compared. Distinct = (function, shapes, dtypes) case; generator signatures without a shared axis name are down-sampled (30% kept)."
    )
    _common.emit(tally, bound=bound, rule=rule, exhaustive=False, wall_s=round(time.time() - a.t0, 1), processes=procs + 2)


if __name__ == "__main__":
    main()
