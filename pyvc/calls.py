"""Call evaluation: argument evaluation (incl. *args/**kwargs), dispatch to models, contracts,
inlining of repo callees without contract, weakest contract for opaque callees."""
from __future__ import annotations

import ast

import z3

from .engine import Raised, is_raised, mkbool, mkint, mkstr
from .values import (
    BOOL,
    INT,
    NONE,
    STR,
    U,
    Cls,
    DictObj,
    Exc,
    Fn,
    ListObj,
    NoneV,
    Obj,
    Opaque,
    Outcome,
    Ref,
    Tup,
    Unsupported,
    Z,
    EXC_PARENT,
)


class KwPack:
    """the **kwargs dict of an inlined call that received explicit keywords it has no parameter for: forwarded by `**kwargs` item by item."""

    def __init__(self, items):
        self.items = dict(items)

    def __repr__(self):
        return "KwPack(" + ", ".join(self.items) + ")"


class StarArgs:
    """*args / **kwargs forwarded as a unit."""

    def __init__(self, v, double):
        self.v, self.double = v, double

    def __repr__(self):
        return ("**" if self.double else "*") + repr(self.v)


def ev_call(eng, e, st):
    f = e.func
    # method call: evaluate receiver, then args
    arg_exprs = [a.value if isinstance(a, ast.Starred) else a for a in e.args]
    kw_exprs = [k.value for k in e.keywords]
    outs = []
    if isinstance(f, ast.Attribute):
        first = f.value
    else:
        first = f
    for s0, vals in eng.ev_all([first] + arg_exprs + kw_exprs, st):
        if is_raised(vals):
            outs.append((s0, vals))
            continue
        recv = vals[0]
        args = []
        for a, v in zip(e.args, vals[1 : 1 + len(arg_exprs)]):
            if isinstance(a, ast.Starred):
                if isinstance(v, Tup):
                    args.extend(v.items)
                else:
                    args.append(StarArgs(v, False))
            else:
                args.append(v)
        kwargs = {}
        for k, v in zip(e.keywords, vals[1 + len(arg_exprs) :]):
            if k.arg is None:
                lit = _splatted_literal(eng, s0, e, k.value, v)
                if isinstance(v, KwPack):
                    kwargs.update(v.items)
                elif lit is not None:
                    kwargs.update(lit)
                else:
                    kwargs["**"] = StarArgs(v, True)
            else:
                kwargs[k.arg] = v
        if isinstance(f, ast.Attribute):
            outs.extend(call_method(eng, s0, recv, f.attr, args, kwargs, e))
        else:
            outs.extend(call_value(eng, s0, recv, args, kwargs, e))
    return outs


def _splatted_literal(eng, st, call, expr, v):
    """`f(..., **opts)` where `opts` is a local bound exactly once, to a dict display with constant string keys, and used for nothing but `**opts`:
    the call receives exactly these keywords (the dict cannot have changed in between: nothing else ever sees it)"""
    from .values import Obj, Ref
    import z3 as _z3

    from .values import Opaque as _Opaque

    is_display = isinstance(v, Ref) and isinstance(st.get(v), Obj) and st.get(v).cls == "dictlit"
    is_dict_call = isinstance(v, _Opaque) and v.tag == "dict()" and v.attrs is not None  # dict(k=v, ...): same thing
    if not (isinstance(expr, ast.Name) and (is_display or is_dict_call) and eng.module is not None):
        return None
    owner = None
    for f in ast.walk(eng.module.tree):
        if isinstance(f, (ast.FunctionDef, ast.AsyncFunctionDef)) and any(n is call for n in ast.walk(f)):
            owner = f  # the innermost one wins (ast.walk visits outer functions first)
    if owner is None:
        return None
    uses = [n for n in ast.walk(owner) if isinstance(n, ast.Name) and n.id == expr.id]
    stores = [n for n in uses if isinstance(n.ctx, (ast.Store, ast.Del))]
    splats = {id(kw.value) for c in ast.walk(owner) if isinstance(c, ast.Call) for kw in c.keywords if kw.arg is None}
    binds = [a for a in ast.walk(owner) if isinstance(a, ast.Assign) and len(a.targets) == 1 and a.targets[0] in stores
             and (isinstance(a.value, ast.Dict) or (isinstance(a.value, ast.Call) and isinstance(a.value.func, ast.Name) and a.value.func.id == "dict" and not a.value.args
                                                    and all(k_.arg is not None for k_ in a.value.keywords)))]
    declared = any(isinstance(n, (ast.Global, ast.Nonlocal)) and expr.id in n.names for n in ast.walk(owner))
    if len(stores) != 1 or len(binds) != 1 or declared or any(id(n) not in splats for n in uses if n not in stores):
        return None
    if is_dict_call:
        return dict(v.attrs)
    items = st.get(v).attrs["items"].items
    half = len(items) // 2
    out = {}
    for kx, vx in zip(items[:half], items[half:]):
        if not (isinstance(kx, Z) and kx.kind == "str" and _z3.is_string_value(_z3.simplify(kx.t))):
            return None
        out[_z3.simplify(kx.t).as_string()] = vx
    return out


def call_value(eng, st, fv, args, kwargs, node=None):
    if isinstance(fv, Fn):
        if fv.model is not None:
            return fv.model(eng, st, args, kwargs, node)
        if isinstance(fv.node, ast.Lambda):
            return call_lambda(eng, st, fv, args, kwargs)
        if isinstance(fv.node, (ast.FunctionDef,)):
            return inline(eng, st, fv, args, kwargs)
        raise Unsupported(f"call of {fv}")
    if isinstance(fv, Cls):
        return construct(eng, st, fv, args, kwargs, node)
    if isinstance(fv, Opaque) or (isinstance(fv, Z) and fv.kind == "u"):
        return opaque_call(eng, st, getattr(fv, "tag", None) or "u", args, kwargs, fv)
    raise Unsupported(f"call of {fv}")


def call_lambda(eng, st, fv, args, kwargs):
    lam = fv.node
    s1 = st.clone()
    saved = s1.env
    env = dict(fv.closure or {})
    params = [a.arg for a in lam.args.args]
    for p, a in zip(params, args):
        env[p] = a
    s1.env = env
    outs = []
    for s2, v in eng.ev(lam.body, s1):
        s2.env = saved
        outs.append((s2, v))
    return outs


def bind_params(eng, fn_node, args, kwargs):
    a = fn_node.args
    names = [x.arg for x in a.posonlyargs + a.args]
    env = {}
    plain = [x for x in args if not isinstance(x, StarArgs)]
    stars = [x for x in args if isinstance(x, StarArgs)]
    if stars and not a.vararg:
        raise Unsupported("star-args into a function without *args")
    for n, v in zip(names, plain):
        env[n] = v
    extra = plain[len(names) :]
    if a.vararg:
        env[a.vararg.arg] = stars[0].v if stars and not extra else Tup(extra)
    elif extra:
        raise Unsupported("too many positional args")
    defaults = a.defaults
    for n, d in zip(names[len(names) - len(defaults) :], defaults):
        if n not in env and n not in kwargs:
            env[n] = ("default", d)
    packed = {}
    for k, v in kwargs.items():
        if k == "**":
            if a.kwarg:
                env[a.kwarg.arg] = v.v
            else:
                raise Unsupported("**kwargs into a function without **kwargs")
        elif a.kwarg and k not in names and k not in [x.arg for x in a.kwonlyargs]:
            packed[k] = v
        else:
            env[k] = v
    if a.kwarg and a.kwarg.arg not in env:
        env[a.kwarg.arg] = KwPack(packed) if packed else Opaque("empty-kwargs")
    elif packed:
        raise Unsupported("explicit keywords next to a forwarded ** mapping")
    for kw, d in zip(a.kwonlyargs, a.kw_defaults):
        if kw.arg not in env:
            if d is None:
                raise Unsupported(f"missing kw-only {kw.arg}")
            env[kw.arg] = ("default", d)
    missing = [n for n in names if n not in env]
    if missing:
        raise Unsupported(f"missing args {missing} calling {fn_node.name}")
    return env


def inline(eng, st, fv, args, kwargs):
    """a repo callee without contract: execute its body (depth-limited)."""
    if eng.inline_depth >= eng.max_inline:
        raise Unsupported(f"inline depth exceeded at {fv.name}")
    env = bind_params(eng, fv.node, args, kwargs)
    s1 = st.clone()
    saved_env = s1.env
    new_env = dict(fv.closure or {})
    for k, v in env.items():
        if isinstance(v, tuple) and v and v[0] == "default":
            r = eng.ev(v[1], s1)
            if len(r) != 1 or is_raised(r[0][1]):
                raise Unsupported("non-trivial default")
            v = r[0][1]
        new_env[k] = v
    s1.env = new_env
    eng.inline_depth += 1
    try:
        outs = []
        if id(fv.node) in getattr(eng, "memoised_fns", ()):
            # functools.lru_cache hashes the arguments before anything else: an argument that is not known to be hashable makes the call
            # itself raise TypeError (e.g. an inspect.Signature whose parameter defaults are arrays / lists / dicts)
            def hashable(v):
                return isinstance(v, (NoneV, Cls, Fn)) or (isinstance(v, Z) and v.kind in ("str", "int", "bool")) or (isinstance(v, Opaque) and (v.tag.startswith("sentinel:") or v.tag.startswith("module:")))
            if not all(hashable(v) for v in list(args) + list(kwargs.values())):
                s_h = st.clone()
                s_h.path.append(f"{fv.name}:memoised-call-hashes-an-unhashable-argument")
                outs.append((s_h, Raised(Exc("OtherTypeError", origin=f"lru_cache:{fv.name}"))))
        for s2, o in eng.run(fv.node.body, s1):
            s2.env = saved_env
            if o.kind == "return":
                outs.append((s2, o.val))
            elif o.kind == "normal":
                outs.append((s2, NONE))
            elif o.kind == "raise":
                outs.append((s2, Raised(o.val)))
            else:
                raise Unsupported(f"outcome {o.kind} escaping a function")
        return outs
    finally:
        eng.inline_depth -= 1


def construct(eng, st, cls, args, kwargs, node):
    name = cls.name
    from .builtins_model import CONVERTERS

    if name in CONVERTERS:
        return CONVERTERS[name](eng, st, args, kwargs, node)
    if name in EXC_PARENT or name.endswith("Error") or name.endswith("Exception"):
        return [(st, Exc(name, args, origin="constructed"))]
    for dt in eng.datatypes.values():
        if name in dt.classes:
            fields = dt.classes[name]
            if len(args) != len(fields) or kwargs:
                raise Unsupported(f"constructor {name} arity")
            ts = []
            for a, f in zip(args, fields):
                k = dt.field_kinds[f]
                if not (isinstance(a, Z) and a.kind == k):
                    raise Unsupported(f"{name}.{f} := {a}")
                ts.append(a.t)
            return [(st, Z(dt.kind, getattr(dt.sort, name)(*ts)))]
    m = eng.method_models.get("new:" + name)
    if m:
        return m(eng, st, cls, args, kwargs, node)
    raise Unsupported(f"constructor {name}")


def opaque_call(eng, st, tag, args, kwargs, fv=None, raises=None, result=None, havoc=True, log=True):
    """weakest contract: any result, any exception class; user-frame havoc."""
    outs = []
    states = eng.apply_user_havoc(st) if havoc else [st]
    for s1 in states:
        s1 = s1.clone()
        if log:
            s1.log.append((tag, tuple(args), dict(kwargs)))
        ok = s1.clone()
        ok.path.append(f"{tag}:ok")
        outs.append((ok, result() if result else Opaque(f"ret:{tag}")))
        s2 = s1.clone()
        s2.path.append(f"{tag}:raises")
        outs.append((s2, Raised(Exc(frozenset(raises if raises is not None else eng.user_raises), origin=tag))))
    return outs


# ---------------------------------------------------------------------------- methods
def call_method(eng, st, recv, name, args, kwargs, node):
    m = eng.method_models.get(name)
    if m is not None:
        r = m(eng, st, recv, args, kwargs, node)
        if r is not None:
            return r
    if isinstance(recv, Z):
        if recv.kind == "str":
            return str_method(eng, st, recv, name, args, kwargs)
        if recv.kind.startswith("set:") and name == "__or__":
            raise Unsupported("set or")
    if isinstance(recv, Ref):
        o = st.get(recv)
        if isinstance(o, DictObj):
            return dict_method(eng, st, recv, o, name, args, kwargs)
        if isinstance(o, ListObj):
            return list_method(eng, st, recv, o, name, args, kwargs)
        if isinstance(o, Obj):
            if name in o.attrs:
                return call_value(eng, st, o.attrs[name], args, kwargs, node)
            # a private helper method of the object's own class in the file under proof (e.g. an extracted `self._helper(...)`): inlined
            meth = None
            if eng.module is not None and eng.auto_inline:
                try:
                    cdef = eng.module._find_in(eng.module.tree.body, o.cls, (ast.ClassDef,))
                except Exception:
                    cdef = None
                if cdef is not None:
                    cands = [b for b in cdef.body if isinstance(b, ast.FunctionDef) and b.name == name and not b.decorator_list]
                    meth = cands[-1] if cands else None
                elif name.startswith("_") and not name.startswith("__"):
                    # the object is modelled under another label than its class name: a PRIVATE method with this name defined exactly once in the file
                    cands = [b for c_ in eng.module.tree.body if isinstance(c_, ast.ClassDef) for b in c_.body if isinstance(b, ast.FunctionDef) and b.name == name and not b.decorator_list]
                    meth = cands[0] if len(cands) == 1 else None
            if meth is not None:
                return inline(eng, st, Fn(f"{o.cls}.{name}", node=meth, closure={}), [recv] + list(args), kwargs)
            # a method we have no contract for on a modelled object: weakest contract
            return opaque_call(eng, st, f"{o.tag}.{name}", args, kwargs)
    if isinstance(recv, Exc) and name == "add_note":
        recv.notes.append(args[0])
        return [(st, NONE)]
    if isinstance(recv, Fn) and recv.name == "np" or isinstance(recv, Opaque) and recv.tag.startswith("global:"):
        g = eng.globals.get(f"{getattr(recv, 'tag', '').replace('global:', '')}.{name}")
        if g is not None:
            return call_value(eng, st, g, args, kwargs, node)
    if isinstance(recv, (Opaque, Cls, Fn)) or (isinstance(recv, Z) and (recv.kind == "u" or recv.tag == "fstr")):
        # attribute fetch then call: both opaque
        tag = f"{getattr(recv, 'tag', None) or getattr(recv, 'name', 'u')}.{name}"
        if name in PURE_OPAQUE_METHODS:
            return [(st, pure_result(name))]
        return opaque_call(eng, st, tag, args, kwargs)
    if isinstance(recv, Tup) and name == "copy":
        return [(st, recv)]
    raise Unsupported(f"method {name} on {recv}")


PURE_OPAQUE_METHODS = {"startswith", "endswith", "replace", "format", "join", "lower", "strip", "split", "rsplit", "keys", "values", "items", "get", "isidentifier"}


def pure_result(name):
    if name in ("startswith", "endswith", "isidentifier"):
        return Z("bool", z3.FreshConst(BOOL, name))
    if name in ("replace", "format", "join", "lower", "strip"):
        return Z("str", z3.FreshConst(STR, name), tag="fstr")
    return Opaque(f"ret:{name}")


def str_method(eng, st, recv, name, args, kwargs):
    t = recv.t
    a0 = args[0] if args else None
    if name == "startswith" and isinstance(a0, Z) and a0.kind == "str":
        return [(st, Z("bool", z3.PrefixOf(a0.t, t)))]
    if name == "endswith" and isinstance(a0, Z) and a0.kind == "str":
        return [(st, Z("bool", z3.SuffixOf(a0.t, t)))]
    if name in ("lower", "upper", "strip", "lstrip", "rstrip") and not args:
        f = z3.Function(f"py_str_{name}", STR, STR)
        return [(st, Z("str", f(t)))]
    if name in ("isidentifier", "isalnum", "isdigit") and not args:
        tv = z3.simplify(t)
        if z3.is_string_value(tv):
            return [(st, mkbool(getattr(tv.as_string(), name)()))]
        f = z3.Function(f"py_str_{name}", STR, BOOL)
        return [(st, Z("bool", f(t)))]
    if name == "count" and isinstance(a0, Z) and a0.kind == "str":
        f = z3.Function("py_str_count", STR, STR, INT)
        r = f(t, a0.t)
        s1 = st.fork(z3.And(r >= 0, z3.Implies(r > 0, z3.Contains(t, a0.t)), z3.Implies(z3.And(z3.Contains(t, a0.t), z3.Length(a0.t) > 0), r > 0)))
        return [(s1, Z("int", r))]
    if name == "split" and not args:
        f = z3.Function("py_str_split_ws", STR, z3.SeqSort(STR))
        return [(st, Z("seq:str", f(t)))]
    if name in ("replace", "format", "join", "encode", "rsplit", "split"):
        if name in ("split", "rsplit"):
            return [(st, Opaque(f"str.{name}"))]
        return [(st, Z("str", z3.FreshConst(STR, name), tag="fstr"))]
    raise Unsupported(f"str.{name}")


def dict_method(eng, st, ref, o, name, args, kwargs):
    if name == "copy" and not args:
        s1 = st.clone()
        return [(s1, s1.alloc(DictObj(o.ksort, o.vsort, o.m, o.d, "copy")))]
    if name in ("items", "keys", "values"):
        return [(st, Opaque(f"dict.{name}", attrs={"__dict__": ref}))]
    if name == "get" and args and isinstance(args[0], Z):
        k = args[0]
        default = args[1] if len(args) > 1 else NONE
        outs = []
        for s1, has in eng.branch(st, o.d[k.t]):
            outs.append((s1, eng.unpack_val(o.vsort, o.m[k.t]) if has else default))
        return outs
    if name == "clear" and not args:
        s1 = st.clone()
        e0 = DictObj.empty(o.ksort, o.vsort, o.tag)
        s1.put(ref, e0)
        return [(s1, NONE)]
    if name == "update" and len(args) == 1 and isinstance(args[0], Ref) and isinstance(st.get(args[0]), DictObj) and st.get(args[0]).vsort == o.vsort:
        o2 = st.get(args[0])
        k = z3.FreshConst(o.ksort, "k")
        s1 = st.clone()
        s1.put(ref, o.with_(z3.Lambda([k], z3.If(o2.d[k], o2.m[k], o.m[k])), z3.Lambda([k], z3.Or(o.d[k], o2.d[k]))))
        return [(s1, NONE)]
    if name == "pop" and args and isinstance(args[0], Z):
        k0 = args[0]
        outs = []
        has = st.fork(o.d[k0.t], "has")
        if eng.feasible(has.pc):
            has.put(ref, o.with_(o.m, z3.Store(o.d, k0.t, z3.BoolVal(False))))
            outs.append((has, eng.unpack_val(o.vsort, o.m[k0.t])))
        mis = st.fork(z3.Not(o.d[k0.t]), "missing")
        if eng.feasible(mis.pc):
            outs.append((mis, args[1]) if len(args) > 1 else (mis, Raised(Exc("KeyError", origin="dict.pop"))))
        return outs
    raise Unsupported(f"dict.{name}")


def list_method(eng, st, ref, o, name, args, kwargs):
    s1 = st.clone()
    if name == "append" and len(args) == 1:
        s1.put(ref, o.with_(items=o.items + [args[0]]))
        return [(s1, NONE)]
    if name == "insert" and len(args) == 2:
        m = eng.method_models.get("list.insert")
        if m:
            return m(eng, st, ref, o, args)
        i = args[0]
        if isinstance(i, Z) and z3.is_int_value(z3.simplify(i.t)) and o.lower is None:
            k = z3.simplify(i.t).as_long()
            items = list(o.items)
            items.insert(k, args[1])
            s1.put(ref, o.with_(items=items))
            return [(s1, NONE)]
        raise Unsupported("list.insert with symbolic index")
    if name == "pop" and not args:
        if o.items:
            s1.put(ref, o.with_(items=o.items[:-1]))
            return [(s1, o.items[-1])]
        if o.lower is None:
            return [(st, Raised(Exc("IndexError", origin="pop from empty list")))]
        mat = eng.method_models.get("__materialise__")
        if mat is None:
            raise Unsupported("pop from symbolic list")
        outs = []
        for s2, v in mat(eng, st, ref, o, -1):
            if is_raised(v):
                outs.append((s2, v))
            else:
                o2 = s2.get(ref)
                s2.put(ref, o2.with_(items=o2.items[:-1]))
                outs.append((s2, v))
        return outs
    if name == "remove" and len(args) == 1:
        m = eng.method_models.get("list.remove")
        if m:
            return m(eng, st, ref, o, args)
    if name == "copy":
        return [(s1, s1.alloc(ListObj(o.items, o.lower)))]
    raise Unsupported(f"list.{name}")
