"""Unit: jaxtyping/_import_hook.py.

C11  _JaxtypingFinder.should_instrument (loop invariant: result <=> some name equals or lies beneath a hooked name),
     string lemma (a bare string prefix is not 'beneath'), find_spec (swaps the loader only for instrumented source
     modules, with this finder's checker), install_import_hook / ImportHookManager (hook at meta_path[0]; uninstall
     removes exactly it, idempotently), Typechecker.__init__ / get_ast (hash -> lookup entry of that very checker).
C18  _optimized_cache_from_source (tag = "jaxtyping9" + hash; injective; never the plain name) and the patch extent of
     _JaxtypingLoader: cache_from_source is patched exactly while this loader's own get_code runs, never while a module
     body executes.
C10  JaxtypingTransformer.visit_Module / visit_ClassDef / visit_FunctionDef as heap transformers: exactly one import
     inserted after the leading __future__/constant-expression run (or none if that run is the whole body), decorator
     appended innermost on defs / inserted outermost on classes, copy_location(decorator, node), children visited once,
     the node returned, nothing else written; no visit_AsyncFunctionDef / visit_Lambda.
"""
from __future__ import annotations

import ast

import z3

from ..engine import Engine, Raised, is_raised, mkbool, mkint
from ..source import Module, NotFound
from ..values import ANY_EXC, BOOL, INT, NONE, NORMAL, STR, U, Cls, DictObj, Exc, Fn, ListObj, NoneV, Obj, Opaque, Outcome, Ref, State, Tup, Unsupported, Z

NAME = "hook"
REL = "jaxtyping/_import_hook.py"
SEQS = z3.SeqSort(STR)


def Beneath(name, m):
    """the statement: the dotted name equals m or lies beneath it as a sub-package / sub-module."""
    return z3.Or(name == m, z3.PrefixOf(z3.Concat(m, z3.StringVal(".")), name))


def build(repo=None):
    mod = Module(REL, repo)
    obligations, functions = [], []
    paths = 0

    def fdesc(q, node):
        functions.append({"qualname": f"jaxtyping._import_hook.{q}", "sha256_16": mod.sha(node), "lines": [node.lineno, node.end_lineno]})

    def collect(st_obl, serves):
        for ob in st_obl:
            ob = dict(ob)
            ob.setdefault("kind", "vc")
            ob.setdefault("serves", serves)
            obligations.append(ob)

    # ================================================================== should_instrument
    si = mod.func("_JaxtypingFinder.should_instrument")
    fdesc("_JaxtypingFinder.should_instrument", si)
    eng = Engine(mod)
    modules = z3.Const("modules", SEQS)
    name = z3.String("module_name")
    n = z3.Length(modules)
    k = z3.Int("k")
    AnyB = z3.Function("AnyBeneath", INT, BOOL)
    unfold = lambda j: AnyB(j + 1) == z3.Or(AnyB(j), Beneath(name, modules[j]))
    st = State()
    self_ref = st.alloc(Obj("_JaxtypingFinder", {"modules": Z("seq:str", modules)}, tag="self"))
    p = [a.arg for a in si.args.args]
    st.env = {p[0]: self_ref, p[1]: Z("str", name)}
    loops = [x for x in ast.walk(si) if isinstance(x, (ast.For, ast.While))]
    if len(loops) != 1:
        raise Unsupported("should_instrument: expected one loop")

    def loop_handler(e, node, s0):
        outs = []
        for s1, it in e.ev(node.iter, s0):
            if not (isinstance(it, Z) and it.kind == "seq:str" and it.t.eq(modules)):
                raise Unsupported("should_instrument does not iterate over self.modules")
            s2 = s1.clone()
            s2.pc += [0 <= k, k < n, z3.Not(AnyB(0)), z3.Not(AnyB(k)), unfold(k)]
            s2.env[node.target.id] = Z("str", modules[k])
            s2.path.append("loop:iter")
            for s3, o3 in e.run(node.body, s2):
                if o3.kind in ("normal", "continue"):
                    e.oblige(s3, "C11:should_instrument:invariant-preserved(no-hit-so-far)", z3.Not(AnyB(k + 1)), name=name, module_k=modules[k])
                elif o3.kind == "return":
                    ok = isinstance(o3.val, Z) and o3.val.kind == "bool"
                    e.oblige(s3, "C11:should_instrument:returns-True-inside-the-loop-only-on-a-hit", z3.And(o3.val.t, AnyB(k + 1)) if ok else z3.BoolVal(False), name=name, module_k=modules[k])
                    s4 = s3.fork(AnyB(n), "loop:hit")  # monotone (lemma below) + induction
                    outs.append((s4, o3))
                else:
                    outs.append((s3, o3))
            s5 = s1.clone()
            s5.pc += [z3.Not(AnyB(0)), z3.Not(AnyB(n))]
            s5.path.append("loop:exhausted")
            outs.append((s5, NORMAL))
        return outs

    eng.loop_specs[id(loops[0])] = loop_handler
    for s1, o in eng.run(si.body, st):
        paths += 1
        if o.kind == "return" and isinstance(o.val, Z) and o.val.kind == "bool":
            eng.oblige(s1, "C11:should_instrument:true-iff-the-name-equals-or-lies-beneath-a-hooked-name", o.val.t == AnyB(n), name=name)
        else:
            eng.oblige(s1, f"C11:should_instrument:returns-a-bool[{o.kind}]", z3.BoolVal(False))
    for ob in st.obl:
        m0 = z3.String("hooked_name0")
        ob["hints"] = [[modules == z3.Unit(m0), k == 0, z3.Length(name) <= 3, z3.Length(m0) <= 2], [modules == z3.Concat(z3.Unit(m0), z3.Unit(z3.String("hooked_name1"))), z3.Length(name) <= 3]]
    collect(st.obl, ["C11"])
    j = z3.Int("j")
    m, r = z3.Strings("m r")
    obligations += [
        {"clause": "C11:lemma:anybeneath-monotone(step)", "kind": "vc", "pc": [0 <= j, j < n, unfold(j)], "goal": z3.Implies(AnyB(j), AnyB(j + 1)), "path": [], "meta": {}, "serves": ["C11"]},
        {"clause": "C11:lemma:a-bare-string-prefix-is-not-beneath", "kind": "vc", "serves": ["C11"], "path": [], "meta": {},
         "pc": [name == z3.Concat(m, r), z3.Length(r) > 0, z3.SubString(r, 0, 1) != z3.StringVal(".")], "goal": z3.Not(Beneath(name, m))},
        {"clause": "C11:lemma:a-dotted-continuation-is-beneath", "kind": "vc", "serves": ["C11"], "path": [], "meta": {},
         "pc": [name == z3.Concat(m, z3.StringVal("."), r)], "goal": Beneath(name, m)},
        {"clause": "canary:should_instrument-loop-assumptions-satisfiable", "kind": "canary", "pc": [0 <= k, k < n, z3.Not(AnyB(k)), unfold(k), AnyB(k + 1)], "goal": z3.BoolVal(False), "path": [], "meta": {}},
    ]

    # ================================================================== find_spec
    fs = mod.func("_JaxtypingFinder.find_spec")
    fdesc("_JaxtypingFinder.find_spec", fs)
    eng = Engine(mod)
    Should = z3.Bool("should_instrument_result")
    st = State()
    tc = Opaque("self._typechecker")
    loaders = []

    def new_loader(e, s, cls, args, kwargs, node):
        s1 = s.clone()
        r = s1.alloc(Obj("_JaxtypingLoader", {"args": Tup(args), "typechecker": kwargs.get("typechecker", NONE)}, tag="new-loader"))
        s1.ghost["made_loader"] = r
        return [(s1, r)]

    eng.method_models["new:_JaxtypingLoader"] = new_loader
    eng.globals["_JaxtypingLoader"] = Cls("_JaxtypingLoader")
    eng.globals["SourceFileLoader"] = Cls("SourceFileLoader")
    spec_obj = Opaque("spec", attrs=None)
    orig = Opaque("original_pathfinder")

    def m_find_spec(e, s, recv, args, kwargs, node):
        if isinstance(recv, Opaque) and recv.tag == "original_pathfinder":
            s1 = s.clone()
            s1.log.append(("orig.find_spec", tuple(args)))
            found = s1.clone()
            sp = found.alloc(Obj("ModuleSpec", {"loader": Opaque("spec.loader", attrs={"name": Opaque("loader.name"), "path": Opaque("loader.path")})}, tag="spec"))
            found.ghost["spec"] = sp
            found.ghost["orig_loader"] = found.get(sp).attrs["loader"]
            return [(found, sp), (s1, NONE)]
        return None

    eng.method_models["find_spec"] = m_find_spec
    self_ref = st.alloc(Obj("_JaxtypingFinder", {"_original_pathfinder": orig, "_typechecker": tc,
                                                 "should_instrument": Fn("should_instrument", model=lambda e, s, a, kw, nd: [(s, Z("bool", Should))])}, tag="self"))
    p = [a.arg for a in fs.args.args]
    fullname = Opaque("fullname")
    st.env = {p[0]: self_ref, p[1]: fullname}
    for extra in p[2:]:
        st.env[extra] = Opaque(extra)
    is_src = z3.Function("py_isinstance_SourceFileLoader", U, BOOL)
    for s1, o in eng.run(fs.body, st):
        paths += 1
        if o.kind != "return":
            eng.oblige(s1, f"C11:find_spec:returns[{o.kind}]", z3.BoolVal(False))
            continue
        v = o.val
        if isinstance(v, NoneV):
            # declining is always allowed unless the module must be instrumented and is a source module
            sp = s1.ghost.get("spec")
            if sp is not None:
                ld = s1.get(sp).attrs["loader"]
                eng.oblige(s1, "C11:find_spec:declines-only-if-not-hooked-or-not-a-source-module", z3.Or(z3.Not(Should), z3.Not(is_src(eng.as_u(s1, ld)))) if isinstance(ld, Opaque) else z3.BoolVal(False))
            continue
        sp = s1.ghost.get("spec")
        ok = sp is not None and isinstance(v, Ref) and v.h == sp.h
        eng.oblige(s1, "C11:find_spec:returns-the-spec-found-by-the-wrapped-finder-for-the-same-name", z3.BoolVal(ok and any(l[0] == "orig.find_spec" and l[1] and l[1][0] is fullname for l in s1.log)))
        eng.oblige(s1, "C11:find_spec:instruments-only-names-that-should_instrument-accepts", Should)
        ol = s1.ghost.get("orig_loader")
        eng.oblige(s1, "C11:find_spec:only-source-file-modules-get-the-instrumenting-loader", is_src(eng.as_u(s1, ol)) if ol is not None else z3.BoolVal(False))
        if ok:
            ld = s1.get(sp).attrs["loader"]
            made = s1.ghost.get("made_loader")
            good = isinstance(ld, Ref) and made is not None and ld.h == made.h
            eng.oblige(s1, "C11:find_spec:swaps-in-a-_JaxtypingLoader-carrying-this-finder's-checker", z3.BoolVal(good and s1.get(ld).attrs["typechecker"] is tc))
    collect(st.obl, ["C11"])

    # ================================================================== install_import_hook / ImportHookManager
    ih = mod.func("install_import_hook")
    fdesc("install_import_hook", ih)
    for mods_kind in ("str", "seq"):
        for tc_kind in ("str", "tuple"):
            eng = Engine(mod)
            st = State()
            st.ghost["meta_ops"] = []
            finder_found = Opaque("PathFinder")

            def loop_h(e, node, s0):
                # a SEARCH over sys.meta_path (directly or through enumerate), in install_import_hook or in a helper it calls:
                #   some element makes the body leave the loop (break / return): that element is the PathFinder found
                #   no element does: the loop is exhausted (its else-suite runs)
                if "meta_path" not in ast.unparse(node.iter):
                    raise Unsupported("install_import_hook: unrecognised loop")
                tgt = node.target
                if "PathFinder" not in ast.unparse(node):
                    # some OTHER scan of sys.meta_path (not the search for the PathFinder): zero iterations, or one with an arbitrary entry
                    # (e.g. a finder installed earlier); whatever that iteration does -- return, raise, fall through -- is kept
                    outs = [(s0.fork(None, "other-loop:skipped"), NORMAL)]
                    s1 = s0.clone()
                    if isinstance(tgt, ast.Name):
                        s1.env[tgt.id] = Opaque("some-existing-finder")
                    elif isinstance(tgt, ast.Tuple) and len(tgt.elts) == 2 and all(isinstance(x, ast.Name) for x in tgt.elts):
                        s1.env[tgt.elts[0].id] = Z("int", z3.FreshConst(INT, "j"))
                        s1.env[tgt.elts[1].id] = Opaque("some-existing-finder")
                    else:
                        raise Unsupported("install_import_hook: loop target")
                    s1.path.append("other-loop:one-iteration")
                    for s2, o2 in e.run(node.body, s1):
                        outs.append((s2, NORMAL if o2.kind in ("normal", "continue", "break") else o2))
                    return outs
                found = s0.clone()
                if isinstance(tgt, ast.Tuple) and len(tgt.elts) == 2 and all(isinstance(x, ast.Name) for x in tgt.elts):
                    found.env[tgt.elts[0].id] = Z("int", z3.FreshConst(INT, "i"))
                    found.env[tgt.elts[1].id] = finder_found
                elif isinstance(tgt, ast.Name):
                    found.env[tgt.id] = finder_found
                else:
                    raise Unsupported("install_import_hook: loop target")
                found.path.append("pathfinder:candidate")
                outs = []
                for s2, o2 in e.run(node.body, found):
                    if o2.kind == "break":
                        s2.path.append("pathfinder:found")
                        outs.append((s2, NORMAL))
                    elif o2.kind == "return" or (o2.kind == "raise" and getattr(o2.val, "origin", None) in ("explicit", "constructed")):
                        # (attribute reads on the entries of sys.meta_path -- isclass / __name__ / hasattr -- are taken not to raise)
                        s2.path.append("pathfinder:found" if o2.kind == "return" else "pathfinder:raised")
                        outs.append((s2, o2))
                    # normal / continue: this element was not the one -- covered by the exhausted path
                missing = s0.clone()
                missing.path.append("pathfinder:missing")
                if node.orelse:
                    outs.extend(e.run(node.orelse, missing))
                else:
                    outs.append((missing, NORMAL))
                return outs

            for fnode in [ih] + [b_ for b_ in mod.tree.body if isinstance(b_, ast.FunctionDef) and b_ is not ih]:
                for lp in [x for x in ast.walk(fnode) if isinstance(x, ast.For) and "meta_path" in ast.unparse(x.iter)]:
                    eng.loop_specs[id(lp)] = loop_h
            # an arbitrary entry of sys.meta_path may be an instance of anything (e.g. a finder installed by an earlier call)
            eng.method_models["__isinstance__"] = lambda e, s, v, c: z3.FreshConst(BOOL, "entry_is_instance") if isinstance(v, Opaque) and v.tag == "some-existing-finder" else None

            def m_insert(e, s, recv, args, kwargs, node):
                if isinstance(recv, Opaque) and recv.tag.endswith("meta_path"):
                    s1 = s.clone()
                    s1.ghost["meta_ops"] = s1.ghost["meta_ops"] + [("insert", args[0], args[1])]
                    return [(s1, NONE)]
                return None

            eng.method_models["insert"] = m_insert
            eng.method_models["append"] = lambda e, s, recv, args, kw, nd: ([(s.clone(), NONE)] if False else None)
            eng.method_models["join"] = lambda e, s, recv, args, kw, nd: [(s, Z("str", z3.String("joined_typechecker")))]

            def mk(clsname):
                def f(e, s, cls, args, kwargs, node):
                    s1 = s.clone()
                    # arguments in the order of the constructor's own parameters, whether they were passed by position or by keyword
                    args, kwargs = list(args), dict(kwargs)
                    try:
                        init = mod.func(clsname + ".__init__")
                        params = [a.arg for a in init.args.args[1:]]
                    except Exception:
                        params = []
                    for p_ in params[len(args):]:
                        if p_ in kwargs:
                            args.append(kwargs.pop(p_))
                        else:
                            break
                    attrs_ = {"args": Tup(args), "kwargs": Tup(list(kwargs.values()))}
                    if clsname == "Typechecker":
                        attrs_["get_hash"] = Fn("get_hash", model=lambda e_, s_, a_, k_, n_: [(s_, Z("str", z3.FreshConst(STR, "checker_hash")))])
                    return [(s1, s1.alloc(Obj(clsname, attrs_, tag=clsname)))]
                return f

            for cn in ("Typechecker", "_JaxtypingFinder", "ImportHookManager"):
                eng.method_models["new:" + cn] = mk(cn)
                eng.globals[cn] = Cls(cn)
            eng.globals["sys"] = Opaque("module:sys", attrs={"meta_path": Opaque("sys.meta_path")})
            mods_v = Z("str", z3.String("one_module")) if mods_kind == "str" else Opaque("modules-seq")
            tc_v = Z("str", z3.String("checker")) if tc_kind == "str" else Tup([Z("str", z3.String("a")), Z("str", z3.String("b"))])
            if mods_kind == "seq":
                st.pc.append(z3.Not(z3.Function("py_isinstance_str", U, BOOL)(mods_v.t)))
            p = [a.arg for a in ih.args.args]
            st.env = {p[0]: mods_v, p[1]: tc_v}
            st.path = [f"modules={mods_kind}", f"typechecker={tc_kind}"]
            for s1, o in eng.run(ih.body, st):
                paths += 1
                if o.kind == "raise":
                    eng.oblige(s1, "C11:install:raises-only-when-no-PathFinder-is-on-the-meta-path", z3.BoolVal("pathfinder:missing" in s1.path and o.val.classes() == {"RuntimeError"} and not s1.ghost["meta_ops"]))
                    continue
                ops = s1.ghost["meta_ops"]
                ok = o.kind == "return" and isinstance(o.val, Ref) and s1.get(o.val).cls == "ImportHookManager" and len(ops) == 1 and ops[0][0] == "insert"
                eng.oblige(s1, "C11:install:exactly-one-hook-is-inserted-and-a-manager-returned", z3.BoolVal(ok))
                if not ok:
                    continue
                idx, hook = ops[0][1], ops[0][2]
                eng.oblige(s1, "C11:install:hook-goes-to-the-front-of-sys.meta_path", (idx.t == 0) if isinstance(idx, Z) and idx.kind == "int" else z3.BoolVal(False))
                mgr = s1.get(o.val)
                eng.oblige(s1, "C11:install:the-manager-holds-the-installed-hook", z3.BoolVal(isinstance(hook, Ref) and len(mgr.attrs["args"].items) == 1 and mgr.attrs["args"].items[0] is hook or (isinstance(mgr.attrs["args"].items[0], Ref) and mgr.attrs["args"].items[0].h == hook.h)))
                h = s1.get(hook)
                hargs = h.attrs["args"].items
                good = h.cls == "_JaxtypingFinder" and len(hargs) == 3 and hargs[1] is finder_found and isinstance(hargs[2], Ref) and s1.get(hargs[2]).cls == "Typechecker"
                eng.oblige(s1, "C11:install:hook-is-a-finder-over(modules, PathFinder, Typechecker(typechecker))", z3.BoolVal(good))
                if good:
                    tca = s1.get(hargs[2]).attrs["args"].items
                    if tc_kind == "str":
                        eng.oblige(s1, "C11:install:checker-string-is-passed-through", z3.BoolVal(len(tca) == 1 and tca[0] is tc_v))
                    else:
                        eng.oblige(s1, "C11:install:tuple-checker-is-joined-with-dots", z3.BoolVal(len(tca) == 1 and isinstance(tca[0], Z) and str(tca[0].t) == "joined_typechecker"))
                    m0 = hargs[0]
                    if mods_kind == "str":
                        lst = s1.get(m0) if isinstance(m0, Ref) else None
                        eng.oblige(s1, "C11:install:a-single-name-is-wrapped-into-a-list(not-iterated-char-by-char)", z3.BoolVal(isinstance(lst, ListObj) and len(lst.items) == 1 and lst.items[0] is mods_v))
                    else:
                        eng.oblige(s1, "C11:install:a-sequence-of-names-is-passed-through", z3.BoolVal(m0 is mods_v))
            for ob_ in st.obl:
                if "hook-goes-to-the-front" in ob_["clause"] or "exactly-one-hook-is-inserted" in ob_["clause"]:
                    # C18 too: with several hooks alive, which finder claims a module (hence which checker instruments it and which cache file is read / written)
                    # is decided by the position of the newest hook and by every install owning its own finder
                    ob_["serves"] = ["C11", "C18"]
            collect(st.obl, ["C11"])

    # `sys.meta_path.remove(self.hook)` (and `in` / `index` on that list) compares with ==: the removal clause below models it as removing the argument
    # itself, which is right exactly when a finder equals only itself -- the finder class keeps object's identity comparison
    fcls = mod.cls("_JaxtypingFinder")
    f_own = sorted(b_.name for b_ in fcls.body if isinstance(b_, (ast.FunctionDef, ast.AsyncFunctionDef))) + sorted(
        t_.id for b_ in fcls.body if isinstance(b_, (ast.Assign, ast.AnnAssign)) for t_ in (b_.targets if isinstance(b_, ast.Assign) else [b_.target]) if isinstance(t_, ast.Name))
    f_bases = [ast.unparse(b_) for b_ in fcls.bases]
    obligations.append({"clause": "C11:a-finder-equals-only-itself(identity-comparison-kept:-uninstall-removes-the-manager's-own-finder-among-several-hooks-on-the-same-names)",
                        "kind": "vc", "pc": [], "path": [], "serves": ["C11", "C10", "C18"],
                        "meta": {"defines": z3.StringVal(",".join(f_own)), "bases": z3.StringVal(",".join(f_bases)), "decorators": z3.StringVal(",".join(ast.unparse(d_) for d_ in fcls.decorator_list))},
                        "goal": z3.BoolVal(not ({"__eq__", "__ne__", "__hash__", "__getattribute__"} & set(f_own)) and f_bases == ["MetaPathFinder"] and not fcls.keywords and not fcls.decorator_list)})
    for meth in ("uninstall", "__exit__"):
        f = mod.func(f"ImportHookManager.{meth}")
        fdesc(f"ImportHookManager.{meth}", f)
        for present in (True, False):
            eng = Engine(mod)
            st = State()
            st.ghost["removed"] = []
            hook = Opaque("the-hook")

            def m_remove(e, s, recv, args, kwargs, node):
                if isinstance(recv, Opaque) and recv.tag.endswith("meta_path"):
                    s1 = s.clone()
                    s1.ghost["removed"] = s1.ghost["removed"] + [args[0]]
                    if present:
                        return [(s1, NONE)]
                    return [(s1, Raised(Exc("ValueError", origin="list.remove")))]
                return None

            eng.method_models["remove"] = m_remove
            eng.globals["sys"] = Opaque("module:sys", attrs={"meta_path": Opaque("sys.meta_path")})
            attrs = {"hook": hook}
            if meth == "__exit__":
                un = mod.func("ImportHookManager.uninstall")
                attrs["uninstall"] = Fn("uninstall", node=un, closure={})
            self_ref = st.alloc(Obj("ImportHookManager", attrs, tag="self"))
            if meth == "__exit__":
                # bound method: self passed explicitly by the inliner
                attrs["uninstall"] = Fn("uninstall", model=lambda e, s, a, kw, nd, _un=mod.func("ImportHookManager.uninstall"), _self=self_ref: [
                    (s2, NONE if o2.kind in ("normal", "return") else Raised(o2.val)) for s2, o2 in run_method(e, s, _un, _self)])
                st.put(self_ref, Obj("ImportHookManager", attrs, tag="self"))
            p = [a.arg for a in f.args.args]
            st.env = {p[0]: self_ref}
            for x in p[1:]:
                st.env[x] = Opaque(x)
            st.path = [meth, "hook-present" if present else "already-removed"]
            for s1, o in eng.run(f.body, st):
                paths += 1
                eng.oblige(s1, "C11:uninstall:removes-exactly-its-own-hook-and-never-raises(idempotent)", z3.BoolVal(o.kind in ("normal", "return") and len(s1.ghost["removed"]) == 1 and s1.ghost["removed"][0] is hook))
                # frame: nothing else is called or written -- in particular the checker registry Typechecker.lookup, which already-instrumented code
                # reads every time a nested def / local class is (re)defined, is never shrunk
                others = [str(x_.get("callee")) for x_ in s1.log if isinstance(x_, dict) and x_.get("callee") not in (None, "remove")] + [str(x_[0]) for x_ in s1.log if isinstance(x_, tuple) and x_]
                eng.oblige(s1, "C10:uninstall-touches-nothing-but-sys.meta_path(the-checker-registry-read-by-instrumented-code-is-never-shrunk)", z3.BoolVal(not others), calls=z3.StringVal(",".join(others)))
                s1.obl[-1]["serves"] = ["C10", "C11"]
                if meth == "__exit__":
                    falsy = o.kind == "normal" or isinstance(o.val, NoneV)
                    eng.oblige(s1, "C11:with-block-exit-uninstalls-for-every-exception-state-and-does-not-swallow", z3.BoolVal(falsy))
            collect(st.obl, ["C11"])

    # ================================================================== Typechecker
    ti = mod.func("Typechecker.__init__")
    fdesc("Typechecker.__init__", ti)
    for kind in ("str", "none", "other"):
        eng = Engine(mod)
        st = State()
        lookup = st.alloc(DictObj(STR, U, tag="Typechecker.lookup"))
        l0 = st.get(lookup)
        md5 = z3.Function("md5_hexdigest_utf8", STR, STR)
        tcs = z3.String("typechecker_string")
        eng.globals["Typechecker"] = Opaque("class:Typechecker", attrs={"lookup": lookup})

        def m_hexdigest(e, s, recv, args, kw, nd):
            return [(s, Z("str", md5(tcs)))] if isinstance(recv, Opaque) and recv.tag == "md5-object" else None

        def m_md5(e, s, recv, args, kw, nd):
            if isinstance(recv, Opaque) and recv.tag == "module:hashlib":
                e.oblige(s, "C11:Typechecker:hash-is-md5-of-the-utf8-checker-string", z3.BoolVal(len(args) == 1 and isinstance(args[0], Opaque) and args[0].tag == "encoded-checker"))
                return [(s, Opaque("md5-object"))]
            return None

        def m_encode(e, s, recv, args, kw, nd):
            if isinstance(recv, Z) and recv.kind == "str" and recv.t.eq(tcs):
                return [(s, Opaque("encoded-checker"))]
            return None

        TopModule = z3.Function("py_str_split_dot_1_head", STR, STR)  # typechecker.split(".", 1)[0]

        def m_split(e, s, recv, args, kw, nd):
            if isinstance(recv, Z) and recv.kind == "str" and recv.t.eq(tcs) and len(args) == 2 and isinstance(args[0], Z) and args[0].kind == "str" \
                    and z3.is_string_value(z3.simplify(args[0].t)) and z3.simplify(args[0].t).as_string() == "." and isinstance(args[1], Z) and args[1].kind == "int":
                return [(s, Tup([Z("str", TopModule(tcs)), Opaque("rest-of-the-dotted-path")], True))]
            return None

        eng.method_models.update({"hexdigest": m_hexdigest, "md5": m_md5, "encode": m_encode, "split": m_split})
        eng.globals["hashlib"] = Opaque("module:hashlib")
        made = Opaque("exec-defined-f")

        def m_exec(e, s, args, kw, nd):
            # exec(string_to_eval, {}, vars): defines `f` in vars; the source mentions the checker string (checked syntactically below)
            s1 = s.clone()
            src = args[0] if args else None
            want = z3.Concat(z3.StringVal("def f(x, *args, **kwargs):\n"), z3.StringVal("  import "), TopModule(tcs), z3.StringVal("\n"), z3.StringVal("  return "), tcs, z3.StringVal("(x, *args, **kwargs)"))
            e.oblige(s, "C11:Typechecker:generated-function-imports-the-checker's-top-module-and-applies-exactly-that-checker",
                     (src.t == want) if isinstance(src, Z) and src.kind == "str" else z3.BoolVal(False))
            if len(args) == 3 and isinstance(args[2], Ref):
                s1.put(args[2], Obj("dictlit", {"items": Tup([]), "f": made}))
            return [(s1, NONE)]

        eng.globals["exec"] = Fn("exec", model=m_exec)
        eng.method_models["__getitem__"] = lambda e, s, v, args, kw, nd: None
        self_ref = st.alloc(Obj("Typechecker", {}, tag="self"))
        p = [a.arg for a in ti.args.args]
        arg = {"str": Z("str", tcs), "none": NONE, "other": Opaque("not-a-str")}[kind]
        if kind == "other":
            st.pc.append(z3.Not(z3.Function("py_isinstance_str", U, BOOL)(arg.t)))
            st.pc.append(arg.t != z3.Const("PyNone", U))
        st.env = {p[0]: self_ref, p[1]: arg}
        st.path = [f"typechecker={kind}"]
        eng.method_models["__dictlit_get__"] = None

        def idx_hook(e, s, v, args, kw, nd):
            return None

        def on_store(e_, s_, cont_, key_, v_):
            if isinstance(cont_, Ref) and cont_.h == lookup.h:
                s_.ghost["stored_checker"] = v_

        eng.method_models["__on_dict_store__"] = on_store
        for s1, o in run_with_dictlit(eng, ti.body, st):
            paths += 1
            me = s1.get(self_ref)
            L = s1.get(lookup)
            if kind == "other":
                eng.oblige(s1, "C11:Typechecker:anything-but-str-or-None-is-TypeError", z3.BoolVal(o.kind == "raise" and o.val.classes() == {"TypeError"} and L is l0))
                continue
            ok = o.kind in ("normal", "return") and isinstance(me.attrs.get("hash"), Z)
            eng.oblige(s1, "C11:Typechecker:sets-its-hash", z3.BoolVal(ok))
            if not ok:
                continue
            h = me.attrs["hash"].t
            if kind == "none":
                eng.oblige(s1, "C11:Typechecker:None-maps-to-hash-0", h == z3.StringVal("0"))
                # the registered decorator is the identity CALLABLE `lambda x, *_, **__: x` (never None itself: jaxtyped(typechecker=None) is the old-style
                # wrapper, which binds the arguments, opens a context and does not look at a no_type_check mark on the wrapper)
                sv = s1.ghost.get("stored_checker")
                lam = sv.node if isinstance(sv, Fn) and isinstance(sv.node, ast.Lambda) else None
                ident = (lam is not None and len(lam.args.args) + len(lam.args.posonlyargs) >= 1 and isinstance(lam.body, ast.Name)
                         and lam.body.id == (lam.args.posonlyargs + lam.args.args)[0].arg and lam.args.vararg is not None and lam.args.kwarg is not None)
                eng.oblige(s1, "C19:Typechecker:None-registers-an-identity-decorator-callable(not-None-itself)", z3.BoolVal(bool(ident)))
                s1.obl[-1]["serves"] = ["C19", "C11", "C10"]
            else:
                eng.oblige(s1, "C11:Typechecker:hash-is-md5-of-the-checker-string", h == md5(tcs))
            eng.oblige(s1, "C11:Typechecker:lookup-gains-exactly-the-entry-for-its-own-hash", z3.And(L.d == z3.Store(l0.d, h, True), z3.Store(L.m, h, l0.m[h]) == z3.Store(l0.m, h, l0.m[h]) if False else L.d[h]))
            kk = z3.FreshConst(STR, "other_key")
            eng.oblige(s1, "C11:Typechecker:other-lookup-entries-untouched", z3.Implies(kk != h, z3.And(L.d[kk] == l0.d[kk], L.m[kk] == l0.m[kk])))
            if kind == "str":
                eng.oblige(s1, "C11:Typechecker:lookup-entry-is-the-function-defined-from-the-checker-string", L.m[h] == made.t)
        collect(st.obl, ["C11", "C18"])  # the hash is also the bytecode-cache tag: two different checker strings must never share it (C18)
    # get_ast mentions this instance's hash
    ga = mod.func("Typechecker.get_ast")
    fdesc("Typechecker.get_ast", ga)
    cached = any(isinstance(d, (ast.Name, ast.Attribute, ast.Call)) for d in ga.decorator_list)
    eng = Engine(mod)
    st = State()
    st.ghost["parsed"] = []
    hsh0 = z3.String("self_hash")
    DECO = Opaque("the-parsed-decorator-expression")

    def m_parse(e, s, args, kw, nd):
        s1 = s.clone()
        s1.ghost["parsed"] = s1.ghost["parsed"] + [args[0] if args else NONE]
        fdef = Opaque("parsed-def", attrs={"decorator_list": Tup([DECO], True)})
        return [(s1, Opaque("parsed-module", attrs={"body": Tup([fdef], True)}))]

    eng.globals["ast"] = Opaque("global:ast")
    eng.globals["ast.parse"] = Fn("ast.parse", model=m_parse)
    self_ga = st.alloc(Obj("Typechecker", {"hash": Z("str", hsh0)}, tag="self"))
    st.env = {ga.args.args[0].arg: self_ga}
    for s1, o in eng.run(ga.body, st):
        paths += 1
        pr = s1.ghost["parsed"]
        ok = o.kind == "return" and o.val is DECO and len(pr) == 1 and isinstance(pr[0], Z) and pr[0].kind == "str"
        want = z3.Concat(z3.StringVal("@jaxtyping.jaxtyped(typechecker=jaxtyping._import_hook.Typechecker.lookup['"), hsh0, z3.StringVal("'])\n"), z3.StringVal("def _():\n    ..."))
        eng.oblige(s1, "C11:get_ast:decorator-expression-looks-up-this-instance's-hash(fresh-parse-per-call,no-cache)", z3.And(pr[0].t == want, z3.BoolVal(not cached)) if ok else z3.BoolVal(False))
    collect(st.obl, ["C11", "C10"])

    # ================================================================== C18: cache name + patch extent
    oc = mod.func("_optimized_cache_from_source")
    fdesc("_optimized_cache_from_source", oc)
    eng = Engine(mod)
    st = State()
    hsh = z3.String("typechecker_hash")
    seen = {}

    def m_cfs(e, s, args, kwargs, node):
        seen["args"], seen["kwargs"] = list(args), dict(kwargs)
        return [(s, Opaque("cache-path"))]

    eng.globals["cache_from_source"] = Fn("cache_from_source", model=m_cfs)
    allp = [a.arg for a in oc.args.posonlyargs + oc.args.args]
    path_v, dbg_v = Opaque("path"), Opaque("debug_override")
    st.env = {allp[0]: Z("str", hsh), allp[1]: path_v, allp[2]: dbg_v}
    for s1, o in eng.run(oc.body, st):
        paths += 1
        opt = seen.get("kwargs", {}).get("optimization")
        ok = o.kind == "return" and isinstance(o.val, Opaque) and o.val.tag == "cache-path" and isinstance(opt, Z) and opt.kind == "str" and seen["args"] and seen["args"][0] is path_v
        eng.oblige(s1, "C18:cache-name-is-cache_from_source(path, optimization=tag)", z3.BoolVal(bool(ok)))
        if ok:
            eng.oblige(s1, "C18:tag-is-'jaxtyping9'+checker-hash", opt.t == z3.Concat(z3.StringVal("jaxtyping9"), hsh))
            h2 = z3.String("other_hash")
            eng.oblige(s1, "C18:tag-is-injective-in-the-checker-hash-and-never-empty", z3.And(z3.Length(opt.t) > 0, z3.Implies(z3.Concat(z3.StringVal("jaxtyping9"), h2) == opt.t, h2 == hsh)))
    collect(st.obl, ["C18"])
    # ---------------------------------------------------------------- the loader: get_code / source_to_code executed path by path
    ldr = mod.cls("_JaxtypingLoader")
    meths = {b.name: b for b in ldr.body if isinstance(b, ast.FunctionDef)}
    def patches_cfs(f):
        for w in ast.walk(f):
            if isinstance(w, ast.With) and any("patch" in ast.unparse(i.context_expr) and "cache_from_source" in ast.unparse(i.context_expr) for i in w.items):
                return True
            if isinstance(w, (ast.Assign, ast.AugAssign, ast.AnnAssign)):
                tg = w.targets if isinstance(w, ast.Assign) else [w.target]
                if any(isinstance(t, ast.Attribute) and t.attr == "cache_from_source" for t in tg):
                    return True
            if isinstance(w, ast.Call) and getattr(w.func, "id", getattr(w.func, "attr", "")) in ("setattr", "patch", "object") and "cache_from_source" in ast.unparse(w) and not isinstance(w.func, ast.Attribute):
                return True
        return False

    users = []
    for b_ in mod.tree.body:
        if isinstance(b_, ast.FunctionDef) and patches_cfs(b_):
            users.append(b_.name)
        elif isinstance(b_, ast.ClassDef):
            users += [f"{b_.name}.{c.name}" for c in b_.body if isinstance(c, ast.FunctionDef) and patches_cfs(c)]
    obligations.append({"clause": "C18:cache_from_source-is-patched-only-inside-this-loader's-get_code(never-while-a-module-body-runs)", "kind": "vc", "pc": [], "path": [], "meta": {"patch_users": z3.StringVal(",".join(users))}, "serves": ["C18"],
                        "goal": z3.BoolVal(users == ["_JaxtypingLoader.get_code"])})
    # everything importlib calls on a source loader (private helper methods of our own are not part of that protocol)
    LOADER_PROTOCOL = {"__init__", "source_to_code", "get_code", "path_stats", "path_mtime", "get_data", "set_data", "_cache_bytecode", "get_filename", "get_source", "is_package", "create_module",
                       "exec_module", "load_module", "get_resource_reader", "contents", "is_resource", "open_resource", "resource_path", "__eq__", "__hash__", "__getattr__", "__getattribute__"}
    obligations.append({"clause": "C18:the-loader-overrides-only-__init__,-source_to_code-and-get_code(SourceFileLoader's-cache-validation:-path_stats,-get_data,-set_data,-_cache_bytecode-is-inherited-unchanged)",
                        "kind": "vc", "pc": [], "path": [], "serves": ["C18"], "meta": {"defines": z3.StringVal(",".join(sorted(meths)))},
                        "goal": z3.BoolVal(not (set(meths) & LOADER_PROTOCOL - {"__init__", "source_to_code", "get_code"}) and [ast.unparse(b) for b in ldr.bases] == ["SourceFileLoader"]
                                           and not any(isinstance(b, (ast.Assign, ast.AnnAssign)) for b in ldr.body))})
    gc = meths.get("get_code")
    if gc is None:
        raise NotFound("_JaxtypingLoader.get_code")
    fdesc("_JaxtypingLoader.get_code", gc)
    from ..stmts import run as run_stmts

    def loader_engine():
        e = Engine(mod)
        s = State()
        s.ghost.update(patched=None, window_calls=[])
        tcobj = s.alloc(Obj("Typechecker", {"get_hash": Fn("get_hash", model=lambda e_, s_, a, kw, nd: [(s_, Z("str", hsh))])}, tag="self._typechecker"))
        selfr = s.alloc(Obj("_JaxtypingLoader", {"_typechecker": tcobj}, tag="self"))

        def m_patch(e_, s_, args, kw, nd):
            s1 = s_.clone()
            return [(s1, s1.alloc(Obj("patch-cm", {"target": args[0] if args else NONE, "new": args[1] if len(args) > 1 else kw.get("new", NONE)}, tag="patch-cm")))]

        def m_partial(e_, s_, recv, args, kw, nd):
            s1 = s_.clone()
            return [(s1, s1.alloc(Obj("partial", {"func": args[0] if args else NONE, "args": Tup(list(args[1:])), "kwargs": Tup(list(kw.values()))}, tag="partial")))]

        def m_with(e_, s_, node):
            if len(node.items) != 1 or node.items[0].optional_vars is not None:
                raise Unsupported("with statement in the loader")
            outs = []
            for s1, cm in e_.ev(node.items[0].context_expr, s_):
                if is_raised(cm):
                    outs.append((s1, Outcome("raise", cm.exc)))
                    continue
                if not (isinstance(cm, Ref) and isinstance(s1.get(cm), Obj) and s1.get(cm).cls == "patch-cm"):
                    raise Unsupported("with statement over something else than unittest.mock.patch in the loader")
                if s1.ghost.get("patched") is not None:
                    raise Unsupported("nested patches in the loader")
                s2 = s1.clone()
                s2.ghost["patched"] = cm
                for s3, o3 in run_stmts(e_, node.body, s2):
                    s3.ghost["patched"] = None  # patch.__exit__ restores the attribute on every exit
                    outs.append((s3, o3))
            return outs

        def m_get_code(e_, s_, recv, args, kw, nd):
            if not (isinstance(recv, Opaque) and recv.tag == "super()"):
                return None
            ok, bad = s_.clone(), s_.clone()
            res = Opaque("code-from-SourceFileLoader.get_code")
            ok.ghost["window_calls"] = ok.ghost["window_calls"] + [(tuple(args), dict(kw), ok.ghost.get("patched"), res)]
            bad.ghost["window_calls"] = bad.ghost["window_calls"] + [(tuple(args), dict(kw), bad.ghost.get("patched"), None)]
            return [(ok, res), (bad, Raised(Exc(frozenset(ANY_EXC), origin="super().get_code")))]

        # a patch written by hand (`mod.cache_from_source = new ... mod.cache_from_source = original`) drives the same ghost flag
        ORIGINAL = Opaque("the-original-cache_from_source")
        bext_aliases = {"global:" + (al.asname or al.name.split(".")[0]) for b in mod.tree.body if isinstance(b, ast.Import) for al in b.names if al.name == "importlib._bootstrap_external" and al.asname}

        def is_bext(recv):
            return isinstance(recv, Opaque) and (recv.tag in bext_aliases or recv.tag.endswith("_bootstrap_external"))

        def a_cfs(e_, s_, recv, nd):
            if not is_bext(recv):
                return None
            cm = s_.ghost.get("patched")
            return [(s_, ORIGINAL if cm is None else s_.get(cm).attrs["new"])]

        def m_setattr(e_, s_, recv, attr, v, nd):
            if attr != "cache_from_source" or not is_bext(recv):
                return None
            s1 = s_.clone()
            if v is ORIGINAL:
                s1.ghost["patched"] = None
            else:
                s1.ghost["patched"] = s1.alloc(Obj("patch-cm", {"target": Z("str", z3.StringVal("importlib._bootstrap_external.cache_from_source")), "new": v}, tag="patch-by-hand"))
            return [(s1, NORMAL)]

        e.attr_models["cache_from_source"] = a_cfs
        e.method_models["__setattr__"] = m_setattr
        e.globals["patch"] = Fn("patch", model=m_patch)
        e.globals["super"] = Fn("super", model=lambda e_, s_, a, kw, nd: [(s_, Opaque("super()"))])
        e.globals["ft"] = Opaque("global:ft")
        e.globals["functools"] = Opaque("global:functools")
        e.method_models["partial"] = m_partial
        e.method_models["__with__"] = m_with
        e.method_models["get_code"] = m_get_code
        return e, s, selfr, tcobj

    eng, st, self_ref, tcobj = loader_engine()
    fullname = Opaque("fullname")
    p = [a.arg for a in gc.args.args]
    st.env = {p[0]: self_ref, p[1]: fullname}
    CLAUSE_GC = "C18:get_code:every-result-is-super().get_code(fullname)-run-while-cache_from_source-is-patched-with-this-loader's-checker-hash"
    for s1, o in eng.run(gc.body, st):
        paths += 1
        calls = s1.ghost["window_calls"]
        eng.oblige(s1, "C18:get_code:the-patch-is-undone-on-exit", z3.BoolVal(s1.ghost.get("patched") is None))
        if o.kind == "raise":
            # only the wrapped get_code's own exception may leave (ImportError, SyntaxError of the module, ...)
            eng.oblige(s1, "C18:get_code:raises-only-what-super().get_code-raised", z3.BoolVal(getattr(o.val, "origin", None) == "super().get_code"))
            continue
        good = o.kind == "return" and len(calls) == 1 and calls[0][3] is not None and o.val is calls[0][3] and len(calls[0][0]) == 1 and calls[0][0][0] is fullname and not calls[0][1]
        cm = calls[0][2] if calls else None
        tagged = None
        if good and cm is not None:
            cmo = s1.get(cm)
            tgt, new = cmo.attrs["target"], cmo.attrs["new"]
            if isinstance(tgt, Z) and tgt.kind == "str" and isinstance(new, Ref) and isinstance(s1.get(new), Obj) and s1.get(new).cls == "partial":
                po = s1.get(new)
                f0, a0 = po.attrs["func"], po.attrs["args"].items
                if isinstance(f0, Fn) and f0.node is oc and len(a0) == 1 and isinstance(a0[0], Z) and a0[0].kind == "str" and not po.attrs["kwargs"].items:
                    tagged = z3.And(tgt.t == z3.StringVal("importlib._bootstrap_external.cache_from_source"), a0[0].t == hsh)
        eng.oblige(s1, CLAUSE_GC, tagged if tagged is not None else z3.BoolVal(False))
    collect(st.obl, ["C18", "C11", "C10"])  # C10: a module whose stale plain bytecode is loaded has not been transformed at all
    gh = mod.func("Typechecker.get_hash")
    obligations.append({"clause": "C18:get_hash-returns-the-hash-set-at-construction", "kind": "vc", "pc": [], "path": [], "meta": {}, "serves": ["C18", "C11"],
                        "goal": z3.BoolVal(len(gh.body) == 1 and isinstance(gh.body[0], ast.Return) and ast.unparse(gh.body[0].value) == "self.hash")})
    # source_to_code: decode -> parse -> transform with this loader's checker -> fix_missing_locations -> compile the transformed tree, on EVERY path
    stc = meths.get("source_to_code")
    if stc is None:
        raise NotFound("_JaxtypingLoader.source_to_code")
    fdesc("_JaxtypingLoader.source_to_code", stc)
    eng, st, self_ref, tcobj = loader_engine()
    st.ghost.update(fixed=[], decoded=[])
    ONLY_AST = Opaque("ast.PyCF_ONLY_AST")

    def m_compile(e_, s_, args, kw, nd):
        s1 = s_.clone()
        r = s1.alloc(Obj("compile-result", {"src": args[0] if args else NONE, "path": args[1] if len(args) > 1 else NONE, "mode": args[2] if len(args) > 2 else NONE,
                                            "flags": args[3] if len(args) > 3 else kw.get("flags", NONE), "optimize": kw.get("optimize", NONE),
                                            "dont_inherit": args[4] if len(args) > 4 else kw.get("dont_inherit", NONE)}, tag="compile-result"))
        s2 = s_.clone()
        return [(s1, r), (s2, Raised(Exc(frozenset({"SyntaxError", "ValueError"}), origin="compile")))]

    def m_decode(e_, s_, args, kw, nd):
        s1 = s_.clone()
        r = Opaque("decoded-source")
        s1.ghost["decoded"] = s1.ghost["decoded"] + [(tuple(args), r)]
        return [(s1, r), (s_.clone(), Raised(Exc(frozenset({"SyntaxError", "UnicodeDecodeError"}), origin="decode_source")))]

    def m_new_tr(e_, s_, cls, args, kw, nd):
        s1 = s_.clone()

        def m_visit(e2, s2, a, kw2, nd2):
            s3 = s2.clone()
            return [(s3, s3.alloc(Obj("transformed", {"of": a[0] if a else NONE, "by": kw.get("typechecker", NONE)}, tag="transformed")))]

        return [(s1, s1.alloc(Obj("JaxtypingTransformer", {"visit": Fn("visit", model=m_visit)}, tag="transformer")))]

    def m_fix(e_, s_, args, kw, nd):
        s1 = s_.clone()
        s1.ghost["fixed"] = s1.ghost["fixed"] + [args[0] if args else NONE]
        return [(s1, args[0] if args else NONE)]

    eng.globals.update({"compile": Fn("compile", model=m_compile), "decode_source": Fn("decode_source", model=m_decode), "JaxtypingTransformer": Cls("JaxtypingTransformer"),
                        "ast": Opaque("global:ast", attrs={"PyCF_ONLY_AST": ONLY_AST}), "ast.fix_missing_locations": Fn("fix_missing_locations", model=m_fix)})
    eng.method_models["new:JaxtypingTransformer"] = m_new_tr
    data_v, path_v2, opt_v = Opaque("data"), Opaque("path"), Opaque("_optimize")
    names = [a.arg for a in stc.args.args] + [a.arg for a in stc.args.kwonlyargs]
    st.env = dict(zip(names, [self_ref, data_v, path_v2, opt_v]))
    for s1, o in eng.run(stc.body, st):
        paths += 1
        if o.kind == "raise":
            eng.oblige(s1, "C18:source_to_code:raises-only-what-decoding-or-compiling-raised", z3.BoolVal(getattr(o.val, "origin", None) in ("compile", "decode_source")))
            continue
        dec_ok = tr_ok = False
        if o.kind == "return" and isinstance(o.val, Ref) and isinstance(s1.get(o.val), Obj) and s1.get(o.val).cls == "compile-result":
            code = s1.get(o.val)
            tr = code.attrs["src"]
            if isinstance(tr, Ref) and isinstance(s1.get(tr), Obj) and s1.get(tr).cls == "transformed":
                tro = s1.get(tr)
                tree = tro.attrs["of"]
                if isinstance(tree, Ref) and isinstance(s1.get(tree), Obj) and s1.get(tree).cls == "compile-result":
                    to = s1.get(tree)
                    decs = s1.ghost["decoded"]
                    dec_ok = len(decs) == 1 and len(decs[0][0]) == 1 and decs[0][0][0] is data_v and to.attrs["src"] is decs[0][1]
                    tr_ok = (to.attrs["flags"] is ONLY_AST and to.attrs["path"] is path_v2 and code.attrs["path"] is path_v2 and isinstance(code.attrs["flags"], NoneV)
                             and to.attrs["optimize"] is opt_v and code.attrs["optimize"] is opt_v and isinstance(tro.attrs["by"], Ref) and tro.attrs["by"].h == tcobj.h
                             and any(isinstance(f_, Ref) and f_.h == tr.h for f_ in s1.ghost["fixed"])
                             and all(isinstance(x.attrs["mode"], Z) and z3.is_string_value(x.attrs["mode"].t) and x.attrs["mode"].t.as_string() == "exec" for x in (to, code)))
        di_ok = False
        if dec_ok or tr_ok:
            di_ok = all(isinstance(x.attrs["dont_inherit"], Z) and x.attrs["dont_inherit"].kind == "bool" and z3.is_true(z3.simplify(x.attrs["dont_inherit"].t)) for x in (to, code))
        eng.oblige(s1, "C10:both-compile-steps-pass-dont_inherit=True(the-hook-module's-own-__future__-flags-never-leak-into-the-hooked-module)", z3.BoolVal(bool(di_ok)))
        eng.oblige(s1, "C10:source_to_code-decodes-the-file-with-importlib's-decode_source(BOM-and-coding-cookie-aware)", z3.BoolVal(bool(dec_ok)))
        eng.oblige(s1, "C18:source_to_code-compiles-the-tree-transformed-with-this-loader's-checker", z3.BoolVal(bool(tr_ok)))
    collect(st.obl, ["C18", "C10", "C11", "C19"])
    # the patched window performs no import of its own: every function of this file reachable from get_code / source_to_code
    every = {}
    for b in mod.tree.body:
        if isinstance(b, ast.FunctionDef):
            every.setdefault(b.name, []).append((b.name, b))
        elif isinstance(b, ast.ClassDef):
            for c in b.body:
                if isinstance(c, ast.FunctionDef):
                    every.setdefault(c.name, []).append((f"{b.name}.{c.name}", c))
    classes = {b.name: b for b in mod.tree.body if isinstance(b, ast.ClassDef)}
    work, window = [("_JaxtypingLoader.get_code", gc), ("_JaxtypingLoader.source_to_code", stc)], {}
    while work:
        q, f = work.pop()
        if q in window:
            continue
        window[q] = f
        for c in ast.walk(f):
            if not isinstance(c, ast.Call):
                continue
            nm = c.func.id if isinstance(c.func, ast.Name) else c.func.attr if isinstance(c.func, ast.Attribute) else None
            if nm is None:
                continue
            cands = list(every.get(nm, []))
            if nm in classes:
                cands += [(f"{nm}.{m_.name}", m_) for m_ in classes[nm].body if isinstance(m_, ast.FunctionDef) and m_.name == "__init__"]
            if nm in ("visit", "generic_visit"):
                cands += [x for k_, v_ in every.items() if k_.startswith("visit_") for x in v_]
            if nm == "get_code" and isinstance(c.func, ast.Attribute) and ast.unparse(c.func.value) == "super()":
                cands = []  # the wrapped SourceFileLoader.get_code, not this file's
            work.extend(cands)
    IMPORTING = {"__import__", "import_module", "reload", "exec", "eval", "exec_module", "load_module", "run_module", "run_path", "find_spec", "import_hook", "install_import_hook"}
    offenders = []
    for q, f in sorted(window.items()):
        for c in ast.walk(f):
            if isinstance(c, (ast.Import, ast.ImportFrom)):
                offenders.append(f"{q}:{c.lineno}:import-statement")
            elif isinstance(c, ast.Call):
                nm = c.func.id if isinstance(c.func, ast.Name) else c.func.attr if isinstance(c.func, ast.Attribute) else None
                if nm in IMPORTING:
                    offenders.append(f"{q}:{c.lineno}:{nm}()")
    obligations.append({"clause": "C18:no-import-is-performed-by-this-file's-code-while-cache_from_source-is-patched(frame-of-the-patched-window)", "kind": "vc", "pc": [], "path": [], "serves": ["C18"],
                        "meta": {"window": z3.StringVal(",".join(sorted(window))), "offenders": z3.StringVal(",".join(offenders))}, "goal": z3.BoolVal(not offenders)})

    # ================================================================== C10: the transformer
    tr = mod.cls("JaxtypingTransformer")
    visit_names = sorted(b.name for b in tr.body if isinstance(b, ast.FunctionDef) and b.name.startswith("visit_"))
    obligations.append({"clause": "C10:only-Module-ClassDef-FunctionDef-have-visitors(async-defs-and-lambdas-are-only-traversed)", "kind": "vc", "pc": [], "path": [], "meta": {"visitors": z3.StringVal(",".join(visit_names))}, "serves": ["C10"],
                        "goal": z3.BoolVal(visit_names == ["visit_ClassDef", "visit_FunctionDef", "visit_Module"] and any(ast.unparse(b) == "ast.NodeVisitor" for b in tr.bases))})

    def run_visit(meth, where):
        nonlocal paths
        f = mod.func(f"JaxtypingTransformer.{meth}")
        fdesc(f"JaxtypingTransformer.{meth}", f)
        eng = Engine(mod)
        st = State()
        st.ghost.update(list_ops=[], calls=[])
        D = Opaque("fresh-decorator")
        parents = st.alloc(ListObj([], ("parents", z3.Bool("parents_nonempty"), z3.Const("parents_id", U)), "self._parents"))
        p0 = st.get(parents)
        deco = st.alloc(ListObj([], ("decos", z3.Bool("decos_nonempty"), z3.Const("decos_id", U)), "node.decorator_list"))
        d0 = st.get(deco)

        def m_get_ast(e, s, recv, args, kw, nd):
            s1 = s.clone()
            s1.ghost["calls"] = s1.ghost["calls"] + [("get_ast",)]
            return [(s1, D)]

        def m_copy_location(e, s, recv, args, kw, nd):
            s1 = s.clone()
            s1.ghost["calls"] = s1.ghost["calls"] + [("copy_location", args[0], args[1])]
            return [(s1, args[0])]

        def m_generic_visit(e, s, recv, args, kw, nd):
            s1 = s.clone()
            s1.ghost["calls"] = s1.ghost["calls"] + [("generic_visit", args[0], len(s1.get(parents).items))]
            return [(s1, NONE)]

        def m_list_insert(e, s, ref, o, args):
            s1 = s.clone()
            s1.ghost["list_ops"] = s1.ghost["list_ops"] + [("insert", ref.h, args[0], args[1])]
            return [(s1, NONE)]

        eng.method_models.update({"get_ast": m_get_ast, "copy_location": m_copy_location, "generic_visit": m_generic_visit, "list.insert": m_list_insert})
        eng.globals["ast"] = Opaque("module:ast")
        node = st.alloc(Obj("ast-node", {"decorator_list": deco}, tag="node"))
        n0 = st.get(node)
        self_ref = st.alloc(Obj("JaxtypingTransformer", {"_typechecker": Opaque("typechecker"), "_parents": parents}, tag="self"))
        sf0 = st.get(self_ref)
        p = [a.arg for a in f.args.args]
        st.env = {p[0]: self_ref, p[1]: node}
        for s1, o in eng.run(f.body, st):
            paths += 1
            calls, lops = s1.ghost["calls"], s1.ghost["list_ops"]
            d1 = s1.get(deco)
            if where == "append":
                placed = d1.lower is d0.lower and d1.items == [D] and not lops
                eng.oblige(s1, "C10:def-decorator-is-appended-innermost(decorator_list' == old ++ [D])", z3.BoolVal(placed))
            else:
                placed = d1 is d0 and len(lops) == 1 and lops[0][1] == deco.h and isinstance(lops[0][2], Z) and z3.is_int_value(z3.simplify(lops[0][2].t)) and z3.simplify(lops[0][2].t).as_long() == 0 and lops[0][3] is D
                eng.oblige(s1, "C10:class-decorator-is-inserted-outermost(decorator_list' == [D] ++ old)", z3.BoolVal(placed))
            eng.oblige(s1, "C10:decorator-is-a-fresh-get_ast()-expression-per-node", z3.BoolVal(calls.count(("get_ast",)) == 1))
            cl = [c for c in calls if c[0] == "copy_location"]
            eng.oblige(s1, "C10:decorator-takes-its-location-from-the-node(copy_location(decorator, node))", z3.BoolVal(len(cl) == 1 and cl[0][1] is D and isinstance(cl[0][2], Ref) and cl[0][2].h == node.h))
            gv = [c for c in calls if c[0] == "generic_visit"]
            eng.oblige(s1, "C10:children-are-visited-exactly-once", z3.BoolVal(len(gv) == 1 and isinstance(gv[0][1], Ref) and gv[0][1].h == node.h))
            eng.oblige(s1, "C10:visitor-returns-the-node-and-writes-no-other-field", z3.BoolVal(o.kind == "return" and isinstance(o.val, Ref) and o.val.h == node.h and s1.get(node) is n0 and s1.get(self_ref) is sf0))
            pz = s1.get(parents)
            eng.oblige(s1, "C10:parents-stack-balanced", z3.BoolVal(pz.items == [] and pz.lower is p0.lower))
        collect(st.obl, ["C10", "C17"])  # innermost placement = the annotations see what the function itself sees under jit/vmap (C17)

    run_visit("visit_FunctionDef", "append")
    run_visit("visit_ClassDef", "insert0")

    # visit_Module: the import goes after the maximal leading run of __future__ imports / constant-expression statements
    vm = mod.func("JaxtypingTransformer.visit_Module")
    fdesc("JaxtypingTransformer.visit_Module", vm)
    eng = Engine(mod)
    st = State()
    st.ghost.update(list_ops=[], calls=[])
    body = z3.Const("module_body", z3.SeqSort(U))
    nb = z3.Length(body)
    IsImportFrom = z3.Function("py_isinstance_ImportFrom", U, BOOL)
    IsExpr = z3.Function("py_isinstance_Expr", U, BOOL)
    IsConst = z3.Function("py_isinstance_Constant", U, BOOL)
    ModuleOf = z3.Function("ast_attr_module", U, U)
    ValueOf = z3.Function("ast_attr_value", U, U)
    FUT = z3.Function("py_box_str", STR, U)(z3.StringVal("__future__"))
    # skippable(child) per the statement: a __future__ import or a constant-expression statement (docstring)
    StrEqFuture = z3.Function("py_str_eq_future", U, BOOL)
    Skip = lambda c: z3.Or(z3.And(IsImportFrom(c), StrEqFuture(ModuleOf(c))), z3.And(IsExpr(c), IsConst(ValueOf(c))))
    AllSkip = z3.Function("AllSkippable", INT, BOOL)
    unf = lambda jj: AllSkip(jj + 1) == z3.And(AllSkip(jj), Skip(body[jj]))
    eng.seq_elem["seq:u"] = "u"
    body_ref = Opaque("node.body", z3.Const("node_body_list", U))

    def isinst(e, s, v, c):
        if isinstance(v, Z) and v.kind == "u" and isinstance(c, Opaque):
            nm = c.tag.split(".")[-1]
            return {"ImportFrom": IsImportFrom, "Expr": IsExpr, "Constant": IsConst}.get(nm, z3.Function("py_isinstance_" + nm, U, BOOL))(v.t)
        if isinstance(v, Opaque) and isinstance(c, Opaque):
            nm = c.tag.split(".")[-1]
            return {"ImportFrom": IsImportFrom, "Expr": IsExpr, "Constant": IsConst}.get(nm, z3.Function("py_isinstance_" + nm, U, BOOL))(v.t)
        return None

    eng.method_models["__isinstance__"] = isinst
    eng.attr_models["module"] = lambda e, s, recv, nd: [(s, Opaque("child.module", ModuleOf(e.as_u(s, recv))))]
    eng.attr_models["value"] = lambda e, s, recv, nd: [(s, Opaque("child.value", ValueOf(e.as_u(s, recv))))]

    def eq_hook(e, s, a, b):
        for x, y in ((a, b), (b, a)):
            if isinstance(x, Opaque) and x.tag == "child.module" and isinstance(y, Z) and y.kind == "str" and z3.is_string_value(y.t) and y.t.as_string() == "__future__":
                return StrEqFuture(x.t)
        return None

    eng.method_models["__eq__"] = eq_hook
    eng.globals["ast"] = Opaque("module:ast", attrs={"ImportFrom": Opaque("ast.ImportFrom"), "Expr": Opaque("ast.Expr"), "Constant": Opaque("ast.Constant")})
    new_import = Opaque("new-import-node")

    def m_ast_ctor(e, s, recv, args, kw, nd):
        return None

    def call_ast(e, s, recv, name_, args, kwargs):
        return None

    eng.method_models["Import"] = lambda e, s, recv, args, kw, nd: ([(s_note(s, kw), new_import)] if isinstance(recv, Opaque) and recv.tag == "module:ast" else None)
    # ast.alias(name, asname): positional or by keyword
    eng.method_models["alias"] = lambda e, s, recv, args, kw, nd: ([(s, Opaque("alias", attrs={"args": Tup(list(args) + ([kw["name"]] if not args and "name" in kw else [])), "asname": (args[1] if len(args) > 1 else kw.get("asname", NONE))}))] if isinstance(recv, Opaque) and recv.tag == "module:ast" else None)

    def s_note(s, kw):
        s1 = s.clone()
        nm = kw.get("names")
        good = False
        if isinstance(nm, Ref):
            items = s1.get(nm).items
            good = len(items) == 1 and isinstance(items[0], Opaque) and items[0].tag == "alias" and len(items[0].attrs["args"].items) >= 1 and str(getattr(items[0].attrs["args"].items[0], "t", "")) == '"jaxtyping"' and isinstance(items[0].attrs.get("asname"), NoneV)
        s1.ghost["import_ok"] = good
        return s1

    def m_insert(e, s, recv, args, kw, nd):
        if isinstance(recv, Opaque) and recv.tag == "node.body":
            s1 = s.clone()
            s1.ghost["list_ops"] = s1.ghost["list_ops"] + [("insert", args[0], args[1])]
            return [(s1, NONE)]
        return None

    eng.method_models["insert"] = m_insert
    eng.method_models["generic_visit"] = lambda e, s, recv, args, kw, nd: [(note_call(s, ("generic_visit", args[0])), NONE)]

    def note_call(s, c):
        s1 = s.clone()
        s1.ghost["calls"] = s1.ghost["calls"] + [c]
        return s1

    parents = st.alloc(ListObj([], ("parents", z3.Bool("parents_nonempty"), z3.Const("parents_id", U)), "self._parents"))
    node = st.alloc(Obj("ast.Module", {"body": body_ref}, tag="node"))
    n0 = st.get(node)
    self_ref = st.alloc(Obj("JaxtypingTransformer", {"_typechecker": Opaque("typechecker"), "_parents": parents}, tag="self"))
    p = [a.arg for a in vm.args.args]
    st.env = {p[0]: self_ref, p[1]: node}
    kk = z3.Int("k")
    # the search loop may live in visit_Module itself or in a private helper it calls (module-level function or method of the transformer): found by role
    tr_methods = {b_.name: b_ for b_ in mod.cls("JaxtypingTransformer").body if isinstance(b_, ast.FunctionDef)}
    mod_fns = {b_.name: b_ for b_ in mod.tree.body if isinstance(b_, ast.FunctionDef)}
    called = []
    for c_ in ast.walk(vm):
        if isinstance(c_, ast.Call):
            if isinstance(c_.func, ast.Name) and c_.func.id in mod_fns:
                called.append(mod_fns[c_.func.id])
            elif isinstance(c_.func, ast.Attribute) and isinstance(c_.func.value, ast.Name) and c_.func.value.id == p[0] and c_.func.attr in tr_methods and c_.func.attr not in ("generic_visit", "visit"):
                called.append(tr_methods[c_.func.attr])
    mloops = [x for f_ in [vm] + called for x in ast.walk(f_) if isinstance(x, ast.For)]
    if len(mloops) != 1:
        raise Unsupported("visit_Module: expected one loop")

    def mod_loop(e, nd, s0):
        outs = []
        it_ok = isinstance(nd.iter, ast.Call) and getattr(nd.iter.func, "id", "") == "enumerate" and len(nd.iter.args) == 1 and not nd.iter.keywords and isinstance(nd.target, ast.Tuple) and len(nd.target.elts) == 2
        if it_ok:
            (s_it, itv), = e.ev(nd.iter.args[0], s0)
            it_ok = isinstance(itv, Opaque) and itv.tag == "node.body"
        if not it_ok:
            raise Unsupported("visit_Module loop does not enumerate node.body")
        iv, cv = nd.target.elts[0].id, nd.target.elts[1].id
        s1 = s0.clone()
        s1.pc += [0 <= kk, kk < nb, AllSkip(0), AllSkip(kk), unf(kk)]
        s1.env[iv] = Z("int", kk)
        s1.env[cv] = Opaque("child", body[kk])
        s1.path.append("module-loop:iter")
        for s2, o2 in e.run(nd.body, s1):
            if o2.kind in ("normal", "continue"):
                e.oblige(s2, "C10:module:statements-skipped-are-__future__-imports-or-constant-expressions", z3.And(AllSkip(kk + 1), z3.BoolVal(not s2.ghost["list_ops"])))
            elif o2.kind in ("break", "return"):
                # the search stops at statement k: it must be the first one that is not skippable (whatever is then done with k is judged at the end of visit_Module)
                e.oblige(s2, "C10:module:import-goes-right-after-the-leading-__future__/docstring-run", z3.And(AllSkip(kk), z3.Not(Skip(body[kk]))))
                s2.path.append("module-loop:found")
                outs.append((s2, NORMAL if o2.kind == "break" else o2))
            else:
                outs.append((s2, o2))
        s3 = s0.clone()
        s3.pc += [AllSkip(0), AllSkip(nb)]
        s3.path.append("module-loop:whole-body-skippable")
        if nd.orelse:
            outs.extend(e.run(nd.orelse, s3))
        else:
            outs.append((s3, NORMAL))
        return outs

    eng.loop_specs[id(mloops[0])] = mod_loop
    for s1, o in eng.run(vm.body, st):
        paths += 1
        ops = s1.ghost["list_ops"]
        found = "module-loop:found" in s1.path
        eng.oblige(s1, "C10:module:at-most-one-insertion-and-none-when-the-whole-body-is-skippable", z3.BoolVal(len(ops) == (0 if "module-loop:whole-body-skippable" in s1.path else 1) and (found or "module-loop:whole-body-skippable" in s1.path)))
        if found:
            ok = len(ops) == 1 and isinstance(ops[0][1], Z) and ops[0][1].kind == "int" and ops[0][2] is new_import and s1.ghost.get("import_ok")
            eng.oblige(s1, "C10:module:exactly-one-`import jaxtyping`-is-inserted", z3.BoolVal(bool(ok)))
            if ok:
                eng.oblige(s1, "C10:module:import-goes-right-after-the-leading-__future__/docstring-run", ops[0][1].t == kk)
        gv = [c for c in s1.ghost["calls"] if c[0] == "generic_visit"]
        eng.oblige(s1, "C10:module:children-visited-once-node-returned-nothing-else-written", z3.BoolVal(len(gv) == 1 and o.kind == "return" and isinstance(o.val, Ref) and o.val.h == node.h and s1.get(node) is n0 and s1.get(parents).items == []))
    collect(st.obl, ["C10"])
    obligations.append({"clause": "canary:module-loop-assumptions-satisfiable", "kind": "canary", "pc": [0 <= kk, kk < nb, AllSkip(kk), unf(kk), z3.Not(AllSkip(kk + 1))], "goal": z3.BoolVal(False), "path": [], "meta": {}})

    return {"unit": NAME, "functions": functions, "obligations": obligations, "paths": paths, "stats": {},
            "assumptions": [
                "importlib meta-path protocol, sys.modules caching, SourceLoader.get_code's cache protocol and cache_from_source naming (T5; bounded stand-ins b11, b18)",
                "hashlib.md5 is a function of the string (treated as injective on the checker strings in use)",
                "ast.NodeVisitor dispatch / generic_visit, ast.copy_location (copies the four location attributes onto its first argument), ast.fix_missing_locations (fills, never overwrites), compile() accepts the result (T5/T3; corpus stand-in b10)",
                "syntactic obligations (patch extent, generated source text) are decided by pattern checks on the AST of the current source",
            ]}


def run_method(eng, st, fnode, self_ref):
    s1 = st.clone()
    saved = s1.env
    s1.env = {fnode.args.args[0].arg: self_ref}
    outs = []
    for s2, o2 in eng.run(fnode.body, s1):
        s2.env = saved
        outs.append((s2, o2))
    return outs


def run_with_dictlit(eng, body, st):
    """Typechecker.__init__ reads `vars['f']` from the dict that exec() filled: route dictlit item reads."""
    from .. import engine as E

    orig_index = eng.index

    def index(st_, v, k, node=None):
        if isinstance(v, Ref):
            o = st_.get(v)
            if isinstance(o, Obj) and o.cls == "dictlit" and isinstance(k, Z) and z3.is_string_value(k.t) and k.t.as_string() in o.attrs:
                return [(st_, o.attrs[k.t.as_string()])]
        return orig_index(st_, v, k, node)

    eng.index = index
    try:
        return eng.run(body, st)
    finally:
        eng.index = orig_index
