"""Unit: jaxtyping._storage.shape_str -- the "current values" section of a TypeCheckError (C13).

Statement (C13): the message "lists as current values exactly the axis and structure bindings in force ... none missing".
The three memos are ordered mappings; abstract view of a mapping D: Len(D) >= 0, Key(D, i), Val(D, i).
Contract proved, for all memo contents (every loop / comprehension cut at an arbitrary index i):

  the two comprehensions keep, per item, exactly (name -> size) resp. (name -> shape, the SECOND component of the stored pair)
     under the one condition "name does not start with the hidden-label prefix" -- nothing renamed, nothing else dropped
  each of the three loops appends, per item of its mapping, exactly one piece  name + "=" + format(value)
  the result is "\\n".join of:  [axis header, all pieces of the filtered single-axis memo, all pieces of the filtered multi-axis
     memo]  iff  one of the two filtered memos is non-empty,  then  [structure header, all pieces of the structure memo]  iff
     it is non-empty  -- in this order, nothing else, from the memos of the tuple it was given (4th component unused)

Assumed (T1/T3): a dict comprehension / a for loop over d.items() visits every item once, in order; str.join concatenates.
"""
from __future__ import annotations

import ast

import z3

from ..engine import Engine, Raised, is_raised
from ..source import Module
from ..values import BOOL, INT, NONE, NORMAL, STR, U, Fn, ListObj, Obj, Opaque, Outcome, Ref, State, Tup, Unsupported, Z

NAME = "shape_str"
REL = "jaxtyping/_storage.py"
HIDDEN = "~~delete~~"


def build(repo=None):
    mod = Module(REL, repo)
    fn = mod.func("shape_str")
    paths = 0
    i = z3.Int("i")
    KeyF = z3.Function("ItemKey", U, INT, STR)
    ValF = z3.Function("ItemValue", U, INT, U)
    ValI = z3.Function("ItemSize", U, INT, INT)
    Second = z3.Function("second_of_pair", U, U)
    Fmt = z3.Function("py_format", U, STR)
    Len = z3.Function("py_len", U, INT)
    eng = Engine(mod)
    st = State()
    sigma, nu, pi, argm = (Opaque(f"memo:{t}", z3.Const(f"memo_{t}", U)) for t in ("sigma", "nu", "pi", "A"))
    p = [a.arg for a in fn.args.args]
    if len(p) != 1:
        raise Unsupported("shape_str: one parameter expected")
    st.env = {p[0]: Tup([sigma, nu, pi, argm])}
    st.ghost.update(filtered={}, joined=None)
    views = {}  # id of z3 const -> description

    def is_map(v):
        return isinstance(v, Opaque) and (v.tag.startswith("memo:") or v.tag.startswith("filtered:"))

    def m_items(e, s, recv, args, kw, nd):
        if is_map(recv) and not args:
            return [(s, Opaque("items-of:" + recv.tag, recv.t))]
        return None

    eng.method_models["items"] = m_items

    def item_value(src):
        """the value of item i of mapping `src` as the code sees it"""
        if src.tag == "memo:sigma" or src.tag == "filtered:memo:sigma":
            return Z("int", ValI(src.t, i))
        if src.tag == "memo:nu":
            return Tup([Opaque("pair.first"), Opaque("pair.second", Second(ValF(src.t, i)))])
        return Opaque("item-value", ValF(src.t, i))

    def bind_target(s, tgt, key, val):
        if isinstance(tgt, ast.Tuple) and len(tgt.elts) == 2 and isinstance(tgt.elts[0], ast.Name):
            s.env[tgt.elts[0].id] = key
            t1 = tgt.elts[1]
            if isinstance(t1, ast.Name):
                s.env[t1.id] = val
                return
            if isinstance(t1, ast.Tuple) and isinstance(val, Opaque) and len(t1.elts) == 2:
                # a value of unknown layout destructured as a pair (e.g. after the memos were mixed up): its components are still functions of it
                val = Tup([Opaque("pair.first", z3.Function("first_of_pair", U, U)(val.t)), Opaque("pair.second", Second(val.t))])
            if isinstance(t1, ast.Tuple) and isinstance(val, Tup) and len(t1.elts) == len(val.items) and all(isinstance(x, ast.Name) for x in t1.elts):
                for x, v in zip(t1.elts, val.items):
                    s.env[x.id] = v
                return
        raise Unsupported("shape_str: loop / comprehension target shape")

    def fmt_term(e, s, v):
        if isinstance(v, Z) and v.kind == "int":
            return e.int_to_str(v.t)
        if isinstance(v, Z) and v.kind == "str":
            return v.t
        return Fmt(e.as_u(s, v))

    def dictcomp(e, s, node):
        if len(node.generators) != 1 or node.generators[0].is_async:
            raise Unsupported("shape_str: comprehension shape")
        g = node.generators[0]
        outs = []
        for s1, it in e.ev(g.iter, s):
            if not (isinstance(it, Opaque) and it.tag.startswith("items-of:memo:")):
                raise Unsupported("shape_str: a comprehension iterates over something else than <memo>.items()")
            src = {"memo:sigma": sigma, "memo:nu": nu, "memo:pi": pi}[it.tag[len("items-of:"):]]
            s2 = s1.clone()
            s2.pc += [0 <= i, i < Len(src.t)]
            s2.path.append(f"comprehension-over-{src.tag}:item-i")
            key = Z("str", KeyF(src.t, i))
            val = item_value(src)
            saved = dict(s2.env)
            bind_target(s2, g.target, key, val)
            conds = z3.BoolVal(True)
            s3 = s2
            for c in g.ifs:
                rs = e.ev(c, s3)
                if len(rs) != 1:
                    raise Unsupported("shape_str: forking comprehension condition")
                s3, cv = rs[0]
                conds = z3.And(conds, e.truth(s3, cv))
            (s4, kv), = e.ev(node.key, s3)
            (s5, vv), = e.ev(node.value, s4)
            want_val = (vv.t == ValI(src.t, i)) if (src is sigma and isinstance(vv, Z) and vv.kind == "int") else \
                (e.as_u(s5, vv) == Second(ValF(src.t, i))) if (src is nu and isinstance(vv, Opaque)) else \
                (e.as_u(s5, vv) == ValF(src.t, i)) if (src is pi and isinstance(vv, Opaque)) else z3.BoolVal(False)
            e.oblige(s5, f"C13:shape_str:comprehension-keeps-each-name-with-its-own-{'size' if src is sigma else 'shape(second-component)' if src is nu else 'value'}",
                     z3.And(kv.t == KeyF(src.t, i) if isinstance(kv, Z) and kv.kind == "str" else z3.BoolVal(False), want_val))
            e.oblige(s5, "C13:shape_str:comprehension-drops-exactly-the-hidden-label-names", conds == z3.Not(z3.PrefixOf(z3.StringVal(HIDDEN), KeyF(src.t, i))))
            # the result: a new ordered mapping = the kept items, in order
            s6 = s1.clone()
            s6.obl = s5.obl
            fd = Opaque("filtered:" + src.tag, z3.Const("filtered_" + src.tag.split(":")[1], U))
            s6.ghost["filtered"] = dict(s6.ghost["filtered"])
            s6.ghost["filtered"][fd.tag] = src.tag
            s6.env = saved
            outs.append((s6, fd))
        return outs

    eng.method_models["__dictcomp__"] = dictcomp

    def m_dictmerge(e, s, vals, node):
        # {**A, **B} over (filtered) memos: a mapping whose size is unknown (names may overlap) but which is empty exactly when every source is
        if not vals or not all(isinstance(v, Opaque) and (v.tag.startswith("filtered:memo:") or v.tag.startswith("memo:")) for v in vals):
            return None
        s1 = s.clone()
        mg = Opaque("merged:" + "+".join(v.tag for v in vals), z3.FreshConst(U, "merged"))
        nonempty = z3.Or(*[Len(v.t) > 0 for v in vals])
        s1.pc += [Len(mg.t) >= 0, (Len(mg.t) > 0) == nonempty, e._opaque_truth(mg.t) == nonempty]
        return [(s1, mg)]

    eng.method_models["__dictmerge__"] = m_dictmerge

    def m_values(e, s, recv, args, kw, nd):
        if isinstance(recv, Opaque) and recv.tag.startswith("merged:") and not args and not kw:
            return [(s, Opaque("values-of:" + recv.tag, recv.t))]
        return None

    eng.method_models["values"] = m_values

    def m_any(e, s, arg, node):
        # any(<values of a merged mapping>): some value is truthy -- which implies, but is not implied by, the mapping being non-empty
        if isinstance(arg, Opaque) and arg.tag.startswith("values-of:merged:"):
            some_truthy = z3.FreshConst(BOOL, "some_value_truthy")
            return [(s.fork(z3.Implies(some_truthy, Len(arg.t) > 0)), Z("bool", some_truthy))]
        return None

    eng.method_models["any()"] = m_any
    eng.method_models["__format__"] = lambda e, s, v: Fmt(e.as_u(s, v)) if isinstance(v, Opaque) else None

    def find_pieces(s):
        cands = [(k_, v) for k_, v in s.env.items() if isinstance(v, Ref) and isinstance(s.get(v), ListObj)]
        if len(cands) != 1:
            raise Unsupported("shape_str: expected exactly one list of pieces")
        return cands[0][1]

    def loop_handler(e, node, s0):
        outs = []
        for s1, it in e.ev(node.iter, s0):
            if not (isinstance(it, Opaque) and it.tag.startswith("items-of:")):
                raise Unsupported("shape_str: a loop iterates over something else than <mapping>.items()")
            tag = it.tag[len("items-of:"):]
            src = Opaque(tag, it.t)
            lst = find_pieces(s1)
            before = list(s1.get(lst).items)
            s2 = s1.clone()
            s2.pc += [0 <= i, i < Len(src.t)]
            s2.path.append(f"loop-over-{tag}:item-i")
            s2.put(lst, ListObj([], lower=("earlier-pieces", z3.BoolVal(True), z3.FreshConst(U, "prefix"))))
            key = Z("str", KeyF(src.t, i))
            val = Z("int", ValI(src.t, i)) if tag == "filtered:memo:sigma" else Opaque("item-value", ValF(src.t, i)) if tag != "memo:nu" else item_value(src)
            bind_target(s2, node.target, key, val)
            for s3, o3 in e.run(node.body, s2):
                if o3.kind not in ("normal", "continue"):
                    e.oblige(s3, f"C13:shape_str:loop-body-completes[{o3.kind}]", z3.BoolVal(False))
                    continue
                items = s3.get(lst).items
                ok = len(items) == 1 and isinstance(items[0], Z) and items[0].kind == "str"
                want = z3.Concat(KeyF(src.t, i), z3.StringVal("="), fmt_term(e, s3, val)) if not isinstance(val, Tup) else None
                e.oblige(s3, "C13:shape_str:each-binding-yields-exactly-one-piece-name=value", (items[0].t == want) if ok and want is not None else z3.BoolVal(False), item=i)
            s9 = s1.clone()
            s9.put(lst, ListObj(before + [Opaque("all-pieces-of:" + tag)]))
            s9.path.append(f"loop-over-{tag}:done")
            if node.orelse:
                outs.extend(e.run(node.orelse, s9))
            else:
                outs.append((s9, NORMAL))
        return outs

    for lp in [x for x in ast.walk(fn) if isinstance(x, ast.For)]:
        eng.loop_specs[id(lp)] = loop_handler

    def comp_pieces(e, s, g, closure):
        """<piece> for name, value in <mapping>.items()  (generator or list comprehension): the same contract as the loop, cut at an arbitrary item;
        returns [(state, value standing for all the pieces of that mapping, in order)]"""
        if len(g.generators) != 1 or g.generators[0].ifs or g.generators[0].is_async:
            raise Unsupported("shape_str: generator / comprehension shape")
        gen = g.generators[0]
        outs = []
        s_c = s.clone()
        s_c.env = dict(closure if closure is not None else s.env)
        for s1, it in e.ev(gen.iter, s_c):
            if not (isinstance(it, Opaque) and it.tag.startswith("items-of:")):
                raise Unsupported("shape_str: a generator / comprehension iterates over something else than <mapping>.items()")
            tag = it.tag[len("items-of:"):]
            src = Opaque(tag, it.t)
            s2 = s1.clone()
            s2.pc += [0 <= i, i < Len(src.t)]
            s2.path.append(f"extend-over-{tag}:item-i")
            key = Z("str", KeyF(src.t, i))
            val = Z("int", ValI(src.t, i)) if tag == "filtered:memo:sigma" else Opaque("item-value", ValF(src.t, i)) if tag != "memo:nu" else item_value(src)
            s2.env = dict(s2.env)
            bind_target(s2, gen.target, key, val)
            for s3, pv in e.ev(g.elt, s2):
                want = z3.Concat(KeyF(src.t, i), z3.StringVal("="), fmt_term(e, s3, val)) if not isinstance(val, Tup) else None
                e.oblige(s3, "C13:shape_str:each-binding-yields-exactly-one-piece-name=value", (pv.t == want) if isinstance(pv, Z) and pv.kind == "str" and want is not None else z3.BoolVal(False), item=i)
            s9 = s.clone()
            s9.path.append(f"extend-over-{tag}:done")
            outs.append((s9, Opaque("all-pieces-of:" + tag)))
        return outs

    def m_extend(e, s, recv, args, kw, nd):
        # pieces.extend(<generator>) / pieces.extend([<comprehension>])
        if not (isinstance(recv, Ref) and isinstance(s.get(recv), ListObj) and len(args) == 1):
            return None
        if isinstance(args[0], Fn) and isinstance(args[0].node, ast.GeneratorExp):
            rs = comp_pieces(e, s, args[0].node, args[0].closure)
        elif isinstance(args[0], Opaque) and args[0].tag.startswith("all-pieces-of:"):
            rs = [(s, args[0])]
        else:
            return None
        outs = []
        for s1, allp in rs:
            s9 = s1.clone()
            s9.put(recv, ListObj(list(s1.get(recv).items) + [allp]))
            outs.append((s9, NONE))
        return outs

    eng.method_models["extend"] = m_extend
    eng.method_models["__listcomp__"] = lambda e, s, node: comp_pieces(e, s, node, None)

    def m_iadd(e, s, a, b, node):
        # pieces += [<comprehension>]  (list.__iadd__ extends in place)
        if isinstance(a, Ref) and isinstance(s.get(a), ListObj) and isinstance(b, Opaque) and b.tag.startswith("all-pieces-of:"):
            s9 = s.clone()
            s9.put(a, ListObj(list(s.get(a).items) + [b]))
            return [(s9, NORMAL)]
        return None

    eng.method_models["__iadd__"] = m_iadd

    def m_join(e, s, recv, args, kw, nd):
        if isinstance(recv, Z) and recv.kind == "str" and len(args) == 1 and isinstance(args[0], Ref) and isinstance(s.get(args[0]), ListObj):
            s1 = s.clone()
            r = Z("str", z3.FreshConst(STR, "joined"), tag="fstr")
            s1.ghost["joined"] = (recv, list(s1.get(args[0]).items), r)
            return [(s1, r)]
        return None

    eng.method_models["join"] = m_join
    Fs, Fn_, = z3.Const("filtered_sigma", U), z3.Const("filtered_nu", U)
    for s1, o in eng.run(fn.body, st):
        paths += 1
        jn = s1.ghost.get("joined")
        good = o.kind == "return" and jn is not None and o.val is jn[2] and z3.is_string_value(z3.simplify(jn[0].t)) and z3.simplify(jn[0].t).as_string() == "\n"
        eng.oblige(s1, "C13:shape_str:returns-the-newline-join-of-the-pieces", z3.BoolVal(bool(good)))
        if not good:
            continue
        items = jn[1]
        tags = [("H" if isinstance(x, Z) and x.kind == "str" and z3.is_string_value(z3.simplify(x.t)) else x.tag if isinstance(x, Opaque) else "?") for x in items]
        filt = s1.ghost["filtered"]
        eng.oblige(s1, "C13:shape_str:the-two-axis-memos-are-filtered-from-the-tuple's-first-two-components", z3.BoolVal(filt == {"filtered:memo:sigma": "memo:sigma", "filtered:memo:nu": "memo:nu"}))
        axis = ["H", "all-pieces-of:filtered:memo:sigma", "all-pieces-of:filtered:memo:nu"]
        struct = ["H", "all-pieces-of:memo:pi"]
        has_axis = tags[:3] == axis
        rest = tags[3:] if has_axis else tags
        has_struct = rest == struct
        shape_ok = has_axis and rest in ([], struct) or (not has_axis and rest in ([], struct))
        eng.oblige(s1, "C13:shape_str:sections-are-[axis-header, single-axis-pieces, multi-axis-pieces][structure-header, structure-pieces]-in-this-order-and-nothing-else", z3.BoolVal(bool(shape_ok)), layout=z3.StringVal(",".join(tags)))
        if not shape_ok:
            continue
        some_axis = z3.Or(Len(Fs) > 0, Len(Fn_) > 0)
        eng.oblige(s1, "C13:shape_str:axis-section-present-iff-some-visible-axis-binding-exists(none-missing)", some_axis if has_axis else z3.Not(some_axis))
        eng.oblige(s1, "C13:shape_str:structure-section-present-iff-some-structure-binding-exists(none-missing)", (Len(pi.t) > 0) if has_struct else z3.Not(Len(pi.t) > 0))
        if has_axis and has_struct:
            h1, h2 = z3.simplify(items[0].t).as_string(), z3.simplify(items[3].t).as_string()
            eng.oblige(s1, "C13:shape_str:the-two-headers-say-which-kind-of-binding-follows", z3.BoolVal("axis" in h1 and "structure" in h2 and "structure" not in h1))
    out = []
    for ob in st.obl:
        ob = dict(ob)
        ob.setdefault("kind", "vc")
        ob["serves"] = ["C13"]
        ob["function"] = "shape_str"
        out.append(ob)
    out.append({"clause": "canary:shape_str-item-assumptions-satisfiable", "kind": "canary", "pc": [0 <= i, i < Len(Fs), Len(Fn_) == 0, Len(pi.t) > 0], "goal": z3.BoolVal(False), "path": [], "meta": {}})
    return {"unit": NAME, "functions": [{"qualname": "jaxtyping._storage.shape_str", "sha256_16": mod.sha(fn), "lines": [fn.lineno, fn.end_lineno]}],
            "obligations": out, "paths": paths, "stats": {},
            "assumptions": [
                "a dict comprehension / for loop over d.items() visits every item exactly once, in insertion order; the comprehension result holds the kept items in that order (keys of one dict are distinct)",
                "str.join concatenates its pieces with the separator; format() of a value inside an f-string is a function of the value (py_format), int sizes print in decimal",
                "len(mapping) is its number of items",
            ]}
