"""Models of the Python built-ins that occur in the functions under contract."""
from __future__ import annotations

import z3

from .engine import Raised, is_raised, mkbool, mkint, mkstr
from .values import (
    BOOL,
    INT,
    NONE,
    STR,
    U,
    Cls,
    DictObj,
    Exc,
    Fn,
    ListObj,
    NoneV,
    Obj,
    Opaque,
    Ref,
    Tup,
    Unsupported,
    Z,
    exc_isinstance,
)


def b_len(eng, st, args, kwargs, node):
    (v,) = args
    if isinstance(v, Z) and (v.kind == "str" or v.kind.startswith("seq:")):
        return [(st, Z("int", z3.Length(v.t)))]
    if isinstance(v, Tup):
        return [(st, mkint(len(v.items)))]
    if isinstance(v, Ref):
        o = st.get(v)
        if isinstance(o, ListObj):
            if o.lower is None:
                return [(st, mkint(len(o.items)))]
            n = z3.Function("py_lower_len", U, INT)(o.lower[2])
            s1 = st.fork(z3.And(n >= 0, (n > 0) == o.lower[1]))
            return [(s1, Z("int", n + len(o.items)))]
        if isinstance(o, DictObj):
            f = z3.Function(f"py_dict_len_{o.ksort}_{o.vsort}".replace(" ", "_").replace("(", "").replace(")", ""), z3.ArraySort(o.ksort, BOOL), INT)
            n = f(o.d)
            k = z3.FreshConst(o.ksort, "k")
            s1 = st.fork(z3.And(n >= 0, z3.Implies(n == 0, o.d == z3.K(o.ksort, z3.BoolVal(False))), z3.Implies(o.d == z3.K(o.ksort, z3.BoolVal(False)), n == 0)))
            return [(s1, Z("int", n))]
    if isinstance(v, Opaque):
        n = z3.Function("py_len", U, INT)(v.t)
        return [(st.fork(n >= 0), Z("int", n))]
    raise Unsupported(f"len({v})")


def b_type(eng, st, args, kwargs, node):
    (v,) = args
    return [(st, Z("typeof", v))]


def b_isinstance(eng, st, args, kwargs, node):
    v, c = args
    return [(st, Z("bool", isinstance_term(eng, st, v, c)))]


def isinstance_term(eng, st, v, c):
    if isinstance(c, Fn) and c.name in ("type", "object"):
        c = Cls(c.name)
    if isinstance(c, Tup):
        return z3.Or(*[isinstance_term(eng, st, v, x) for x in c.items])
    m = eng.method_models.get("__isinstance__")
    if m is not None:
        r = m(eng, st, v, c)
        if r is not None:
            return r
    if isinstance(c, Cls):
        if isinstance(v, Z) and v.kind in eng.datatypes:
            dt = eng.datatypes[v.kind]
            return dt.is_cls(v.t, c.name) if c.name in dt.classes else z3.BoolVal(False)
        if isinstance(v, Z) and v.kind in ("str", "int", "bool"):
            ok = {"str": {"str"}, "int": {"int"}, "bool": {"bool", "int"}}[v.kind]
            return z3.BoolVal(c.name in ok)
        if isinstance(v, Z) and v.kind.startswith("seq:"):
            return z3.BoolVal(c.name in ("tuple", "Sequence"))
        if isinstance(v, Tup):
            return z3.BoolVal(c.name in (("list",) if v.is_list else ("tuple",)) or c.name == "Sequence")
        if isinstance(v, NoneV):
            return z3.BoolVal(False)
        if isinstance(v, Exc):
            yes = [x for x in v.classes() if exc_isinstance(x, c.name)]
            if len(yes) == len(v.classes()):
                return z3.BoolVal(True)
            if not yes:
                return z3.BoolVal(False)
            return z3.Const(f"exc{v.id}_isinstance_{c.name}", BOOL)
        if isinstance(v, Ref):
            o = st.get(v)
            if isinstance(o, Obj):
                return z3.BoolVal(o.cls == c.name or c.name in getattr(o, "bases", ()))
            if isinstance(o, DictObj):
                return z3.BoolVal(c.name == "dict")
            if isinstance(o, ListObj):
                return z3.BoolVal(c.name == "list")
        if isinstance(v, Opaque) or (isinstance(v, Z) and v.kind == "u"):
            return z3.Function("py_isinstance_" + c.name, U, BOOL)(eng.as_u(st, v))
        if isinstance(v, (Cls, Fn)):
            return z3.Function("py_isinstance_" + c.name, U, BOOL)(eng.as_u(st, v))
    if isinstance(c, Opaque) or (isinstance(c, Z) and c.kind == "u"):
        return z3.Function("py_isinstance", U, U, BOOL)(eng.as_u(st, v), eng.as_u(st, c))
    raise Unsupported(f"isinstance({v}, {c})")


def b_hasattr(eng, st, args, kwargs, node):
    v, name = args
    if not (isinstance(name, Z) and z3.is_string_value(name.t)):
        raise Unsupported("hasattr with non-constant name")
    a = name.t.as_string()
    if isinstance(v, Ref):
        o = st.get(v)
        if isinstance(o, Obj):
            if a in o.attrs:
                return [(st, mkbool(True))]
            if a in o.absent or not o.open:
                return [(st, mkbool(False))]
    if isinstance(v, Opaque) or (isinstance(v, Z) and v.kind == "u"):
        if isinstance(v, Opaque) and v.attrs and a in v.attrs:
            return [(st, mkbool(True))]
        f = z3.Function("py_hasattr_" + a, U, BOOL)
        return [(st, Z("bool", f(eng.as_u(st, v))))]
    if isinstance(v, (Fn, Cls)):
        f = z3.Function("py_hasattr_" + a, U, BOOL)
        return [(st, Z("bool", f(eng.as_u(st, v))))]
    raise Unsupported(f"hasattr({v}, {a})")


def b_getattr(eng, st, args, kwargs, node):
    v, name = args[0], args[1]
    if not (isinstance(name, Z) and z3.is_string_value(name.t)):
        raise Unsupported("getattr with non-constant name")
    a = name.t.as_string()
    if len(args) == 3:
        # with default: never raises AttributeError
        if isinstance(v, Ref) and isinstance(st.get(v), Obj):
            o = st.get(v)
            if a in o.attrs:
                return [(st, o.attrs[a])]
            if a in o.absent or not o.open:
                return [(st, args[2])]
        outs = []
        has = z3.Function("py_hasattr_" + a, U, BOOL)(eng.as_u(st, v))
        dflt = args[2]
        if isinstance(dflt, (Z, NoneV)) and (isinstance(dflt, NoneV) or dflt.kind == "bool") and isinstance(v, (Opaque, Fn, Cls)):
            # result = attr if present else default: one opaque value whose truthiness is the conditional (no fork)
            base = v if isinstance(v, Opaque) else Opaque(getattr(v, "name", "x"), eng.as_u(st, v))
            attr_v = eng._memo_attr.setdefault((base.t.get_id(), a), Opaque(f"{base.tag}.{a}"))
            r = Opaque(f"getattr({base.tag},{a},default)")
            eng._memo_truth[r.t.get_id()] = z3.If(has, eng.truth(st, attr_v), eng.truth(st, dflt))
            return [(st, r)]
        for s1, h in eng.branch(st, has):
            if h:
                rs = [(s2, r) for s2, r in eng.getattr(s1, v if not isinstance(v, Fn) else Opaque(v.name, eng.as_u(s1, v)), a) if not is_raised(r)]
                outs.extend(rs)
            else:
                outs.append((s1, args[2]))
        return outs
    return eng.getattr(st, v, a, node)


def b_str(eng, st, args, kwargs, node):
    (v,) = args
    if isinstance(v, Z) and v.kind == "str":
        return [(st, v)]
    if isinstance(v, Z) and v.kind == "int":
        return [(st, Z("str", eng.int_to_str(v.t)))]
    f = z3.Function("py_str", U, STR)
    return [(st, Z("str", f(eng.as_u(st, v)), tag="fstr"))]


def b_repr(eng, st, args, kwargs, node):
    (v,) = args
    f = z3.Function("py_repr", U, STR)
    return [(st, Z("str", f(eng.as_u(st, v)), tag="fstr"))]


def b_bool(eng, st, args, kwargs, node):
    (v,) = args
    return [(st, Z("bool", eng.truth(st, v)))]


def b_int(eng, st, args, kwargs, node):
    (v,) = args
    if isinstance(v, Z) and v.kind == "int" and v.tag == "number":
        # a number of unknown type (the value of a user expression, possibly a float): int() truncates -- not the identity
        return [(st, Z("int", z3.Function("py_int_of_number", INT, INT)(v.t)))]
    if isinstance(v, Z) and v.kind == "int":
        return [(st, v)]
    if isinstance(v, Z) and v.kind == "str":
        ok = z3.Function("py_int_ok", STR, BOOL)(v.t)
        val = z3.Function("py_int_val", STR, INT)(v.t)
        outs = []
        for s1, b in eng.branch(st, ok):
            outs.append((s1, Z("int", val) if b else Raised(Exc("ValueError", origin="int()"))))
        return outs
    raise Unsupported(f"int({v})")


def b_tuple(eng, st, args, kwargs, node):
    if not args:
        return [(st, Tup([]))]
    (v,) = args
    if isinstance(v, Tup):
        return [(st, Tup(v.items))]
    if isinstance(v, Z) and v.kind.startswith("seq:"):
        return [(st, v)]
    if isinstance(v, Ref):
        o = st.get(v)
        if isinstance(o, ListObj) and o.lower is None:
            return [(st, Tup(o.items))]
    m = eng.method_models.get("tuple()")
    if m:
        r = m(eng, st, v)
        if r is not None:
            return r
    if isinstance(v, Opaque):
        return [(st, Opaque("tuple()"))]
    raise Unsupported(f"tuple({v})")


def b_list(eng, st, args, kwargs, node):
    s1 = st.clone()
    if not args:
        return [(s1, s1.alloc(ListObj([])))]
    (v,) = args
    if isinstance(v, Tup):
        return [(s1, s1.alloc(ListObj(v.items)))]
    if isinstance(v, Ref) and isinstance(st.get(v), ListObj):
        o = st.get(v)
        return [(s1, s1.alloc(ListObj(o.items, o.lower)))]
    # a list built from something we do not track element-wise: an opaque fresh list
    return [(st, Opaque("list()"))]


def b_dict(eng, st, args, kwargs, node):
    s1 = st.clone()
    if not args and not kwargs:
        return [(s1, s1.alloc(eng.new_empty_dict(s1, node)))]
    if len(args) == 1 and not kwargs and isinstance(args[0], Ref) and isinstance(st.get(args[0]), DictObj):
        o = st.get(args[0])
        return [(s1, s1.alloc(DictObj(o.ksort, o.vsort, o.m, o.d, "copy")))]  # dict(d): a fresh dict with the same contents
    return [(st, Opaque("dict()", attrs={k: v for k, v in kwargs.items()}))]


def b_print(eng, st, args, kwargs, node):
    return [(st, NONE)]


def b_zip(eng, st, args, kwargs, node):
    return [(st, Opaque("zip", attrs={"__zip__": Tup(args)}))]


def b_enumerate(eng, st, args, kwargs, node):
    return [(st, Opaque("enumerate", attrs={"__enumerate__": args[0]}))]


def _static_quantifier(eng, st, g, is_any):
    """any(...) / all(...) over a generator expression whose iterable is statically known (a tuple / *args of known length):
    expanded element by element, left to right, with short-circuit forks."""
    import ast as _ast

    from .stmts import iter_items

    if not (isinstance(g, Fn) and isinstance(g.node, _ast.GeneratorExp) and len(g.node.generators) == 1 and isinstance(g.node.generators[0].target, _ast.Name) and not g.node.generators[0].is_async):
        return None
    gen = g.node.generators[0]
    s0 = st.clone()
    saved = s0.env
    s0.env = dict(g.closure or saved)
    rs = eng.ev(gen.iter, s0)
    if len(rs) != 1 or is_raised(rs[0][1]):
        return None
    items = iter_items(eng, rs[0][0], rs[0][1])
    if items is None:
        return None
    live = [(rs[0][0], None)]
    done = []
    for it in items:
        nxt = []
        for s1, _ in live:
            s1 = s1.clone()
            s1.env = dict(s1.env)
            s1.env[gen.target.id] = it
            cur = [(s1, True)]
            for c in gen.ifs:
                cur2 = []
                for s2, keep in cur:
                    for s3, cv in eng.ev(c, s2):
                        if is_raised(cv):
                            done.append((s3, cv))
                            continue
                        for s4, b in eng.branch(s3, eng.truth(s3, cv)):
                            cur2.append((s4, keep and b))
                cur = cur2
            for s2, keep in cur:
                if not keep:
                    nxt.append((s2, None))
                    continue
                for s3, v in eng.ev(g.node.elt, s2):
                    if is_raised(v):
                        done.append((s3, v))
                        continue
                    for s4, b in eng.branch(s3, eng.truth(s3, v)):
                        if b == is_any:
                            done.append((s4, mkbool(is_any)))  # short circuit
                        else:
                            nxt.append((s4, None))
        live = nxt
    outs = []
    for s1, v in done + [(s, mkbool(not is_any)) for s, _ in live]:
        s1.env = saved
        outs.append((s1, v))
    return outs


def b_any(eng, st, args, kwargs, node):
    m = eng.method_models.get("any()")
    if m:
        r = m(eng, st, args[0], node)
        if r is not None:
            return r
    r = _static_quantifier(eng, st, args[0], True) if args else None
    if r is not None:
        return r
    # not expandable: the weakest contract (what an unknown callee gets)
    from .calls import opaque_call

    return opaque_call(eng, st, "global:any", args, kwargs)


def b_all(eng, st, args, kwargs, node):
    m = eng.method_models.get("all()")
    if m:
        r = m(eng, st, args[0], node)
        if r is not None:
            return r
    r = _static_quantifier(eng, st, args[0], False) if args else None
    if r is not None:
        return r
    # not expandable: the weakest contract (what an unknown callee gets)
    from .calls import opaque_call

    return opaque_call(eng, st, "global:all", args, kwargs)


def b_frozenset(eng, st, args, kwargs, node):
    m = eng.method_models.get("frozenset()")
    if m:
        return m(eng, st, args, node)
    # no model in this unit: an immutable set the engine knows nothing about (its construction iterates the argument: weakest contract)
    from .calls import opaque_call

    return opaque_call(eng, st, "global:frozenset", args, kwargs)


def b_object(eng, st, args, kwargs, node):
    return [(st, Opaque("object()"))]


def mk(name, f):
    return Fn(name, model=f)


BUILTINS = {
    "len": mk("len", b_len),
    "type": mk("type", b_type),
    "isinstance": mk("isinstance", b_isinstance),
    "hasattr": mk("hasattr", b_hasattr),
    "getattr": mk("getattr", b_getattr),
    "str": Cls("str"),
    "repr": mk("repr", b_repr),
    "bool": Cls("bool"),
    "int": Cls("int"),
    "float": Cls("float"),
    "complex": Cls("complex"),
    "tuple": Cls("tuple"),
    "list": Cls("list"),
    "dict": Cls("dict"),
    "print": mk("print", b_print),
    "zip": mk("zip", b_zip),
    "enumerate": mk("enumerate", b_enumerate),
    "any": mk("any", b_any),
    "frozenset": mk("frozenset", b_frozenset),
    "object": mk("object", b_object),
    "all": mk("all", b_all),
    "True": mkbool(True),
    "False": mkbool(False),
}

# classes that are also callable converters
CONVERTERS = {"str": b_str, "bool": b_bool, "int": b_int, "tuple": b_tuple, "list": b_list, "dict": b_dict}
