"""b11_hook_scope -- bounded stand-in for C11.

C11: while install_import_hook(names, checker) is active, a module imported for the first time is instrumented
exactly when its full dotted name equals one of the names or lies beneath one of them as sub-package/sub-module
(a mere string prefix -- 'foobar' for 'foo' -- does not count).  Modules outside that set, and every module
imported after uninstall() / after leaving the with-block, load unmodified; instrumented functions are checked
by the checker given to the install call that loaded them, also with several hooks active at once.  Same via
the pytest option and the IPython magic.

Every scenario runs in a FRESH subprocess over a generated package forest in a temp dir.  The oracle below
simulates the operation sequence on the *statement's* definition (dotted-component prefix, set of active hooks
at first import, static import graph of the forest) -- it never calls jaxtyping.
"""
import json
import os
import random
import shutil
import subprocess
import sys
import tempfile
import time
from concurrent.futures import ThreadPoolExecutor

sys.path.insert(0, os.path.dirname(os.path.abspath(__file__)))
import _common  # noqa: E402

# ----------------------------------------------------------------------------------------------------
# the forest
# ----------------------------------------------------------------------------------------------------
BODY = '''
def f(x: int):
    return x


class K:
    def m(self, x: int):
        return x


def outer():
    def inner(x: int):
        return x
    return inner
'''

# module -> (relative path, [modules it imports at module level, in order])
FOREST = {
    "foo": ("foo/__init__.py", []),
    "foo.sub": ("foo/sub/__init__.py", []),
    "foo.sub.deep": ("foo/sub/deep.py", ["fo"]),
    "foo.other": ("foo/other.py", ["foobar", "foo.sub.deep", "bar.baz"]),
    "foobar": ("foobar/__init__.py", []),
    "foobar.inner": ("foobar/inner.py", ["foo.sub"]),
    "foo_bar": ("foo_bar.py", []),
    "bar": ("bar/__init__.py", []),
    "bar.baz": ("bar/baz.py", ["foo_bar"]),
    "bar.bazooka": ("bar/bazooka.py", []),
    "fo": ("fo.py", []),
    # look-alikes of the DOTTED names foo.sub / bar.baz: another character where the dot is (a dot in a hook name is a literal dot)
    "fooxsub": ("fooxsub.py", []),
    "bar_baz": ("bar_baz.py", []),
    # a library that hooks itself from its own __init__ (the "writing a library" example of the install_import_hook docs)
    "selfhook": ("selfhook/__init__.py", []),
    "selfhook.core": ("selfhook/core.py", []),
    "selfhook.late": ("selfhook/late.py", []),
}
# module -> (names, checker, modules imported inside its own with-block)
SELF_HOOKS = {"selfhook": (["selfhook"], "typeguard.typechecked", ["selfhook.core"])}
IMPORT_LINES = {
    "foo.sub.deep": "import fo\n",
    "foo.other": "import foobar\nfrom .sub import deep\nimport bar.baz\n",
    "foobar.inner": "import foo.sub\n",
    "bar.baz": "import foo_bar\n",
    "selfhook": "from jaxtyping import install_import_hook as _iih\nwith _iih('selfhook', 'typeguard.typechecked'):\n    from . import core\ndel _iih\n",
}
ALL_ORDER = ["fo", "foobar", "foo_bar", "fooxsub", "foo", "foo.sub.deep", "bar.bazooka", "bar_baz", "bar.baz", "foobar.inner", "foo.other"]

SPYCHK = '''
import functools, inspect
calls = []
class SpyError(Exception):
    pass
def make(tag):
    def deco(fn):
        calls.append([tag, getattr(fn, "__module__", None), getattr(fn, "__qualname__", None)])
        sig = inspect.signature(fn)
        @functools.wraps(fn)
        def w(*a, **k):
            b = sig.bind(*a, **k)
            for n, v in b.arguments.items():
                if sig.parameters[n].annotation is int and not isinstance(v, int):
                    raise SpyError(tag)
            return fn(*a, **k)
        return w
    return deco
A = make("A")
B = make("B")
'''

PROBE = r'''
import sys
def _chain(e):
    seen = []
    while e is not None and id(e) not in [id(s) for s in seen]:
        seen.append(e)
        e = e.__cause__ if e.__cause__ is not None else e.__context__
    return seen
def _signals(e):
    sig = set()
    for x in _chain(e):
        tm = type(x).__module__ or ""
        if type(x).__name__ == "SpyError":
            sig.add("spy:" + str(x))
        if tm.split(".")[0] == "beartype":
            sig.add("beartype")
        tb = x.__traceback__
        while tb is not None:
            top = (tb.tb_frame.f_globals.get("__name__") or "").split(".")[0]
            if top == "typeguard":
                sig.add("typeguard")
            if top == "beartype":
                sig.add("beartype")
            tb = tb.tb_next
    return sig
def classify_fn(fn, glob, call):
    """plain | nocheck | typeguard | beartype | spy:A | weird:..."""
    wrapped = hasattr(fn, "__wrapped__")
    has_jt = "jaxtyping" in glob
    try:
        good = call(fn, 3)
    except BaseException as e:
        return "weird:well-typed call raised " + type(e).__name__
    if good != 3:
        return "weird:well-typed call returned %r" % (good,)
    try:
        call(fn, "not an int")
    except BaseException as e:
        if type(e).__name__ != "TypeCheckError" or (type(e).__module__ or "").split(".")[0] != "jaxtyping":
            return "weird:raised " + type(e).__module__ + "." + type(e).__name__
        s = sorted(_signals(e))
        if len(s) == 1:
            return s[0]
        return "weird:TypeCheckError with checker signals %r" % (s,)
    if wrapped:
        return "nocheck"
    return "plain"
def classify_module(m):
    g = vars(m)
    kinds = {
        "f": classify_fn(m.f, g, lambda fn, v: fn(v)),
        "K.m": classify_fn(m.K.m, g, lambda fn, v: fn(m.K(), v)),
        "outer.inner": classify_fn(m.outer(), g, lambda fn, v: fn(v)),
    }
    vals = set(kinds.values())
    has_jt = "jaxtyping" in g
    if len(vals) == 1:
        k = vals.pop()
        if k == "plain" and has_jt:
            return "weird:plain functions but `jaxtyping` in module globals"
        if k != "plain" and not has_jt:
            return "weird:%s but no `jaxtyping` in module globals" % k
        return k
    return "weird:mixed " + repr(sorted(kinds.items()))
'''

CHILD = r'''
import sys, json, importlib
sys.dont_write_bytecode = True
sc = json.loads(sys.stdin.read())
sys.path.insert(0, sc["root"])
import jaxtyping
import _c11probe
class _Marker(Exception):
    pass
hooks, log = {}, []
def conv_ck(c):
    return tuple(c["tuple"]) if isinstance(c, dict) else c
def do_import(name, how):
    try:
        if how == "from" and "." in name:
            parent, _, leaf = name.rpartition(".")
            exec("from %s import %s" % (parent, leaf), {})
        elif how == "importlib":
            importlib.import_module(name)
        else:
            exec("import " + name, {})
    except BaseException as e:
        log.append(["import-error", name, type(e).__name__ + ": " + str(e)[:200]])
def run(ops):
    for op in ops:
        k = op[0]
        try:
            if k == "install":
                hooks[op[1]] = jaxtyping.install_import_hook(op[2], conv_ck(op[3]))
            elif k == "uninstall":
                hooks[op[1]].uninstall()
            elif k == "with":
                try:
                    with jaxtyping.install_import_hook(op[2], conv_ck(op[3])):
                        run(op[4])
                        if op[5]:
                            raise _Marker()
                except _Marker:
                    pass
            elif k == "import":
                do_import(op[1], op[2])
        except BaseException as e:
            log.append(["op-error", json.dumps(op)[:100], type(e).__name__ + ": " + str(e)[:200]])
run(sc["ops"])
state = {}
for name in sc["modules"]:
    if name in sys.modules:
        try:
            state[name] = _c11probe.classify_module(sys.modules[name])
        except BaseException as e:
            state[name] = "weird:probe failed " + type(e).__name__ + ": " + str(e)[:150]
spy = sys.modules["spychk"].calls if "spychk" in sys.modules else []
print("C11RESULT " + json.dumps({"state": state, "log": log, "spy": spy}))
'''

PYTEST_TEST = r'''
import json, os, sys
def test_probe():
    import importlib
    import _c11probe
    state = {}
    for name in json.loads(os.environ["C11_IMPORTS"]):
        importlib.import_module(name)
    for name in json.loads(os.environ["C11_MODULES"]):
        if name in sys.modules:
            state[name] = _c11probe.classify_module(sys.modules[name])
    with open(os.environ["C11_OUT"], "w") as fh:
        json.dump(state, fh)
'''

IPY_CHILD = r'''
import sys, json, io, os
sys.dont_write_bytecode = True
root = sys.argv[1]
sys.path.insert(0, root)
real = sys.stdout
sys.stdout = io.StringIO()
res = {}
try:
    from IPython.core.interactiveshell import InteractiveShell
    import _c11probe
    sh = InteractiveShell.instance()
    DEF = "def %s(x: int):\n    return x\n"
    sh.run_cell(DEF % "before", store_history=False)
    sh.run_line_magic("load_ext", "jaxtyping")
    sh.run_cell(DEF % "after_load_ext", store_history=False)
    sh.run_line_magic("jaxtyping.typechecker", "typeguard.typechecked")
    sh.run_cell(DEF % "f_tg", store_history=False)
    sh.run_cell("import foo\nimport fo\n", store_history=False)
    sh.run_line_magic("jaxtyping.typechecker", "beartype.beartype")
    sh.run_cell(DEF % "f_bt", store_history=False)
    sh.run_cell("import foo.sub.deep\n", store_history=False)
    ns = sh.user_ns
    for n in ("before", "after_load_ext", "f_tg", "f_bt"):
        # cell functions live in user_ns; whether `jaxtyping` was imported into it is not part of the per-function verdict
        res["cell:" + n] = _c11probe.classify_fn(ns[n], {"jaxtyping": 1} if hasattr(ns[n], "__wrapped__") else {}, lambda fn, v: fn(v)) if n in ns else "weird:not defined"
    for m in ("foo", "fo", "foo.sub", "foo.sub.deep"):
        res["module:" + m] = _c11probe.classify_module(sys.modules[m]) if m in sys.modules else "weird:not imported"
except BaseException as e:
    import traceback
    res["__harness_error__"] = traceback.format_exc()[-800:]
sys.stdout = real
print("C11RESULT " + json.dumps(res))
'''


def write_forest(root):
    for mod, (rel, _) in FOREST.items():
        p = os.path.join(root, rel)
        os.makedirs(os.path.dirname(p), exist_ok=True)
        with open(p, "w") as fh:
            fh.write(f'"""{mod}"""\n' + IMPORT_LINES.get(mod, "") + BODY)
    with open(os.path.join(root, "spychk.py"), "w") as fh:
        fh.write(SPYCHK)
    with open(os.path.join(root, "_c11probe.py"), "w") as fh:
        fh.write(PROBE)
    with open(os.path.join(root, "_c11child.py"), "w") as fh:
        fh.write(CHILD)
    with open(os.path.join(root, "_c11ipy.py"), "w") as fh:
        fh.write(IPY_CHILD)
    os.makedirs(os.path.join(root, "pt"), exist_ok=True)
    with open(os.path.join(root, "pt", "test_scope.py"), "w") as fh:
        fh.write(PYTEST_TEST)


# ----------------------------------------------------------------------------------------------------
# oracle: simulate the operations on the statement's definitions
# ----------------------------------------------------------------------------------------------------
CHECKER_KIND = {"typeguard.typechecked": "typeguard", "beartype.beartype": "beartype", None: "nocheck",
                "spychk.A": "spy:A", "spychk.B": "spy:B",
                "beartype.beartype(conf=beartype.BeartypeConf(strategy=beartype.BeartypeStrategy.On))": "beartype"}


def kind_of(checker):
    if isinstance(checker, dict):  # old tuple API ("typeguard", "typechecked") means typeguard.typechecked
        return CHECKER_KIND[".".join(checker["tuple"])]
    return CHECKER_KIND[checker]


def covers(names, module):
    if isinstance(names, str):
        names = [names]
    parts = module.split(".")
    for n in names:
        np_ = n.split(".")
        if parts[:len(np_)] == np_:
            return True
    return False


def simulate(ops):
    """-> {module: set of acceptable kinds} for every forest module loaded by the ops."""
    loaded = {}
    active = []  # [(id, names, checker)] in installation order

    def load(name):
        if name in loaded:
            return
        if "." in name:
            load(name.rsplit(".", 1)[0])
            if name in loaded:  # the parent's own body already imported it
                return
        cov = [kind_of(ck) for (_, nm, ck) in active if covers(nm, name)]
        loaded[name] = set(cov) if cov else {"plain"}
        for dep in FOREST[name][1]:
            load(dep)
        if name in SELF_HOOKS:
            nm, ck, deps = SELF_HOOKS[name]
            active.append(("self:" + name, nm, ck))
            for dep in deps:
                load(dep)
            active[:] = [h for h in active if h[0] != "self:" + name]

    def run(ops):
        for op in ops:
            if op[0] == "install":
                active.append((op[1], op[2], op[3]))
            elif op[0] == "uninstall":
                active[:] = [h for h in active if h[0] != op[1]]
            elif op[0] == "with":
                active.append((op[1], op[2], op[3]))
                run(op[4])
                active[:] = [h for h in active if h[0] != op[1]]
            elif op[0] == "import":
                load(op[1])
    run(ops)
    return loaded


# ----------------------------------------------------------------------------------------------------
# scenarios
# ----------------------------------------------------------------------------------------------------
NAME_SETS = {"[foo]": ["foo"], "str-foo": "foo", "[foo.sub]": ["foo.sub"], "[foo,bar.baz]": ["foo", "bar.baz"], "[fo]": ["fo"], "[]": []}
CHECKERS = {"typeguard": "typeguard.typechecked", "beartype": "beartype.beartype", "None": None, "tuple-typeguard": {"tuple": ["typeguard", "typechecked"]}}


def imports(names, how="stmt"):
    return [["import", n, how] for n in names]


def single_hook_templates(nm, ck):
    A1, C1 = ["foo", "foobar", "bar.baz", "fooxsub"], ["foo.sub.deep", "foo_bar", "fo", "bar.bazooka", "foo.other", "foobar.inner", "bar_baz"]
    A2, C2 = ["foo.sub", "fo", "bar", "bar_baz"], ["foo.other", "foobar.inner", "bar.bazooka", "foo", "fooxsub"]
    return {
        "all-api": [["install", "h", nm, ck]] + imports(ALL_ORDER) + [["uninstall", "h"]],
        "split-with": [["with", "h", nm, ck, imports(A1), False]] + imports(C1, "importlib"),
        "split-api": [["install", "h", nm, ck]] + imports(A2, "from") + [["uninstall", "h"]] + imports(C2),
    }


def extra_single(nm, ck):
    return {
        "after-only": [["install", "h", nm, ck], ["uninstall", "h"]] + imports(ALL_ORDER),
        "with-raise": [["with", "h", nm, ck, imports(["foo.sub", "fo"]), True]] + imports(["foo.other", "bar.bazooka"]),
        "double-uninstall": [["install", "h", nm, ck]] + imports(["foo"]) + [["uninstall", "h"], ["uninstall", "h"]] + imports(["foo.sub.deep", "bar.baz"]),
    }


def two_hook_scenarios():
    tg, bt = "typeguard.typechecked", "beartype.beartype"
    S = {}
    S["disjoint"] = [["install", "h1", ["foo"], tg], ["install", "h2", ["bar.baz"], bt]] + imports(ALL_ORDER) + [["uninstall", "h1"], ["uninstall", "h2"]]
    S["nested"] = [["install", "h1", ["foo"], tg], ["install", "h2", ["foo.sub"], bt]] + imports(ALL_ORDER) + [["uninstall", "h2"], ["uninstall", "h1"]]
    S["nested-reversed"] = [["install", "h1", ["foo.sub"], bt], ["install", "h2", ["foo"], tg]] + imports(ALL_ORDER)
    S["uninstall-first-midway"] = ([["install", "h1", ["foo"], tg], ["install", "h2", ["bar"], bt]] + imports(["foo"]) + [["uninstall", "h1"]]
                                   + imports(["foo.sub.deep", "bar.baz"]) + [["uninstall", "h2"]] + imports(["bar.bazooka", "foo.other"]))
    S["uninstall-second-midway"] = ([["install", "h1", ["foo"], tg], ["install", "h2", ["bar"], bt]] + imports(["bar"]) + [["uninstall", "h2"]]
                                    + imports(["foo.sub.deep", "bar.baz"]) + [["uninstall", "h1"]] + imports(["bar.bazooka", "foo.other"]))
    S["none+typeguard"] = [["install", "h1", ["foo"], None], ["install", "h2", ["fo", "foobar"], tg]] + imports(ALL_ORDER)
    S["typeguard+none"] = [["install", "h1", ["bar.baz", "foo.sub"], tg], ["install", "h2", "bar", None]] + imports(ALL_ORDER)
    S["same-names-two-checkers"] = [["install", "h1", ["foo"], tg], ["install", "h2", ["foo"], bt]] + imports(["foo", "foobar", "foo.sub.deep"])
    S["nested-with"] = [["with", "h1", ["foo"], tg, imports(["foo"]) + [["with", "h2", ["bar"], bt, imports(["bar.baz", "foo.sub"]), False]] + imports(["bar.bazooka", "foo.other"]), False]] + imports(["foobar.inner", "fo"])
    S["same-checker-twice"] = ([["install", "h1", ["foo"], tg], ["install", "h2", ["foo", "fo"], tg], ["uninstall", "h1"]] + imports(["foo.sub.deep", "foobar"])
                               + [["uninstall", "h2"]] + imports(["foo.other"]))
    # the very same hook installed twice, the LATER one removed first: the earlier install is still in force
    S["identical-twice-second-removed"] = ([["install", "h1", ["foo"], tg], ["install", "h2", ["foo"], tg]] + imports(["foo"]) + [["uninstall", "h2"]]
                                           + imports(["foo.sub.deep", "foobar"]) + [["uninstall", "h1"]] + imports(["foo.other"]))
    S["identical-with-inside-install"] = ([["install", "h1", ["foo", "bar"], bt], ["with", "h2", ["foo", "bar"], bt, imports(["foo"]), False]] + imports(["bar.baz", "foo.sub"]))
    S["self-hooking-package"] = imports(["selfhook", "selfhook.late", "foo"])
    S["self-hooking-package-under-other-hook"] = [["install", "h1", ["foo"], bt]] + imports(["selfhook", "foo", "selfhook.late"]) + [["uninstall", "h1"]] + imports(["foo.sub"])
    S["self-hooking-package-covered-by-outer-hook"] = [["with", "h1", ["selfhook", "fo"], bt, imports(["selfhook.late", "fo"]), False]] + imports(["foo"])
    S["spies-disjoint"] = [["install", "h1", ["foo"], "spychk.A"], ["install", "h2", ["bar.baz", "fo"], "spychk.B"]] + imports(ALL_ORDER)
    S["spies-sequential"] = ([["with", "h1", ["foo"], "spychk.A", imports(["foo", "foobar"]), False], ["with", "h2", ["foo.sub", "foobar"], "spychk.B", imports(["foo.sub.deep", "foobar.inner"]), False]]
                             + imports(["foo.other"]))
    S["spy+typeguard"] = [["install", "h1", "foo", "spychk.A"], ["install", "h2", "bar", tg]] + imports(ALL_ORDER, "importlib")
    return S


def random_scenario(rng, idx):
    """Seeded: 1-2 hooks with random name sets/checkers, random import order, random uninstall points."""
    name_pool = [["foo"], "foo", ["foo.sub"], ["foo", "bar.baz"], ["fo"], [], ["bar"], ["foo.sub.deep", "foobar"], ["foo_bar", "bar.bazooka"], ["foobar.inner"], "bar.baz", ["foo.other", "fo"]]
    ck_pool = ["typeguard.typechecked", "beartype.beartype", None, {"tuple": ["beartype", "beartype"]}, "spychk.A"]
    order = list(FOREST)
    rng.shuffle(order)
    order = order[:rng.randint(4, len(order))]
    nh = rng.choice([1, 1, 2])
    ops = []
    hs = []
    for i in range(nh):
        hs.append(["install", f"h{i}", rng.choice(name_pool), rng.choice(ck_pool)])
    # positions: install each hook somewhere in the first half, uninstall somewhere later (or never)
    events = [(rng.randint(0, len(order) // 2), 0, h) for h in hs]
    for h in hs:
        if rng.random() < 0.7:
            events.append((rng.randint(len(order) // 2, len(order)), 1, ["uninstall", h[1]]))
    for pos in range(len(order) + 1):
        for (p, _, ev) in sorted([e for e in events if e[0] == pos], key=lambda e: (e[1], e[2][1])):
            ops.append(ev)
        if pos < len(order):
            ops.append(["import", order[pos], rng.choice(["stmt", "importlib", "from"])])
    return ops


def compact(ops):
    out = []
    for op in ops:
        if op[0] == "install":
            nm = op[2] if isinstance(op[2], str) else "[" + ",".join(op[2]) + "]"
            ck = ".".join(op[3]["tuple"]) + "(tuple)" if isinstance(op[3], dict) else str(op[3])
            out.append(f"+{op[1]}({nm};{ck})")
        elif op[0] == "uninstall":
            out.append("-" + op[1])
        elif op[0] == "import":
            out.append({"stmt": "", "importlib": "il:", "from": "from:"}[op[2]] + op[1])
    return " ".join(out)


def build_scenarios(tier, rng):
    sc = []  # (id, ops)
    for i, (nk, nm) in enumerate(NAME_SETS.items()):
        for j, (ckk, ck) in enumerate(CHECKERS.items()):
            for t, (tk, ops) in enumerate(single_hook_templates(nm, ck).items()):
                # quick: all three templates under typeguard, one rotating template under the other checkers
                if tier == "thorough" or ckk == "typeguard" or t == (i + j) % 3:
                    sc.append((f"api:names={nk}|ck={ckk}|T={tk}", ops))
    for nk, ckk in (("[foo]", "typeguard"), ("[foo,bar.baz]", "beartype"), ("[fo]", "None")):
        for tk, ops in extra_single(NAME_SETS[nk], CHECKERS[ckk]).items():
            sc.append((f"api:names={nk}|ck={ckk}|T={tk}", ops))
    for k, ops in two_hook_scenarios().items():
        sc.append((f"api2:{k}", ops))
    if tier == "thorough":
        for nk, nm in NAME_SETS.items():
            for ckk, ck in CHECKERS.items():
                if (nk, ckk) in (("[foo]", "typeguard"), ("[foo,bar.baz]", "beartype"), ("[fo]", "None")):
                    continue
                for tk, ops in extra_single(nm, ck).items():
                    sc.append((f"api:names={nk}|ck={ckk}|T={tk}", ops))
        full = "beartype.beartype(conf=beartype.BeartypeConf(strategy=beartype.BeartypeStrategy.On))"
        for tk, ops in single_hook_templates(["foo", "bar.baz"], full).items():
            sc.append((f"api:names=[foo,bar.baz]|ck=beartype-conf|T={tk}", ops))
        for i in range(240):
            ops = random_scenario(rng, i)
            sc.append(("api-random:" + compact(ops), ops))
    return sc


# ----------------------------------------------------------------------------------------------------
def child_env(repo, root):
    env = {k: v for k, v in os.environ.items() if k not in ("PYTHONSTARTUP",)}
    env["PYTHONPATH"] = repo + os.pathsep + root
    env["PYTHONDONTWRITEBYTECODE"] = "1"
    env["JAX_PLATFORMS"] = "cpu"
    env["PYTHONHASHSEED"] = "0"
    env["IPYTHONDIR"] = os.path.join(root, "_ipythondir")  # keep IPython's profile/history inside the temp dir
    return env


def run_child(repo, root, ops):
    p = subprocess.run([sys.executable, os.path.join(root, "_c11child.py")], input=json.dumps({"root": root, "ops": ops, "modules": list(FOREST)}),
                       capture_output=True, text=True, env=child_env(repo, root), cwd=root, timeout=300)
    line = next((ln for ln in p.stdout.splitlines() if ln.startswith("C11RESULT ")), None)
    if line is None:
        return {"crash": (p.stderr or p.stdout)[-600:]}
    return json.loads(line[len("C11RESULT "):])


def snippet_ops(ops):
    lit = json.dumps(ops).replace("null", "None").replace("false", "False").replace("true", "True")
    return ("import sys, tempfile; sys.path.insert(0, '/verif/bounded'); import b11_hook_scope as b\n"
            "root = tempfile.mkdtemp(); b.write_forest(root); ops = " + lit + "\n"
            "print(b.run_child('/repo', root, ops)['state'])   # real jaxtyping, fresh subprocess\n"
            "print({k: sorted(v) for k, v in b.simulate(ops).items()})   # what the statement calls for")


def run_pytest(repo, root, args, imports_, outname):
    env = child_env(repo, root)
    out = os.path.join(root, outname)
    env.update(C11_IMPORTS=json.dumps(imports_), C11_MODULES=json.dumps(list(FOREST)), C11_OUT=out)
    p = subprocess.run([sys.executable, "-m", "pytest", "-q", "-p", "no:cacheprovider", "--rootdir", os.path.join(root, "pt"), "-c", os.devnull] + args + [os.path.join(root, "pt", "test_scope.py")],
                       capture_output=True, text=True, env=env, cwd=os.path.join(root, "pt"), timeout=300)
    if os.path.exists(out):
        with open(out) as fh:
            return {"state": json.load(fh), "rc": p.returncode}
    return {"crash": (p.stdout + p.stderr)[-800:], "rc": p.returncode}


def main():
    a = _common.setup("C11 import-hook scope")
    rng = random.Random(a.seed)
    T = _common.Tally()
    root = tempfile.mkdtemp(prefix="b11_")
    try:
        write_forest(root)
        scenarios = build_scenarios(a.tier, rng)
        nprobe = 0

        pt_cases = [("pytest:foo,typeguard", ["--jaxtyping-packages=foo,typeguard.typechecked"], [["install", "h", ["foo"], "typeguard.typechecked"]]),
                    ("pytest:foo,bar.baz,beartype", ["--jaxtyping-packages=foo,bar.baz,beartype.beartype"], [["install", "h", ["foo", "bar.baz"], "beartype.beartype"]]),
                    ("pytest:spaces", ["--jaxtyping-packages=fo , foo.sub , typeguard.typechecked"], [["install", "h", ["fo", "foo.sub"], "typeguard.typechecked"]]),
                    ("pytest:no-option", [], [])]
        if a.tier == "quick":
            pt_cases = pt_cases[:2] + pt_cases[3:]

        def job(s):
            return s, run_child(a.repo, root, s[1])

        def ptjob(c):
            return c, run_pytest(a.repo, root, c[1], ALL_ORDER, "ptout_%d.json" % pt_cases.index(c))

        def helpjob(_):
            return subprocess.run([sys.executable, "-m", "pytest", "--help", "-p", "no:cacheprovider", "-c", os.devnull], capture_output=True, text=True,
                                  env=child_env(a.repo, root), cwd=os.path.join(root, "pt"), timeout=300)

        def ipyjob(_):
            return subprocess.run([sys.executable, os.path.join(root, "_c11ipy.py"), root], capture_output=True, text=True, env=child_env(a.repo, root), cwd=root, timeout=300)

        with ThreadPoolExecutor(max_workers=7) as ex:
            f_help = ex.submit(helpjob, None)
            f_ipy = ex.submit(ipyjob, None)
            f_pt = [ex.submit(ptjob, c) for c in pt_cases]
            results = list(ex.map(job, scenarios))
            helpout, p_ipy, ptres = f_help.result(), f_ipy.result(), [f.result() for f in f_pt]
        for (sid, ops), res in results:
            expected = simulate(ops)
            nontriv = any(v != {"plain"} for v in expected.values()) and any(v == {"plain"} for v in expected.values())
            T.case(sid, nontrivial=nontriv, sample=(f"{sid}: " + json.dumps({k: sorted(v) for k, v in expected.items()}) if nontriv and len(T.samples) < 3 else None))
            if "crash" in res:
                T.fail(sid + ":child", "scenario-runs", input=ops, expected="operations complete", actual=res["crash"], snippet=snippet_ops(ops))
                continue
            for entry in res["log"]:
                T.fail(sid + ":" + entry[0] + ":" + entry[1], "operation-succeeds", input=ops, expected="install/import/uninstall succeed", actual=entry, snippet=snippet_ops(ops))
            for mod in FOREST:
                exp, got = expected.get(mod), res["state"].get(mod)
                nprobe += 1
                if exp is None and got is None:
                    continue
                if exp is None or got is None:
                    # which modules get loaded is a property of Python + the forest; a mismatch is a harness defect
                    raise RuntimeError(f"harness import-graph model wrong for {sid}: {mod} expected-loaded={exp is not None} actual-loaded={got is not None} log={res['log']}")
                if got not in exp:
                    if exp == {"plain"}:
                        clause = "outside-set-or-after-uninstall-loads-unmodified"
                    elif got == "plain":
                        clause = "covered-module-is-instrumented"
                    else:
                        clause = "checked-by-installing-hooks-checker"
                    T.fail(f"{sid}:mod={mod}", clause, input=ops, expected=sorted(exp), actual=got, snippet=snippet_ops(ops))
            # spy: the set of modules each spy checker was asked to wrap
            spy_mods = {}
            for tag, m, q in res["spy"]:
                spy_mods.setdefault("spy:" + tag, set()).add(m)
            for tag in ("spy:A", "spy:B"):
                exp_mods = {m for m, v in expected.items() if v == {tag}}
                got_mods = {m for m in spy_mods.get(tag, set()) if m in FOREST}
                maybe = {m for m, v in expected.items() if tag in v}
                if not (exp_mods <= got_mods <= maybe):
                    T.fail(f"{sid}:{tag}-wrapped-modules", "spy-checker-asked-for-exactly-covered-modules", input=ops, expected=sorted(exp_mods), actual=sorted(got_mods), snippet=snippet_ops(ops))

        # ---- pytest option
        T.case("pytest:help", True)
        if "--jaxtyping-packages" not in helpout.stdout:
            T.fail("pytest:help", "pytest-option-registered", input="pytest --help", expected="--jaxtyping-packages listed", actual=helpout.stdout[-300:] + helpout.stderr[-300:],
                   snippet="python -m pytest --help | grep jaxtyping")
        for (cid, args, pre), res in ptres:
            ops = pre + imports(ALL_ORDER, "importlib")
            expected = simulate(ops)
            T.case(cid, True, sample=(cid + " " + " ".join(args) if cid.endswith("beartype") else None))
            snip = f"cd <forest>/pt && python -m pytest -q {' '.join(args)} test_scope.py   # see b11_hook_scope.PYTEST_TEST"
            if "crash" in res:
                T.fail(cid + ":run", "pytest-run-completes", input=args, expected="test runs", actual=res["crash"], snippet=snip)
                continue
            for mod in FOREST:
                exp, got = expected.get(mod), res["state"].get(mod)
                nprobe += 1
                if exp is None or got is None:
                    if exp != got:
                        raise RuntimeError(f"harness import-graph model wrong for {cid}: {mod}")
                    continue
                if got not in exp:
                    T.fail(f"{cid}:mod={mod}", "pytest-option-scope", input=args, expected=sorted(exp), actual=got, snippet=snip)

        # ---- IPython magic
        p = p_ipy
        line = next((ln for ln in p.stdout.splitlines() if ln.startswith("C11RESULT ")), None)
        ipy_note = ""
        if line is None or "__harness_error__" in json.loads(line[len("C11RESULT "):]):
            ipy_note = " (IPython scenario could not be driven: " + ((json.loads(line[len("C11RESULT "):])["__harness_error__"] if line else p.stderr)[-200:]).replace("\n", " | ") + ")"
        else:
            got = json.loads(line[len("C11RESULT "):])
            exp = {"cell:before": "plain", "cell:after_load_ext": "plain", "cell:f_tg": "typeguard", "cell:f_bt": "beartype",
                   "module:foo": "plain", "module:fo": "plain", "module:foo.sub": "plain", "module:foo.sub.deep": "plain"}
            for k, v in exp.items():
                T.case("ipython:" + k, True, sample=("ipython: cells before/after %jaxtyping.typechecker typeguard.typechecked / beartype.beartype, imports" if k == "cell:f_tg" else None))
                nprobe += 1
                if got.get(k) != v:
                    T.fail("ipython:" + k, "ipython-magic-scope", input=k, expected=v, actual=got.get(k),
                           snippet="from IPython.core.interactiveshell import InteractiveShell as S; s = S.instance()\ns.run_line_magic('load_ext', 'jaxtyping'); s.run_line_magic('jaxtyping.typechecker', 'typeguard.typechecked')\n"
                                   "s.run_cell('def f(x: int):\\n    return x'); s.run_cell('f(\"a\")')")
    finally:
        shutil.rmtree(root, ignore_errors=True)

    bound = (f"{a.tier}: {len(scenarios)} API scenarios, each in a fresh subprocess over the forest {sorted(FOREST)} (static import graph: foo.sub.deep->fo, foo.other->foobar,foo.sub.deep,bar.baz, foobar.inner->foo.sub, bar.baz->foo_bar): "
             f"name sets {list(NAME_SETS)} x checkers {list(CHECKERS)} x templates [all-api, split-with, split-api]"
             + ("" if a.tier == "thorough" else " (quick: all 3 templates under typeguard, one rotating template under each other checker)") + "; after-only / with-block-exited-by-exception / double-uninstall "
             + ("for every names x checker" if a.tier == "thorough" else "for 3 names x checker combos")
             + f"; {len(two_hook_scenarios())} two-hook scenarios (disjoint, nested, same names, interleaved uninstall, nested with-blocks, a package that installs the hook for itself in its __init__, spy checkers spychk.A/B recording what they are asked to wrap)"
             + ("; beartype-with-conf checker string; 240 seeded random scenarios (1-2 hooks, 12 name sets, 5 checkers, random import order/style and (un)install points)" if a.tier == "thorough" else "")
             + f"; pytest --jaxtyping-packages: --help + {len(pt_cases)} runs; IPython: load_ext + magic with two checkers, 4 cell functions, 4 imported modules" + ipy_note
             + f". {nprobe} (scenario, module) probes. Not covered: overlapping hooks only require the checker to be one of the covering hooks' (statement silent on precedence); reload(); namespace packages; non-source modules.")
    rule = ("a module is probed through f, K.m and the closure outer.inner (each `x: int`): call with 3 must return 3, call with a str classifies as plain / nocheck(__wrapped__ + jaxtyping global, no error) / typeguard / beartype / spy:X by the "
            "TypeCheckError's cause chain; oracle = simulation of the op list: at first import the set of active hooks whose names are a dotted-component prefix of the module name decides; a scenario is non-trivial iff it has both an "
            "instrumented and a plain module.")
    _common.emit(T, bound=bound, rule=rule, exhaustive=False, tier=a.tier, seed=a.seed, wall_s=round(time.time() - a.t0, 1))


if __name__ == "__main__":
    main()
