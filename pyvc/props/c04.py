SPEC = {
    "units": ["instancecheck", "storage", "check_dims", "check_shape"],
    "lemmas": [],
    "bounded": [],
    "replayers": {"instancecheck": "instancecheck.py", "check_dims": "check_dims.py"},
    "level": "proof",
}
