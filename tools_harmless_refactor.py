"""Builds a scratch copy of /repo/jaxtyping with a bundle of HARMLESS edits (renamed locals, an inverted-but-equivalent
condition, an extracted helper, changed message text, `if/else` merged into an early write, `dict(x)` for `x.copy()`, a split
`or`, locals introduced in the loader's get_code / source_to_code, renamed loop variables in the PyTree leaf loop) and prints the directory. Every check must still exit 0 on it:   ./check Cxx --repo <dir>   (VERIF_OUT=<scratch>).
Used as a false-alarm regression (DESIGN 9.8)."""
import os, shutil, sys
dst = sys.argv[1] if len(sys.argv) > 1 else "/tmp/harm"
shutil.rmtree(dst, ignore_errors=True); os.makedirs(dst); shutil.copytree("/repo/jaxtyping", os.path.join(dst, "jaxtyping"))
os.chdir(dst)
def sub(p, old, new, count=1):
    s = open(p).read(); assert s.count(old) >= 1, (p, old[:60]); open(p, "w").write(s.replace(old, new, count))
p = "jaxtyping/_array_types.py"; s = open(p).read()
a = s.index("def _check_dims("); b = s.index("def _dtype_is_numpy_struct_array")
body = s[a:b].replace("cls_dim", "dim_spec").replace("obj_size", "axis_len").replace("eval_size", "value")
body = body.replace("            if dim_spec.size != axis_len:\n", "            if not (dim_spec.size == axis_len):\n")
s = s[:a] + body + s[b:]
old = s[s.index('        if hasattr(obj.dtype, "type") and hasattr(obj.dtype.type, "__name__"):'):s.index('        if cls.dtypes is not _any_dtype:')]
lines = [l[4:] if l.startswith("    ") else l for l in old.splitlines()]
helper = "def _dtype_name_of(obj):\n" + "\n".join(lines) + "\n    return dtype\n\n\n"
s = s.replace(old, "        dtype = _dtype_name_of(obj)\n\n").replace("class _MetaAbstractArray(type):", helper + "class _MetaAbstractArray(type):")
s = s.replace("this value is not an instance of the underlying array type", "value is not an instance of the array type")
s = s.replace('''        if check == "":
            return check
        else:
            set_shape_memo(
                single_memo_bak, variadic_memo_bak, pytree_memo_bak, arg_memo_bak
            )
            return check''', '''        if check != "":
            set_shape_memo(
                single_memo_bak, variadic_memo_bak, pytree_memo_bak, arg_memo_bak
            )
        return check''')
open(p, "w").write(s)
sub("jaxtyping/_storage.py", "    memos = ({}, {}, {}, arguments.copy())\n    memo_stack.append(memos)\n    return memos", "    frame = ({}, {}, {}, dict(arguments))\n    memo_stack.append(frame)\n    return frame")
sub("jaxtyping/_decorator.py", "                memos = push_shape_memo(bound.arguments)\n                try:\n                    # Put this", "                frame = push_shape_memo(bound.arguments)\n                try:\n                    # Put this")
sub("jaxtyping/_decorator.py", "return wrapped_fn_impl(args, kwargs, bound, memos)", "return wrapped_fn_impl(args, kwargs, bound, frame)")
sub("jaxtyping/_pytree_type.py", '''        if out:
            return True
        else:
            set_shape_memo(
                single_memo_bak, variadic_memo_bak, pytree_memo_bak, arg_memo_bak
            )
            return False''', '''        if not out:
            set_shape_memo(
                single_memo_bak, variadic_memo_bak, pytree_memo_bak, arg_memo_bak
            )
        return bool(out)''')
sub("jaxtyping/_import_hook.py", '''        for module in self.modules:
            if module_name == module or module_name.startswith(module + "."):
                return True

        return False''', '''        for hooked in self.modules:
            if module_name == hooked:
                return True
            if module_name.startswith(hooked + "."):
                return True
        return False''')
sub("jaxtyping/_import_hook.py", """        with patch(
            "importlib._bootstrap_external.cache_from_source",
            ft.partial(_optimized_cache_from_source, self._typechecker.get_hash()),
        ):
            return super().get_code(fullname)""", """        tag = self._typechecker.get_hash()
        namer = ft.partial(_optimized_cache_from_source, tag)
        with patch("importlib._bootstrap_external.cache_from_source", namer):
            code = super().get_code(fullname)
            return code""")
sub("jaxtyping/_import_hook.py", """        tree = JaxtypingTransformer(typechecker=self._typechecker).visit(tree)
        ast.fix_missing_locations(tree)
        return _call_with_frames_removed(
            compile, tree, path, "exec", dont_inherit=True, optimize=_optimize
        )""", """        transformer = JaxtypingTransformer(typechecker=self._typechecker)
        new_tree = transformer.visit(tree)
        ast.fix_missing_locations(new_tree)
        code = _call_with_frames_removed(
            compile, new_tree, path, "exec", dont_inherit=True, optimize=_optimize
        )
        return code""")
sub("jaxtyping/_pytree_type.py", """            for leaf_index, leaf in enumerate(leaves):
                if cls.structure is not None:
                    set_treepath_memo(leaf_index, cls.structure)
                if not is_check_leaftype(leaf):
                    return False
                clear_treepath_memo()""", """            for position, item in enumerate(leaves):
                if cls.structure is not None:
                    set_treepath_memo(position, cls.structure)
                ok = is_check_leaftype(item)
                if not ok:
                    return False
                clear_treepath_memo()""")
p = "jaxtyping/_decorator.py"; s = open(p).read()
a = s.index("def _get_problem_arg("); b = s.index("def _remove_typing")
body = s[a:b].replace("new_parameters", "rebuilt").replace("keep_name", "kept").replace("keep_annotation", "kept_ann").replace("sentinel", "missing").replace("p_name", "pname")
open(p, "w").write(s[:a] + body + s[b:])
sub("jaxtyping/_import_hook.py", "                + f\"  import {typechecker.split('.', 1)[0]}\\n\"\n", "                + f\"  import {top}\\n\"\n")
sub("jaxtyping/_import_hook.py", "            string_to_eval = (\n", "            top = typechecker.split(\".\", 1)[0]\n            string_to_eval = (\n")
sub("jaxtyping/_config.py", "class _JaxtypingConfig:", "class _JaxtypingConfig(object):")
p = "jaxtyping/_storage.py"; s = open(p).read()
a = s.index("def shape_str("); b = s.index("def print_bindings")
body = s[a:b].replace("pieces", "out_lines").replace("for name, size in", "for axis, n in").replace("name: size", "axis: n").replace('f"{name}={size}"', 'f"{axis}={n}"')
body = body.replace("        if not name.startswith(\"~~delete~~\")\n    }\n    variadic_memo", "        if not axis.startswith(\"~~delete~~\")\n    }\n    variadic_memo")
open(p, "w").write(s[:a] + body + s[b:])
print(dst)
