"""b01_shape_spec -- bounded stand-in for C01 (and the core of C02).

Inside ONE checking context, a history of 1..3 consecutive
    isinstance(np.zeros(shape), Shaped[np.ndarray, dims])
checks is run against the real jaxtyping and every verdict (True / False / AnnotationError) is compared with
two independent oracles written from the C01 statement and docs/api/array.md:

  * a *stepwise reference semantics* (explicit binding state: name -> size, '*name' -> exact shape or
    broadcast lower bound), which also predicts AnnotationError for symbolic axes over unbound names;
  * a *brute-force existence search*: a set of checks is jointly acceptable iff one assignment of sizes
    (0..4) to the names a, b and of a shape (rank 0..3, sizes 0..3) to '*c' satisfies every axis predicate.
    It is evaluated through per-axis truth tables over ALL assignments (25 x 85), so it is order-free by
    construction; the two oracles are asserted to agree on every legal case (a disagreement is a harness crash).

Where the statement is silent the oracle admits two answers (documented in `rule`), it never guesses.
"""
import itertools
import os
import random
import sys
import time
from multiprocessing import get_context

sys.path.insert(0, os.path.dirname(os.path.abspath(__file__)))
import _common  # noqa: E402

# --------------------------------------------------------------------------------------------------------
# The bound
# --------------------------------------------------------------------------------------------------------
ALPHABET = ["a", "b", "#a", "_", "3", "#3", "1", "*c", "*#c", "...", "a+1", "#a+1", "a*b"]
SIZES = (0, 1, 2, 3)

# Meaning of every token of the alphabet, written down by hand from the statement / docs:
#   ("anon",)                      '_'            matches anything
#   ("int", n, bc)                 integer        equal (bc: or size 1)
#   ("name", x, bc)                name           equals bound size, binds if new (bc: or size 1, then no binding)
#   ("sym", names, fn, bc)         symbolic       equals value of expression over bound sizes (bc: or size 1)
#   ("multi", name|None, bc)       '*name'/'...'  zero or more axes
TOKEN_MEANING = {
    "a": ("name", "a", False),
    "b": ("name", "b", False),
    "#a": ("name", "a", True),
    "_": ("anon",),
    "3": ("int", 3, False),
    "#3": ("int", 3, True),
    "1": ("int", 1, False),
    "*c": ("multi", "c", False),
    "*#c": ("multi", "c", True),
    "...": ("multi", None, False),
    "a+1": ("sym", ("a",), (lambda a, b: a + 1), False),
    "#a+1": ("sym", ("a",), (lambda a, b: a + 1), True),
    "a*b": ("sym", ("a", "b"), (lambda a, b: a * b), False),
}
MENTIONS = {
    "a": {"a"}, "b": {"b"}, "#a": {"a"}, "_": set(), "3": set(), "#3": set(), "1": set(), "*c": {"c"},
    "*#c": {"c"}, "...": set(), "a+1": {"a"}, "#a+1": {"a"}, "a*b": {"a", "b"},
}


def all_strings(max_tokens):
    out = []
    for n in range(max_tokens + 1):
        for toks in itertools.product(ALPHABET, repeat=n):
            if sum(1 for t in toks if TOKEN_MEANING[t][0] == "multi") <= 1:
                out.append(toks)
    return out


def all_shapes(max_rank):
    out = []
    for r in range(max_rank + 1):
        out.extend(itertools.product(SIZES, repeat=r))
    return out


# --------------------------------------------------------------------------------------------------------
# Oracle 1: stepwise reference semantics.  State = (a, b, c_exact, c_lower); None = unbound.
#   c_exact: the shape fixed by an un-marked '*c' use;  c_lower: broadcast join of the '*#c' uses seen so far
#   (only kept while no un-marked use has fixed the shape).
# --------------------------------------------------------------------------------------------------------
EMPTY = (None, None, None, None)


def bjoin(s, t):
    """numpy-style broadcast of two shapes (right aligned, 1 stretches, missing leading axes are 1)."""
    if len(s) < len(t):
        s, t = t, s
    t = (1,) * (len(s) - len(t)) + tuple(t)
    out = []
    for x, y in zip(s, t):
        if x == y or y == 1:
            out.append(x)
        elif x == 1:
            out.append(y)
        else:
            return None
    return tuple(out)


def align(toks, shape):
    """Split shape around the (at most one) multi-axis token. Returns (single_axes, multi_tok, middle) or None
    on a rank mismatch. single_axes is a left-to-right list of (token, size)."""
    k = None
    for i, t in enumerate(toks):
        if TOKEN_MEANING[t][0] == "multi":
            k = i
    if k is None:
        if len(shape) != len(toks):
            return None
        return list(zip(toks, shape)), None, None
    nsuffix = len(toks) - k - 1
    if len(shape) < len(toks) - 1:
        return None
    pre = list(zip(toks[:k], shape[:k]))
    suf = list(zip(toks[k + 1:], shape[len(shape) - nsuffix:])) if nsuffix else []
    return pre + suf, toks[k], tuple(shape[k:len(shape) - nsuffix])


def step(state, toks, shape):
    """-> (admissible, new_state, legal).
    admissible: 'T', 'F', 'E' (AnnotationError), or two-letter strings where the statement admits two answers:
       'FE'  a symbolic axis mentions an unbound name AND some other axis/rank definitely mismatches
       'TE'  a '#'-marked symbolic axis has size 1 (accepted by '#') while its names are unbound
    new_state: state if the check is accepted. legal: no unbound symbolic axis was met."""
    al = align(toks, shape)
    hard = soft = False
    if al is None:
        # rank mismatch. Which names lie "to the left" of a symbolic axis is undefined without an alignment, so
        # AnnotationError is admitted as well whenever a symbolic axis mentions a name the prior state does not bind.
        unb = any(state["ab".index(n)] is None
                  for t in toks if TOKEN_MEANING[t][0] == "sym" for n in TOKEN_MEANING[t][1])
        return ("FE" if unb else "F"), None, not unb
    axes, mtok, middle = al
    env = {"a": state[0], "b": state[1]}
    mismatch = False
    for t, size in axes:
        m = TOKEN_MEANING[t]
        kind = m[0]
        if kind == "anon":
            continue
        if kind == "int":
            if not (size == m[1] or (m[2] and size == 1)):
                mismatch = True
        elif kind == "name":
            if m[2] and size == 1:
                continue  # accepted through '#', tells nothing about the name's size
            if env[m[1]] is None:
                env[m[1]] = size
            elif env[m[1]] != size:
                mismatch = True
        elif kind == "sym":
            if any(env[n] is None for n in m[1]):
                if m[3] and size == 1:
                    soft = True
                else:
                    hard = True
            else:
                val = m[2](env["a"], env["b"])
                if not (size == val or (m[3] and size == 1)):
                    mismatch = True
    cx, cl = state[2], state[3]
    if mtok is not None:
        mm = TOKEN_MEANING[mtok]
        if mm[1] is not None:
            if not mm[2]:  # un-marked use: this IS the shape of *c
                if cx is not None:
                    if cx != middle:
                        mismatch = True
                elif cl is not None and bjoin(cl, middle) != middle:
                    mismatch = True  # an earlier '#' use cannot be broadcast to it
                cx, cl = middle, None
            else:  # '#'-marked use: must be broadcastable to the shape of *c
                if cx is not None:
                    if bjoin(middle, cx) != cx:
                        mismatch = True
                elif cl is None:
                    cl = middle
                else:
                    j = bjoin(cl, middle)
                    if j is None:
                        mismatch = True
                    cl = j
    legal = not (hard or soft)
    if mismatch:
        return ("FE" if (hard or soft) else "F"), None, legal
    if hard:
        return "E", None, legal
    new_state = (env["a"], env["b"], cx, cl)
    return ("TE" if soft else "T"), new_state, legal


# --------------------------------------------------------------------------------------------------------
# Oracle 2: brute-force existence of one assignment, through truth tables over all assignments.
#   names: (a, b) in {0..4}^2 -> bit a*5+b ;   '*c': every shape of rank 0..3 over sizes 0..3 -> bit index
# --------------------------------------------------------------------------------------------------------
NAME_VALUES = range(5)
AB = [(a, b) for a in NAME_VALUES for b in NAME_VALUES]
ALL_AB = (1 << len(AB)) - 1
C_CANDIDATES = all_shapes(3)
ALL_C = (1 << len(C_CANDIDATES)) - 1


def axis_holds(tok, size, a, b):
    m = TOKEN_MEANING[tok]
    if m[0] == "anon":
        return True
    if m[0] == "int":
        return size == m[1] or (m[2] and size == 1)
    if m[0] == "name":
        return size == {"a": a, "b": b}[m[1]] or (m[2] and size == 1)
    if m[0] == "sym":
        return size == m[2](a, b) or (m[3] and size == 1)
    raise AssertionError(tok)


AXIS_TABLE = {}
for _t in ALPHABET:
    if TOKEN_MEANING[_t][0] != "multi":
        for _s in SIZES:
            AXIS_TABLE[_t, _s] = sum(1 << i for i, (a, b) in enumerate(AB) if axis_holds(_t, _s, a, b))
MULTI_TABLE = {}
for _sub in C_CANDIDATES:
    MULTI_TABLE[False, _sub] = sum(1 << i for i, tau in enumerate(C_CANDIDATES) if tau == _sub)
    MULTI_TABLE[True, _sub] = sum(1 << i for i, tau in enumerate(C_CANDIDATES) if bjoin(_sub, tau) == tau)


def sat_mask(toks, shape):
    al = align(toks, shape)
    if al is None:
        return (0, 0)
    axes, mtok, middle = al
    m = ALL_AB
    for t, size in axes:
        m &= AXIS_TABLE[t, size]
    c = ALL_C
    if mtok is not None and TOKEN_MEANING[mtok][1] is not None:
        c = MULTI_TABLE[TOKEN_MEANING[mtok][2], middle]
    return (m, c)


def sat_and(x, y):
    return (x[0] & y[0], x[1] & y[1])


def sat_ok(x):
    return x[0] != 0 and x[1] != 0


ALL_SAT = (ALL_AB, ALL_C)

# --------------------------------------------------------------------------------------------------------
# Running the real code
# --------------------------------------------------------------------------------------------------------
G = {}  # globals shared with forked workers


def dims_of(toks):
    return " ".join(toks)


def prepare(args):
    import numpy as np
    import jaxtyping
    from jaxtyping import Shaped, jaxtyped

    G["np"] = np
    G["jaxtyped"] = jaxtyped
    G["AnnotationError"] = jaxtyping.AnnotationError
    G["strings"] = all_strings(3)
    G["shapes"] = all_shapes(3)
    G["arrays"] = [np.zeros(s) for s in G["shapes"]]
    anns, build_fail = [], []
    for toks in G["strings"]:
        try:
            anns.append(Shaped[np.ndarray, dims_of(toks)])
        except Exception as e:  # a result, not a crash
            anns.append(None)
            build_fail.append((toks, type(e).__name__ + ": " + str(e)[:80]))
    G["anns"] = anns
    G["build_fail"] = build_fail
    G["short"] = [i for i, t in enumerate(G["strings"]) if len(t) <= 2]
    G["long"] = [i for i, t in enumerate(G["strings"]) if len(t) == 3]
    G["cstr"] = (G["strings"].index(("*c",)), G["strings"].index(("*#c",)))
    G["by_rank"] = {}
    for j, s in enumerate(G["shapes"]):
        G["by_rank"].setdefault(len(s), []).append(j)

    @jaxtyped(typechecker=None)
    def run_fn(pairs):
        return _run(pairs)

    G["run_fn"] = run_fn


def _run(pairs):
    out = []
    AE = G["AnnotationError"]
    for ann, arr in pairs:
        try:
            out.append("T" if isinstance(arr, ann) else "F")
        except AE:
            out.append("E")
        except Exception as e:
            out.append("X:" + type(e).__name__)
    return out


def run_real(hist, mode="ctx"):
    """hist: list of (string index, shape index). Returns list of 'T'/'F'/'E'/'X:<Exc>'."""
    anns, arrays = G["anns"], G["arrays"]
    pairs = [(anns[i], arrays[j]) for i, j in hist]
    if mode == "fn":
        return G["run_fn"](pairs)
    with G["jaxtyped"]("context"):
        return _run(pairs)


def snippet(hist, expected):
    items = ", ".join("(%r, %r)" % (dims_of(G["strings"][i]), G["shapes"][j]) for i, j in hist)
    return (
        "import numpy as np, jaxtyping\n"
        "from jaxtyping import Shaped, jaxtyped\n"
        "with jaxtyped('context'):\n"
        "    for dims, shape in [%s]:\n"
        "        try: print(repr(dims), shape, isinstance(np.zeros(shape), Shaped[np.ndarray, dims]))\n"
        "        except jaxtyping.AnnotationError: print(repr(dims), shape, 'AnnotationError')\n"
        "# expected verdicts (T/F/E=AnnotationError; two letters = either admissible): %s" % (items, expected)
    )


class Acc:
    """Per-worker accumulator; merged commutatively in the parent (so the result is deterministic)."""

    def __init__(self):
        self.evals = 0
        self.nontrivial = 0
        self.failing = 0
        self.classes = {}  # case id -> [count, witness sort key, failure dict]

    def fail(self, clause, hist, expected, actual, note=""):
        self.failing += 1
        cid = "C01:%s:%s" % (clause, ">".join("'%s'" % dims_of(G["strings"][i]) for i, _ in hist))
        key = tuple((len(G["strings"][i]), i, j) for i, j in hist)
        cur = self.classes.get(cid)
        if cur is None:
            if len(self.classes) >= 400:
                return
            cur = self.classes[cid] = [0, None, None]
        cur[0] += 1
        if cur[1] is None or key < cur[1]:
            cur[1] = key
            cur[2] = dict(
                case=cid, clause=clause,
                input=[[dims_of(G["strings"][i]), list(G["shapes"][j])] for i, j in hist],
                expected=expected + (" " + note if note else ""), actual=actual, snippet=snippet(hist, expected),
            )

    def merge(self, other):
        self.evals += other.evals
        self.nontrivial += other.nontrivial
        self.failing += other.failing
        for cid, (n, key, d) in other.classes.items():
            cur = self.classes.get(cid)
            if cur is None:
                self.classes[cid] = [n, key, d]
            else:
                cur[0] += n
                if key < cur[1]:
                    cur[1], cur[2] = key, d


def judge(acc, hist, mode="ctx", leak_state=None, count=True):
    """Run one history on the real code and compare every verdict with both oracles.
    Returns the list of real verdicts (or None when the history could not be built)."""
    strings, shapes = G["strings"], G["shapes"]
    if any(G["anns"][i] is None for i, _ in hist):
        return None
    real = run_real(hist, mode)
    acc.evals += 1
    state = EMPTY
    sat = ALL_SAT
    expected = []
    rejected_before = False
    for k, (i, j) in enumerate(hist):
        toks, shape = strings[i], shapes[j]
        adm, new_state, legal = FRESH[i][j] if state is EMPTY else step(state, toks, shape)
        expected.append(adm)
        if legal:
            # the two oracles must agree wherever no unbound symbolic axis is involved
            s2 = sat_ok(sat_and(sat, SATMASK[i][j]))
            if (adm == "T") != s2 or adm not in ("T", "F"):
                raise AssertionError("oracle disagreement on %r: stepwise %s, brute force %s" % (
                    [(dims_of(strings[a]), shapes[b]) for a, b in hist[:k + 1]], adm, s2))
        r = real[k]
        if r.startswith("X:"):
            acc.fail("unexpected-exception", hist[:k + 1], "".join(e + "," for e in expected)[:-1], ",".join(real[:k + 1]))
            return real
        if r not in adm:
            if k > 0:
                # does this check already get a wrong answer on its own, in a fresh context?  then say so
                alone = run_real([hist[k]], mode)
                adm0 = FRESH[i][j][0]
                if alone[0] not in adm0:
                    acc.fail("verdict", [hist[k]], adm0, alone[0])
                    return real
            if k == 0:
                clause = "verdict"
            elif rejected_before:
                clause = "rollback"
            else:
                clause = "verdict-after-accepted"
            acc.fail(clause, hist[:k + 1], ",".join(expected), ",".join(real[:k + 1]))
            return real
        if r == "T":
            state = new_state
            sat = sat_and(sat, SATMASK[i][j])
        else:
            rejected_before = True
    # measured non-triviality: the last check got past the rank test, and (for histories) its oracle answer
    # depends on what happened before (or would, had the partial bindings of a rejected check leaked)
    li, lj = hist[-1]
    if count and align(strings[li], shapes[lj]) is not None:
        if len(hist) == 1:
            acc.nontrivial += 1
        else:
            fresh = FRESH[li][lj][0]
            if expected[-1] != fresh or ("T" in real[:-1] and MENTIONS_ANY[li]):
                acc.nontrivial += 1
            elif leak_state is not None and step(leak_state, strings[li], shapes[lj])[0] != fresh:
                acc.nontrivial += 1
    return real


MENTIONS_ANY = {}
FRESH = []    # FRESH[i][j] = step(EMPTY, strings[i], shapes[j]), filled by the parent before forking
SATMASK = []  # SATMASK[i][j] = sat_mask(strings[i], shapes[j])


def leak_candidates(toks, shape):
    """The atomic bindings a rejected/erroring check COULD have made before failing (any processing order):
    used only to pick discriminating rollback cases, never to decide a verdict."""
    al = align(toks, shape)
    if al is None:
        return None
    axes, mtok, middle = al
    a = b = None
    for t, size in axes:
        m = TOKEN_MEANING[t]
        if m[0] == "name" and not (m[2] and size == 1):
            if m[1] == "a" and a is None:
                a = size
            if m[1] == "b" and b is None:
                b = size
    cx = cl = None
    if mtok is not None and TOKEN_MEANING[mtok][1] is not None:
        if TOKEN_MEANING[mtok][2]:
            cl = middle
        else:
            cx = middle
    st = (a, b, cx, cl)
    return None if st == EMPTY else st


# --------------------------------------------------------------------------------------------------------
# Work units
# --------------------------------------------------------------------------------------------------------
def work(task):
    kind = task[0]
    acc = Acc()
    strings, shapes = G["strings"], G["shapes"]
    nshapes = len(shapes)
    if kind == "h1":
        _, lo, hi, mode = task
        for i in range(lo, hi):
            for j in range(nshapes):
                judge(acc, [(i, j)], mode, count=(mode == "ctx"))
    elif kind == "h2":
        # firsts x seconds (seconds = list of string indices, all shapes), optional subsampling by stride
        _, firsts, seconds, stride, offset = task
        n = offset
        for (fi, fj, leak) in firsts:
            for si in seconds:
                if leak is not None and not (MENTIONS_SET[si] & leak_names(leak)):
                    continue
                for sj in range(nshapes):
                    n += 1
                    if stride > 1 and n % stride:
                        continue
                    hist = [(fi, fj), (si, sj)]
                    real = judge(acc, hist, "ctx", leak)
                    if real is not None and real[0] == "T":
                        maybe_reverse(acc, hist, real)
    elif kind == "rand":
        # distinct by construction: tasks partition the first checks, a task never repeats a history, 2-histories use
        # second strings of exactly 3 tokens (H2 covers <=2) and 3-histories avoid the H3c space
        _, seed, count, length, part, nparts = task
        rng = random.Random(seed)
        firsts = G["rep_all"][part::nparts]
        pool = G["long"] if length == 2 else range(len(strings))
        cstr = G["cstr"]
        seen = set()
        done = 0
        while done < count:
            hist = [rng.choice(firsts)[:2]]
            while len(hist) < length:
                si = rng.choice(pool)
                toks = strings[si]
                nm = sum(1 for t in toks if TOKEN_MEANING[t][0] == "multi")
                if rng.random() < 0.9:
                    lo = len(toks) - nm
                    ranks = [r for r in range(4) if (r >= lo if nm else r == lo)]
                    sj = rng.choice(G["by_rank"][rng.choice(ranks)]) if ranks else rng.randrange(nshapes)
                else:
                    sj = rng.randrange(nshapes)
                hist.append((si, sj))
            key = tuple(hist)
            if key in seen or (length == 3 and hist[0][0] in cstr and hist[1][0] in cstr):
                continue
            seen.add(key)
            done += 1
            real = judge(acc, hist, "ctx")
            if real is not None and length == 2 and real[0] == "T":
                maybe_reverse(acc, hist, real)
    elif kind == "h3c":
        # '*c' state transitions that need two accepted checks: X, Y in {'*c','*#c'} x shapes of rank<=2, Z given
        _, xs, ys, zs = task
        for x in xs:
            for y in ys:
                for zi in zs:
                    for zj in range(nshapes):
                        judge(acc, [x, y, (zi, zj)], "ctx")
    else:
        raise AssertionError(kind)
    return acc


MENTIONS_SET = {}


def leak_names(leak):
    s = set()
    if leak[0] is not None:
        s.add("a")
    if leak[1] is not None:
        s.add("b")
    if leak[2] is not None or leak[3] is not None:
        s.add("c")
    return s


def maybe_reverse(acc, hist, real):
    """Order independence: if both checks are individually acceptable in a fresh context and neither order meets an
    unbound symbolic axis, 'both accepted' must not depend on the order."""
    (fi, fj), (si, sj) = hist
    strings, shapes = G["strings"], G["shapes"]
    a1, st1, legal1 = FRESH[si][sj]
    if a1 != "T" or not legal1:
        return
    f1, fst, flegal = FRESH[fi][fj]
    if f1 != "T" or not flegal:
        return
    if not step(st1, strings[fi], shapes[fj])[2] or not step(fst, strings[si], shapes[sj])[2]:
        return
    rev = [(si, sj), (fi, fj)]
    real_rev = judge(acc, rev, "ctx", count=False)
    if real_rev is None:
        return
    both = real == ["T", "T"]
    both_rev = real_rev == ["T", "T"]
    if both != both_rev:
        acc.fail("order-dependence", hist, "both-accepted equal in both orders",
                 "%s forward, %s reversed" % (",".join(real), ",".join(real_rev)))


# --------------------------------------------------------------------------------------------------------
def choose_representatives(seed, k_acc, k_rej):
    """Oracle-only classification of every single check in a fresh context; picks the first checks of the
    2-/3-histories: up to k_acc accepted checks per distinct resulting binding state and up to k_rej
    rejected / AnnotationError checks per distinct set of bindings they could have leaked."""
    strings, shapes = G["strings"], G["shapes"]
    rng = random.Random(seed)
    by_state, by_leak = {}, {}
    for i, toks in enumerate(strings):
        FRESH.append([])
        SATMASK.append([])
        for j, shape in enumerate(shapes):
            adm, st, legal = step(EMPTY, toks, shape)
            FRESH[i].append((adm, st, legal))
            SATMASK[i].append(sat_mask(toks, shape))
            if adm == "T":
                by_state.setdefault(st, []).append((i, j))
            elif adm in ("F", "E", "FE"):
                leak = leak_candidates(toks, shape)
                if leak is not None:
                    by_leak.setdefault((leak, adm), []).append((i, j))
            # 'TE' first checks are left to the random histories
    acc_reps, rej_reps = [], []
    for st in sorted(by_state, key=repr):
        lst = by_state[st]
        picks = [lst[0]] + (rng.sample(lst[1:], min(k_acc - 1, len(lst) - 1)) if k_acc > 1 and len(lst) > 1 else [])
        acc_reps.extend((i, j, None) for i, j in picks)
    for key in sorted(by_leak, key=repr):
        lst = by_leak[key]
        picks = [lst[0]] + (rng.sample(lst[1:], min(k_rej - 1, len(lst) - 1)) if k_rej > 1 and len(lst) > 1 else [])
        rej_reps.extend((i, j, key[0]) for i, j in picks)
    return acc_reps, rej_reps, len(by_state), len(by_leak)


def chunks(lst, n):
    return [lst[k:k + n] for k in range(0, len(lst), n)]


def main():
    args = _common.setup(__doc__)
    prepare(args)
    strings, shapes = G["strings"], G["shapes"]
    for i, toks in enumerate(strings):
        MENTIONS_SET[i] = set().union(*[MENTIONS[t] for t in toks]) if toks else set()
        MENTIONS_ANY[i] = bool(MENTIONS_SET[i])
    thorough = args.tier == "thorough"
    k_acc, k_rej = (3, 2) if thorough else (1, 1)
    acc_reps, rej_reps, n_states, n_leaks = choose_representatives(args.seed, k_acc, k_rej)
    G["rep_all"] = acc_reps + rej_reps
    stride = 1 if thorough else 8
    n_rand2 = 1500000 if thorough else 100000
    n_rand3 = 3000000 if thorough else 60000

    tasks = []
    for lo in range(0, len(strings), 100):
        tasks.append(("h1", lo, min(lo + 100, len(strings)), "ctx"))
        tasks.append(("h1", lo, min(lo + 100, len(strings)), "fn"))
    short = G["short"]
    off = 0
    for ch in chunks(acc_reps, 4):
        tasks.append(("h2", ch, short, stride, off))
        off += 1
    for ch in chunks(rej_reps, 8):
        tasks.append(("h2", ch, short, stride, off))
        off += 1
    per = 20000
    for c in range(n_rand2 // per):
        tasks.append(("rand", args.seed * 1000003 + c, per, 2, c, n_rand2 // per))
    for c in range(n_rand3 // per):
        tasks.append(("rand", args.seed * 1000003 + 500000 + c, per, 3, c, n_rand3 // per))

    cstr = [strings.index(("*c",)), strings.index(("*#c",))]
    low = [j for j, sh in enumerate(shapes) if len(sh) <= 2]
    xy = [(i, j) for i in cstr for j in low]
    zs = [i for i in short if "c" in MENTIONS_SET[i]] if thorough else cstr
    for x in xy:
        tasks.append(("h3c", [x], xy, zs))
    n_h3c = len(xy) * len(xy) * len(zs) * len(shapes)

    total = Acc()
    for toks, err in G["build_fail"]:
        total.failing += 1
        total.classes["C01:build:'%s'" % dims_of(toks)] = [1, (), dict(
            case="C01:build:'%s'" % dims_of(toks), clause="build", input=dims_of(toks), expected="annotation builds",
            actual=err, snippet="import numpy as np\nfrom jaxtyping import Shaped\nShaped[np.ndarray, %r]" % dims_of(toks))]
    ctx = get_context("fork")
    with ctx.Pool(max(1, min(7, (os.cpu_count() or 2) - 1))) as pool:
        for acc in pool.imap_unordered(work, tasks, chunksize=1):
            total.merge(acc)

    tally = _common.Tally()
    tally.evaluations = total.evals
    prio = {"build": 0, "unexpected-exception": 1, "verdict": 2, "verdict-after-accepted": 3, "rollback": 4,
            "order-dependence": 5}

    def order(cid):
        d = total.classes[cid][2]
        ntok = sum(len(x[0].split()) for x in d["input"]) if isinstance(d["input"], list) else 0
        return (prio.get(d["clause"], 9), ntok, cid)

    for cid in sorted(total.classes, key=order)[: tally.max_failures]:
        n, _, d = total.classes[cid]
        d = dict(d)
        d["instances"] = n
        tally.failures.append(d)
    # a few actual cases, chosen deterministically
    for hist in ([(strings.index(("a", "*c", "b")), shapes.index((2, 3, 3)))],
                 [(strings.index(("*c",)), shapes.index((3,))), (strings.index(("*#c", "a")), shapes.index((1, 2)))],
                 [(strings.index(("a", "3")), shapes.index((2, 2))), (strings.index(("a",)), shapes.index((3,)))],
                 [(strings.index(("#a",)), shapes.index((1,))), (strings.index(("a", "a+1")), shapes.index((2, 3)))],
                 [(strings.index(("b", "a+1")), shapes.index((2, 3))), (strings.index(("b",)), shapes.index((3,)))]):
        real = run_real(hist)
        tally.samples.append({"history": [[dims_of(strings[i]), list(shapes[j])] for i, j in hist], "real": real})
    nshort = len(short)
    bound = (
        "alphabet %s; dim strings of <=3 tokens with <=1 multi-axis token (%d strings); shapes of rank 0..3 over sizes "
        "{0,1,2,3} (%d shapes); Shaped[np.ndarray, dims] on np.zeros(shape). "
        "H1: every string x every shape in a fresh context, run both inside jaxtyped('context') and inside a "
        "jaxtyped(typechecker=None) function (exhaustive). "
        "H2: first check = %d representative(s) per distinct binding state reachable by one accepted check (%d states, %d firsts) "
        "and %d per distinct set of bindings a rejected/AnnotationError check could have leaked (%d sets, %d firsts; second "
        "strings restricted to those mentioning a possibly-leaked name); second check = every string of <=2 tokens (%d) x every "
        "shape%s; plus the reversed history whenever both orders are legal. "
        "R2: %d distinct seeded random 2-histories (first from the same representatives, second string of exactly 3 tokens, "
        "rank-compatible shape w.p. 0.9). "
        "H3c: every 3-history X,Y,Z with X,Y in {'*c','*#c'} x shapes of rank<=2 and Z in %s x every shape (%d, exhaustive). "
        "H3: %d distinct seeded random 3-histories outside H3c (first from the representatives, then any string)."
        % (ALPHABET, len(strings), len(shapes), k_acc, n_states, len(acc_reps), k_rej, n_leaks, len(rej_reps), nshort,
           "" if stride == 1 else " (every %dth pair of that product)" % stride, n_rand2,
           "every <=2-token string mentioning c" if thorough else "{'*c','*#c'}", n_h3c, n_rand3)
    )
    rule = (
        "Each verdict (True/False/AnnotationError) is compared with a stepwise reference semantics written from the statement "
        "(state: a,b -> size; *c -> exact shape or broadcast lower bound; only ACCEPTED checks change the state; '#name' of "
        "size 1 does not bind; symbolic axes see names bound by earlier accepted checks or by axes to their left), and the "
        "stepwise oracle is asserted equal to a brute-force existence search over all assignments a,b in 0..4, *c in all "
        "shapes of rank<=3. Statement-silent cases admit two answers and are NOT failures: (i) unbound symbolic axis together "
        "with a definite mismatch elsewhere (False or AnnotationError), (ii) '#'-marked symbolic axis of size 1 over unbound "
        "names (True or AnnotationError). Clauses: verdict (first check), verdict-after-accepted, rollback (a check after a "
        "rejected/erroring one must behave as if that one never happened), order-dependence, unexpected-exception, build. "
        "A case is counted non-trivial when the last check passes the rank test (H1) or its oracle answer depends on the "
        "preceding checks / mentions a name while something was accepted before / would change had the rejected check leaked. "
        "distinct_nontrivial counts each history once: the enumerated parts are disjoint by construction, the fn-mode repeat of "
        "H1 and the reversed histories are evaluated but not counted."
    )
    _common.emit(
        tally, bound=bound, rule=rule, exhaustive=False,
        exhaustive_note="H1 and the stated H2 product are exhaustive in the thorough tier; random histories are samples",
        distinct_nontrivial=total.nontrivial, failing_evaluations=total.failing, failure_classes=len(total.classes),
        wall_seconds=round(time.time() - args.t0, 1),
    )


if __name__ == "__main__":
    main()
