"""Parse z3-printed model values (ints, bools, strings, Dim constructor applications, seqs).
No z3 import: usable under the repo's interpreter."""
import re


def unescape(s):
    return re.sub(r"\\u\{([0-9a-fA-F]+)\}", lambda m: chr(int(m.group(1), 16)), s)


def parse(text):
    text = text.strip()
    pos = 0

    def ws():
        nonlocal pos
        while pos < len(text) and text[pos] in " \n\t,":
            pos += 1

    def val():
        nonlocal pos
        ws()
        c = text[pos]
        if c == '"':
            j = pos + 1
            out = []
            while True:
                if text[j] == '"':
                    if j + 1 < len(text) and text[j + 1] == '"':
                        out.append('"')
                        j += 2
                        continue
                    break
                out.append(text[j])
                j += 1
            pos = j + 1
            return unescape("".join(out))
        m = re.match(r"-?\d+", text[pos:])
        if m:
            pos += len(m.group(0))
            return int(m.group(0))
        m = re.match(r"[A-Za-z_][A-Za-z_0-9.!]*", text[pos:])
        if not m:
            raise ValueError(f"cannot parse model value at {pos}: {text[pos:pos+40]!r}")
        name = m.group(0)
        pos += len(name)
        ws()
        args = []
        if pos < len(text) and text[pos] == "(":
            pos += 1
            while True:
                ws()
                if text[pos] == ")":
                    pos += 1
                    break
                args.append(val())
        if name == "True":
            return True
        if name == "False":
            return False
        if name == "Unit":
            return [args[0]]
        if name == "Concat":
            out = []
            for a in args:
                out.extend(a)
            return out
        if name == "Empty":
            return []
        return (name, *args)

    v = val()
    return v


def meta(model, key, default=None):
    t = (model or {}).get("meta!" + key)
    if t is None:
        return default
    try:
        return parse(t)
    except Exception:
        return default
